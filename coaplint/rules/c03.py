"""C03 Confirmable messages: bounded exponential back-off that always terminates."""

import ast
from fractions import Fraction

from ..rulekit import *
from ..norm import Normalizer, Poly
from . import _kit_c03 as K

R = Rules(
    "C03",
    explanation=(
        "Structural clauses of the retransmission machinery decided on the syntax trees of "
        "messagemanager.py, numbers/constants.py and error.py: which expression feeds the initial "
        "timer (normal form equal to uniform(ACK_TIMEOUT, ACK_TIMEOUT*ACK_RANDOM_FACTOR)), that the "
        "only transmission in _retransmit is guarded by counter < MAX_RETRANSMIT and is followed by a "
        "re-arm with (same message, 2*timeout, counter+1), that the give-up arm re-arms nothing and "
        "reports a timeout-class NetworkError for the message's remote, that the exchange key is "
        "(remote, mid) at all three sites, that ACK/RST cancel the stored timer and only RST fires the "
        "error monitor, that the message object is not modified between copies, and that the derived "
        "TransportTuning spans equal the RFC 7252 section 4.8.2 formulas, that a message derived by Message.copy() "
        "(block-wise fragments and follow-ups) carries the caller's override or the original's own tuning object and "
        "Message.__init__ stores the tuning it is given, and that the class of the error the give-up arm reports is "
        "still an error.TimeoutError after the conversion TokenManager.dispatch_error applies (evaluated on a small "
        "world with the class hierarchy, builtin bases included), and that the remote half of the exchange key identifies the "
        "endpoint: constructor, __eq__ and __hash__ of the UDP address class are interpreted over a finite world of socket "
        "addresses against the reference 'same IP address and port (any scope id, any local address) is equal and hashes "
        "equally, another address or port is unequal'.  The order of transmitting and re-arming inside the "
        "atomic (plain synchronous) retransmission step is not constrained.  Paper step: with these "
        "premises at most 1+MAX_RETRANSMIT transmissions occur with gaps t0*2^i and the give-up fires "
        "t0*(2^(N+1)-1) <= MAX_TRANSMIT_WAIT after the first copy.  Wall-clock behaviour is not decided."
    ),
    rule_text="obligations over the path model of each function (comparison facts per path), def-use resolved values compared by polynomial normal form, one model for callables / dict accesses / call arguments, finite-domain evaluation of dispatch_message, class-hierarchy facts",
)

MM = "messagemanager.MessageManager."
TABLE = "self._active_exchanges"
TUNING = {"ACK_TIMEOUT", "ACK_RANDOM_FACTOR", "MAX_RETRANSMIT", "MAX_TRANSMIT_SPAN", "MAX_TRANSMIT_WAIT",
          "MAX_LATENCY", "PROCESSING_DELAY", "MAX_RTT", "EXCHANGE_LIFETIME", "EMPTY_ACK_DELAY", "NSTART",
          "OBSERVATION_RESET_TIME", "DEFAULT_LEISURE", "REQUEST_TIMEOUT"}
WIRE_ATTRS = {"mtype", "mid", "code", "token", "payload", "version", "remote", "opt", "_mtype", "_mid", "_token"}
MTYPES = ["CON", "NON", "ACK", "RST"]


def _fn(ctx, name):
    """The anchored function as the clauses see it (engine canonical form + local view, see _kit_c03.view)."""
    return K.view(ctx.prog.func(MM + name))


def _msgparam(fi):
    p = params(fi)
    if not p:
        raise AnalysisError("%s has no message parameter" % fi.short)
    return p[0]


def _is_param_unmodified(fi, name):
    return not writes_to_name(fi.node, name)


def _is_name(fi, e, name):
    """Does e denote the (never rebound) local/parameter `name`?  Single-assignment aliases are followed."""
    e = resolve_local(fi.node, e)
    return isinstance(e, ast.Name) and e.id == name and _is_param_unmodified(fi, name)


def _schedule_args(ctx, fi, call):
    """(message, timeout, counter) argument expressions of a `self._schedule_retransmit(...)` call,
    positional or keyword."""
    sched = ctx.prog.func(MM + "_schedule_retransmit")
    sp = params(sched)
    ctx.need(len(sp) == 3, "_schedule_retransmit signature changed")
    b = K.method_args(sched, call)
    ctx.need(b is not None, "_schedule_retransmit call with a shape outside the rule's vocabulary: %s" % stmt_text(call))
    return [b[x] for x in sp]


def _uniform_bounds(ctx, fi, t):
    """(lo, hi) polynomials when the closed expression t is a uniform draw from [lo, hi]:
    random.uniform(lo, hi) (positional/keyword, `from random import uniform`) or the affine form
    lo + random.random()*(hi - lo).  Both denote a value of the closed interval spanned by lo and hi."""
    N = Normalizer(env=norm.local_env(fi.node))
    if isinstance(t, ast.Call) and K.resolved_func_name(ctx.prog, fi, t.func) == "random.uniform":
        args = list(t.args)
        kw = {k.arg: k.value for k in t.keywords}
        if len(args) == 2 and not kw:
            return N.poly(args[0]), N.poly(args[1])
        if len(args) == 1 and set(kw) == {"b"}:
            return N.poly(args[0]), N.poly(kw["b"])
        if not args and set(kw) == {"a", "b"}:
            return N.poly(kw["a"]), N.poly(kw["b"])
        return None
    draws = [c for c in ast.walk(t) if isinstance(c, ast.Call) and K.resolved_func_name(ctx.prog, fi, c.func) == "random.random" and not c.args]
    if len(draws) == 1:
        try:
            p = N.poly(t)
        except norm.NormError:
            return None
        atom = N.atom_name(draws[0])
        if K.poly_degree(p, atom) == 1:
            return K.poly_subst_const(p, atom, 0), K.poly_subst_const(p, atom, 1)
    return None


def _initial_timeout(ctx, fi, m, call, t):
    """Obligations on one (closed) expression the initial timeout may come from."""
    try:
        bounds = _uniform_bounds(ctx, fi, t)
    except norm.NormError:
        bounds = None
    if bounds is None:
        opaque = [c_ for c_ in ast.walk(t) if isinstance(c_, ast.Call) and K.resolve_callee(ctx.prog, fi, c_) is not None]
        ctx.need(not opaque, "_add_exchange: the initial timeout is computed by %s, which is outside the rule's vocabulary (not a straight-line helper)" % (stmt_text(opaque[0]) if opaque else ""))
        ctx.ob("initial timeout is drawn by random.uniform(lo, hi)", False, fi, call, detail="timeout argument resolves to %s" % stmt_text(t))
        return
    T = Poly.atom("%s.transport_tuning.ACK_TIMEOUT" % m)
    F = Poly.atom("%s.transport_tuning.ACK_RANDOM_FACTOR" % m)
    lo, hi = bounds
    if lo == T * F and hi == T:
        lo, hi = hi, lo  # uniform(b, a) draws from the same interval
    ctx.ob("lower bound of the initial timeout is ACK_TIMEOUT of the message's transport tuning", lo == T and _is_param_unmodified(fi, m), fi, call, detail="lo = %r" % lo,
           construct="initial timeout: %s" % stmt_text(t))
    ctx.ob("upper bound of the initial timeout is ACK_TIMEOUT*ACK_RANDOM_FACTOR of the message's transport tuning", hi == T * F and _is_param_unmodified(fi, m), fi, call, detail="hi = %r" % hi,
           construct="initial timeout: %s" % stmt_text(t))


@R.clause("C03.a", "initial timeout is uniform(ACK_TIMEOUT, ACK_TIMEOUT*ACK_RANDOM_FACTOR) of the message's tuning; first schedule uses counter 0")
def a(ctx):
    fi = _fn(ctx, "_add_exchange")
    m = _msgparam(fi)
    calls = K.self_calls(fi, "_schedule_retransmit")
    ctx.floor("calls of _schedule_retransmit in _add_exchange", len(calls), 1)
    for call in calls:
        am, at, ac = _schedule_args(ctx, fi, call)
        ctx.ob("scheduled message is the message being added", _is_name(fi, am, m), fi, call)
        N = Normalizer(env=norm.local_env(fi.node))
        try:
            c0 = N.poly(ac)
        except norm.NormError:
            c0 = None
        ctx.ob("first retransmission counter is 0", c0 == Poly.const(0), fi, call, detail="counter argument: %s" % ast.unparse(ac))
        # the value passed as timeout, through locals and straight-line helpers; every arm of a conditional
        # expression must be such a draw
        arms = [K.closed(ctx.prog, fi, at)]
        while any(isinstance(x, ast.IfExp) for x in arms):
            arms = [y for x in arms for y in ([x.body, x.orelse] if isinstance(x, ast.IfExp) else [x])]
        for t in arms:
            _initial_timeout(ctx, fi, m, call, t)

    # _schedule_retransmit arms a timer of exactly `timeout` whose callback calls _retransmit(message, timeout, counter)
    sf = _fn(ctx, "_schedule_retransmit")
    sp = params(sf)
    ctx.need(len(sp) == 3, "_schedule_retransmit signature changed")
    rt = ctx.prog.func(MM + "_retransmit")
    rp = params(rt)
    ctx.need(len(rp) == 3, "_retransmit signature changed")
    timers = K.calls_on(sf, "self.loop", ("call_later", "call_at"))
    ctx.floor("timer calls in _schedule_retransmit", len(timers), 1)
    N = Normalizer(env=norm.local_env(sf.node))
    for call in timers:
        ctx.need(len(call.args) >= 2 and not any(isinstance(x, ast.Starred) for x in call.args), "timer call with a shape outside the rule's vocabulary")
        d, cb, rest = call.args[0], call.args[1], list(call.args[2:])
        try:
            dp = N.poly(d)
            if resolve_local(sf.node, call.func).attr == "call_at":
                # call_at(loop.time() + timeout, ...) is call_later(timeout, ...)
                dp = dp - Poly.atom("self.loop.time()")
        except norm.NormError:
            dp = None
        ctx.ob("timer delay is exactly the timeout parameter", dp == Poly.atom(sp[1]) and _is_param_unmodified(sf, sp[1]), sf, call, detail="delay = %s" % ast.unparse(d))
        f, args, kws, why = K.callable_call(ctx.prog, sf, cb, rest, "_retransmit")
        ok = False
        if f is not None:
            bound = K.bind_args(rt.node, args, kws, True)
            if chain(resolve_local(sf.node, f.value)) != "self":
                why = "callback calls _retransmit of %s" % stmt_text(f.value)
            elif bound is None:
                why = "callback passes %s" % [ast.unparse(x) for x in args]
            else:
                # same message object, and (timeout, counter) equal as values; parameters captured by the
                # callback (by default argument, partial or closure) are never rebound in _schedule_retransmit
                bad = None
                if not _is_name(sf, bound[rp[0]], sp[0]):
                    bad = "message passed is %s" % ast.unparse(bound[rp[0]])
                for i in (1, 2):
                    try:
                        v = N.poly(bound[rp[i]])
                    except norm.NormError:
                        v = None
                    if not (v == Poly.atom(sp[i]) and _is_param_unmodified(sf, sp[i])):
                        bad = bad or "argument %s is not the scheduled %s" % (ast.unparse(bound[rp[i]]), sp[i])
                ok = bad is None
                why = bad or "callback passes (%s)" % ", ".join(sp)
        ctx.ob("timer callback invokes _retransmit(message, timeout, counter) with the scheduled values", ok, sf, call, detail=why)
        rets = [n for n in walk_no_nested(sf.node) if isinstance(n, ast.Return)]
        returned = bool(rets) and all(r.value is not None and resolve_local(sf.node, r.value) is call for r in rets)
        ctx.ob("_schedule_retransmit returns the timer handle", returned, sf, call)


def _retransmit_model(ctx):
    """(view, params, PathFacts, fact 'counter < MAX_RETRANSMIT of the message's tuning', its negation)."""
    fi = _fn(ctx, "_retransmit")
    p = params(fi)
    ctx.need(len(p) == 3, "_retransmit signature changed")
    m, t, c = p
    pf = K.PathFacts(fi)
    N = Normalizer()
    want = ("lt", Poly.atom(c) - Poly.atom("%s.transport_tuning.MAX_RETRANSMIT" % m))
    return fi, p, pf, want, N.negate(want)


def _fmt_facts(facts):
    return sorted(map(repr, facts))


def _need_interpretable(ctx, pf, path, counter):
    """A path that lacks the expected fact although it branches on the counter through a condition the
    normaliser cannot express (`counter in range(n)`, a predicate call ...) is refused, not reported."""
    if path is None:
        return
    for n in path.nodes:
        nd = pf.cfg.nodes[n]
        if nd.kind in ("T", "F") and isinstance(nd.ast, ast.expr):
            e = resolve_local(pf.fi.node, nd.ast) if isinstance(nd.ast, ast.Name) else nd.ast
            if counter in names_in(e):
                c_ = pf._outcome(n)
                ctx.need(c_ is not None and c_[0] in ("lt", "le", "eq", "ne"), "_retransmit: the condition `%s` on the retransmission counter is outside the rule's vocabulary" % stmt_text(nd.ast))


def _transmissions(fi):
    """The calls that put a message on the wire: self._send_via_transport(m), or what that function itself does,
    self.message_interface.send(m) (receiver and bound-method aliases resolved)."""
    return K.self_calls(fi, "_send_via_transport") + K.calls_on(fi, "self.message_interface", ("send",))


def _sent_object(sv, call):
    f = call.func
    if isinstance(f, ast.Attribute) and f.attr == "_send_via_transport":
        ba = K.method_args(sv, call)
        return ba[params(sv)[0]] if ba else None
    if len(call.args) == 1 and not call.keywords and not isinstance(call.args[0], ast.Starred):
        return call.args[0]
    if not call.args and len(call.keywords) == 1 and call.keywords[0].arg is not None:
        return call.keywords[0].value
    return None


@R.clause("C03.b", "_retransmit: one guarded transmission of the unmodified message, re-arm with (message, 2*timeout, counter+1), nothing re-armed on give-up")
def b(ctx):
    # Decided on the path model of _retransmit: a path is a *retransmission path* when the branch outcomes on it
    # establish counter - MAX_RETRANSMIT < 0 for the incoming counter (normal form; `not (a < b)`, `a >= b`,
    # mirrored operands, named conditions, early return vs. if/else all give the same fact).  Necessary
    # conditions: a transmission / re-arm lies only on retransmission paths, every retransmission path has
    # exactly one of each (in either order: the function is one atomic step of the event loop, C03.b checks that
    # it is a plain synchronous function), and the re-arm passes (same message, 2*timeout, counter+1).
    fi, p, pf, want, notwant = _retransmit_model(ctx)
    m, t, c = p
    cfg = pf.cfg
    paths = pf.paths()
    ctx.need(paths, "_retransmit has no normal path")
    sends = _transmissions(fi)
    if not sends:
        # nothing is handed to the transport at all.  That is the finding "no copy is transmitted" -- unless the
        # function calls something through a local callable (partial, lambda, nested def) that the rule does not
        # look into: then the transmission may be in there, and the rule refuses instead
        hidden = [c_ for c_ in ast.walk(fi.node) if isinstance(c_, ast.Call) and chain(resolve_local(fi.node, c_.func)) is None]
        ctx.need(not hidden, "_retransmit: no transmission found, but `%s` calls something outside the rule's vocabulary" % (stmt_text(hidden[0], 70) if hidden else ""))
    ctx.ob("_retransmit is a plain synchronous function: transmitting the copy and arming the next timer are one atomic step of the event loop (their order is immaterial)",
           is_plain_sync(fi), fi, fi.node, construct="def _retransmit")
    send_nodes = set()
    for call in sends:
        send_nodes |= pf.nodes_of(call)
    rearms = K.self_calls(fi, "_schedule_retransmit") + K.calls_on(fi, "self.loop", ("call_later", "call_at"))
    rearm_nodes = set()
    for call in rearms:
        rearm_nodes |= pf.nodes_of(call)
    sv = ctx.prog.func(MM + "_send_via_transport")
    for call in sends:
        nodes = pf.nodes_of(call)
        through = [q for q in paths if nodes & set(q.nodes)]
        bad = next((q for q in through if want not in pf.facts(q)), None)
        _need_interpretable(ctx, pf, bad, c)
        ctx.ob("transmission is guarded by retransmission_counter < MAX_RETRANSMIT of the message's tuning", bool(through) and bad is None, fi, call,
               detail="on the path [%s] only %s is established" % (pf.describe(bad), _fmt_facts(pf.facts(bad))) if bad is not None else None)
        arg = _sent_object(sv, call)
        ctx.ob("the retransmitted object is the message parameter itself (byte-identical copy)", arg is not None and _is_name(fi, arg, m), fi, call)
        ctx.ob("the transmission is not inside a loop", all(n not in cfg.reach({n}) for n in nodes), fi, call)
        unarmed = next((q for q in through if sum(1 for n in q.nodes if n in rearm_nodes) != 1), None)
        ctx.ob("every path that transmits the message arms exactly one next timer (in either order)", unarmed is None, fi, call,
               detail="path [%s] transmits and arms %d timers" % (pf.describe(unarmed), sum(1 for n in unarmed.nodes if n in rearm_nodes)) if unarmed is not None else None)
    twice = next((q for q in paths if sum(1 for n in q.nodes if n in send_nodes) > 1), None)
    ctx.ob("at most one transmission per expiry of the retransmission timer", twice is None, fi, sends[-1] if sends else fi.node,
           detail="path [%s] transmits more than once" % pf.describe(twice) if twice is not None else None, construct="_retransmit: transmissions per path")
    retx = [q for q in paths if want in pf.facts(q)]
    ctx.need(retx, "_retransmit has no path on which counter < MAX_RETRANSMIT is established")
    miss_send = next((q for q in retx if not (send_nodes & set(q.nodes))), None)
    miss_arm = next((q for q in retx if sum(1 for n in q.nodes if n in rearm_nodes) != 1), None)
    ctx.ob("while counter < MAX_RETRANSMIT the message is transmitted again", miss_send is None, fi, fi.node, construct="_retransmit: retransmission path transmits",
           detail="path [%s] does not transmit" % pf.describe(miss_send) if miss_send is not None else None)
    ctx.ob("while counter < MAX_RETRANSMIT exactly one new timer is armed (the exchange neither stalls nor forks)", miss_arm is None, fi, fi.node, construct="_retransmit: retransmission path re-arms once",
           detail="path [%s] arms %d timers" % (pf.describe(miss_arm), sum(1 for n in miss_arm.nodes if n in rearm_nodes)) if miss_arm is not None else None)
    inserts = [a_ for a_ in K.table_accesses(fi, TABLE) if a_.kind == "insert"]
    for call in rearms:
        nodes = pf.nodes_of(call)
        nid = cfg.loc1(call)
        through = [q for q in paths if nodes & set(q.nodes)]
        bad = next((q for q in through if want not in pf.facts(q)), None)
        _need_interpretable(ctx, pf, bad, c)
        ctx.ob("re-arm happens only while counter < MAX_RETRANSMIT (the give-up arm re-arms nothing)", bool(through) and bad is None, fi, call,
               detail="on the path [%s] only %s is established" % (pf.describe(bad), _fmt_facts(pf.facts(bad))) if bad is not None else None)
        f = resolve_local(fi.node, call.func)
        if f.attr != "_schedule_retransmit":
            ctx.ob("re-arm goes through _schedule_retransmit(message, timeout, counter)", False, fi, call)
            continue
        am, at, ac = _schedule_args(ctx, fi, call)
        ctx.ob("re-armed message is the same object", _is_name(fi, am, m), fi, call)
        tv = _arg_value(fi, at, nid)
        cv = _arg_value(fi, ac, nid)
        ctx.ob("next timeout is exactly twice the previous one", tv == Poly.const(2) * Poly.atom(t), fi, call, detail="timeout passed = %r" % tv)
        ctx.ob("retransmission counter advances by exactly one", cv == Poly.atom(c) + Poly.const(1), fi, call, detail="counter passed = %r" % cv)
        # order-free: arming and transmitting belong to one atomic step of the (plain, synchronous) function, so
        # which comes first is immaterial -- but a path that arms a timer without transmitting a copy would double
        # the interval without a retransmission in between
        unsent = next((q for q in through if sum(1 for n in q.nodes if n in send_nodes) != 1), None)
        ctx.ob("every path that arms the next timer transmits the message exactly once (in either order)", unsent is None, fi, call,
               detail="path [%s] arms a timer and transmits %d times" % (pf.describe(unsent), sum(1 for n in unsent.nodes if n in send_nodes)) if unsent is not None else None)
        # the handle is stored back into the exchange table (same spelling-independent model as C03.d)
        stored = False
        for ins in inserts:
            vals = K.possible_values(fi, ins.value) if ins.value is not None else None
            for v in vals or []:
                if isinstance(v, (ast.Tuple, ast.List)) and len(v.elts) == 2 and resolve_local(fi.node, v.elts[1]) is call:
                    stored = True
        ctx.ob("the new timer handle is stored in _active_exchanges", stored, fi, call)


def _arg_value(fi, arg, nid):
    """Polynomial value of a call argument at CFG node nid: single-assignment locals are substituted,
    re-assigned locals/parameters are replaced by the composition of the writes that dominate nid
    (`t *= 2`, `t = 2*t`, `n += 1` ...)."""
    env = norm.local_env(fi.node)
    penv = {}
    todo = list(names_in(arg))
    seen = set()
    while todo:
        nm = todo.pop()
        if nm in seen:
            continue
        seen.add(nm)
        if nm in env:
            todo.extend(names_in(env[nm]))
            continue
        v = value_at(fi, nm, nid)
        if v is None:
            return None
        penv[nm] = v
    try:
        return Normalizer(env=env, penv=penv).poly(arg)
    except norm.NormError:
        return None


@R.clause("C03.c", "no wire-relevant attribute of the message is written in the retransmission functions")
def c(ctx):
    n = 0
    for name in ("_add_exchange", "_schedule_retransmit", "_retransmit", "_send_via_transport"):
        fi = _fn(ctx, name)
        m = _msgparam(fi)
        # the message parameter and every local that is (possibly) bound to it
        alias = {m}
        grew = True
        while grew:
            grew = False
            for node in ast.walk(fi.node):
                if isinstance(node, ast.Assign) and isinstance(node.value, ast.Name) and node.value.id in alias:
                    for t in node.targets:
                        if isinstance(t, ast.Name) and t.id not in alias:
                            alias.add(t.id)
                            grew = True
                elif isinstance(node, ast.NamedExpr) and isinstance(node.value, ast.Name) and node.value.id in alias and node.target.id not in alias:
                    alias.add(node.target.id)
                    grew = True
        bad = []
        for node in ast.walk(fi.node):
            tgts = []
            if isinstance(node, ast.Assign):
                tgts = node.targets
            elif isinstance(node, (ast.AugAssign, ast.AnnAssign)):
                tgts = [node.target]
            elif isinstance(node, ast.Delete):
                tgts = node.targets
            for t in tgts:
                for tt in (t.elts if isinstance(t, (ast.Tuple, ast.List)) else [t]):
                    base = tt
                    while isinstance(base, (ast.Subscript, ast.Starred)):
                        base = base.value
                    ch = chain(base)
                    if ch and ch.split(".")[0] in alias and len(ch.split(".")) > 1 and ch.split(".")[1] in WIRE_ATTRS:
                        bad.append(node)
            if isinstance(node, ast.Call):
                cn = call_name(node) or ""
                parts = cn.split(".")
                if parts[0] in alias and len(parts) >= 2 and parts[-1] in ("set_request_uri", "add_option", "delete_option", "clear", "append"):
                    bad.append(node)
                if cn in ("setattr", "delattr") and len(node.args) >= 2 and chain(node.args[0]) in alias:
                    try:
                        an = norm.consteval(node.args[1])
                    except norm.NormError:
                        an = None
                    if an is None or an in WIRE_ATTRS:
                        bad.append(node)
        n += 1
        ctx.ob("%s does not modify the message's wire-relevant attributes" % name, not bad, fi, bad[0] if bad else fi.node,
               construct=stmt_text(bad[0]) if bad else name)
    ctx.floor("retransmission functions inspected", n, 4)


def _key_is_remote_mid(fi, e, m):
    """Every expression the key may come from is the pair (message.remote, message.mid) of the never rebound
    message parameter (aliases of the message / of its attributes are followed)."""
    vals = K.possible_values(fi, e)
    if not vals or not _is_param_unmodified(fi, m):
        return False
    for v in vals:
        if not (isinstance(v, ast.Tuple) and len(v.elts) == 2):
            return False
        if K.canon_chain(fi, v.elts[0]) != m + ".remote" or K.canon_chain(fi, v.elts[1]) != m + ".mid":
            return False
    return True


def retransmit_removes_exchange(ctx):
    """In _retransmit every path first takes the exchange out of _active_exchanges (the retransmission arm puts
    the fresh handle back, the give-up arm leaves the remote without an exchange)."""
    fi = _fn(ctx, "_retransmit")
    cfg = cfg_of(fi)
    rem = []
    for a_ in K.table_accesses(fi, TABLE, nested=False):
        if a_.kind == "remove":
            rem.extend(cfg.locate(a_.node))
    ctx.ob("when the retransmission timer fires the exchange is taken out of _active_exchanges on every path (a timed-out exchange does not stay 'active')",
           bool(rem) and cfg.must_pass(cfg.entry, rem), fi, fi.node, construct="_retransmit: removal of the fired exchange",
           detail="%d removal site(s)" % len(rem))


def _membership_evidence(fi, cfg, nid, key):
    """Is CFG node nid dominated by a branch outcome that establishes `key in table`?  Spellings: `k in d`
    true, `k not in d` false, `d.get(k)` / `d.get(k, None)` (directly or through a local) truthy or
    `is not None` -- the stored values are pairs, never None/empty."""
    for e, pol in guard_exprs(cfg, nid):
        for _ in range(4):
            if isinstance(e, ast.UnaryOp) and isinstance(e.op, ast.Not):
                e, pol = e.operand, not pol
            else:
                break
        if isinstance(e, ast.Compare) and len(e.ops) == 1:
            op, l, r = e.ops[0], e.left, e.comparators[0]
            if isinstance(op, (ast.In, ast.NotIn)) and chain(resolve_local(fi.node, r)) == TABLE and same(resolve_local(fi.node, l), resolve_local(fi.node, key)):
                if pol == isinstance(op, ast.In):
                    return True
            if isinstance(op, (ast.Is, ast.IsNot)) and isinstance(r, ast.Constant) and r.value is None and _is_lookup(fi, l, key):
                if pol == isinstance(op, ast.IsNot):
                    return True
        elif pol and _is_lookup(fi, e, key):
            return True
    return False


def _is_lookup(fi, e, key):
    e = resolve_local(fi.node, e)
    if isinstance(e, ast.Call) and isinstance(e.func, ast.Attribute) and e.func.attr == "get" and chain(resolve_local(fi.node, e.func.value)) == TABLE and e.args:
        dflt_none = len(e.args) == 1 or (isinstance(e.args[1], ast.Constant) and e.args[1].value is None)
        return dflt_none and same(resolve_local(fi.node, e.args[0]), resolve_local(fi.node, key))
    return False


def _catches_keyerror(cfg, nid):
    for d, lab in cfg.succ[nid]:
        if lab == "exc" and cfg.nodes[d].kind == "handler":
            t = cfg.nodes[d].ast.type
            names = [] if t is None else [ast.unparse(x) for x in (t.elts if isinstance(t, ast.Tuple) else [t])]
            if t is None or set(names) & {"KeyError", "LookupError", "Exception", "BaseException"}:
                return True
    return False


@R.clause("C03.d", "exchange key is (remote, mid) at insertion, retransmission and removal; ACK/RST cancel the stored timer; only RST fires the monitor")
def d(ctx):
    total = 0
    for name in ("_add_exchange", "_retransmit", "_remove_exchange"):
        fi = _fn(ctx, name)
        m = _msgparam(fi)
        uses = [a_ for a_ in K.table_accesses(fi, TABLE) if a_.key is not None]
        ctx.floor("uses of _active_exchanges in %s" % name, len(uses), 1)
        for a_ in uses:
            total += 1
            ctx.ob("%s addresses _active_exchanges by (message.remote, message.mid)" % name, _key_is_remote_mid(fi, a_.key, m), fi, a_.node,
                   detail="key = %s" % stmt_text(resolve_local(fi.node, a_.key)))
    ctx.floor("key uses over the three functions", total, 4)

    retransmit_removes_exchange(ctx)
    # _add_exchange stores (monitor parameter, handle from _schedule_retransmit)
    fi = _fn(ctx, "_add_exchange")
    p = params(fi)
    ins = [a_ for a_ in K.table_accesses(fi, TABLE) if a_.kind == "insert"]
    ctx.floor("insertions into _active_exchanges in _add_exchange", len(ins), 1)
    for a_ in ins:
        vals = K.possible_values(fi, a_.value) if a_.value is not None else None
        ok = bool(vals)
        ctx.need(not any(isinstance(v, ast.Call) for v in vals or []), "_add_exchange: the stored exchange is built by %s -- a representation other than the pair (monitor, handle) is outside the rule's vocabulary" % stmt_text((vals or [None])[0]))
        for v in vals or []:
            if not (isinstance(v, (ast.Tuple, ast.List)) and len(v.elts) == 2 and _is_name(fi, v.elts[0], p[1])):
                ok = False
                continue
            h = resolve_local(fi.node, v.elts[1])
            if not (isinstance(h, ast.Call) and any(h is c_ for c_ in K.self_calls(fi, "_schedule_retransmit"))):
                ok = False
        if a_.how == "setdefault":
            ok = False  # would keep the timer of an older exchange under the same key
        ctx.ob("the stored exchange is (error monitor, handle of the scheduled retransmission)", ok, fi, a_.node)

    # _remove_exchange, on its path model with the message type as finite-domain subject
    fi = _fn(ctx, "_remove_exchange")
    m = _msgparam(fi)
    subj = "%s.mtype" % m
    pf = K.PathFacts(fi, subjects={subj: MTYPES})
    cfg = pf.cfg
    paths = pf.paths()
    acc = K.table_accesses(fi, TABLE, nested=False)
    removes = [a_ for a_ in acc if a_.kind == "remove"]
    if not ctx.ob("a matching ACK/RST takes the exchange out of _active_exchanges", bool(removes), fi, fi.node, construct="_remove_exchange: removal of the matched exchange"):
        return
    # the expressions that evaluate to the stored pair: the popped value, or a read under the same key
    sources = [a_.node for a_ in removes if a_.how == "pop"] + [a_.node for a_ in acc if a_.kind == "read"]
    pair = K.Pair(fi, sources)
    cancel_calls = [c_ for c_ in calls_in(fi.node) if isinstance(c_.func, ast.Attribute) and c_.func.attr == "cancel" and not c_.args and pair.is_comp(c_.func.value, 1)]
    monitor_calls = [c_ for c_ in calls_in(fi.node) if pair.is_comp(c_.func, 0)]
    traced = bool(pair.holders or pair.comp[0] or pair.comp[1])
    ctx.need(traced or not sources, "_remove_exchange: how the removed exchange (monitor, handle) is taken apart is outside the rule's vocabulary")
    cancel_nodes, monitor_nodes = set(), set()
    for c_ in cancel_calls:
        cancel_nodes |= pf.nodes_of(c_)
    for c_ in monitor_calls:
        monitor_nodes |= pf.nodes_of(c_)
    def effective(q, a_=None):
        """Does path q really take an exchange out?  It passes a removal, and -- for pop(key, default) -- its
        branch outcomes do not establish that the popped value is the default (nothing was stored)."""
        hit = [x for x in removes if (a_ is None or x is a_) and pf.nodes_of(x.node) & set(q.nodes)]
        if not hit:
            return False
        if all(x.how == "pop" and x.default is not None for x in hit):
            for n in q.nodes:
                nd = cfg.nodes[n]
                if nd.kind in ("T", "F") and isinstance(nd.ast, ast.expr) and _null_outcome(pair, nd.ast, nd.kind == "T"):
                    return False
        return True

    # "An ACK/RST that matches no exchange changes nothing" -- accepted forms, each of which implies that the
    # removal cannot fail on an unknown key and that the (monitor, handle) of *another* exchange is never touched:
    #  (a) the removal is dominated by a branch outcome establishing `key in table` (`in` / `not in`, or a
    #      `table.get(key)` that is truthy / `is not None`: stored values are non-empty pairs) -- never reached otherwise;
    #  (b) `table.pop(key)` inside a try whose handler catches KeyError -- pop raises before any effect; the
    #      components are unbound in the handler, so it cannot cancel or fire anything;
    #  (c) `table.pop(key, default)` where every unpacking / use of the popped value is dominated by a branch
    #      outcome establishing that it is not None (a path on which it *is* None counts as "no removal" below).
    for a_ in removes:
        nid = cfg.loc1(a_.node)
        tolerant = _membership_evidence(fi, cfg, nid, a_.key) or _catches_keyerror(cfg, nid)
        if not tolerant and a_.how == "pop" and a_.default is not None:
            # pop(key, None): the components are used only where the popped value is known to be an exchange
            users = [s for s in pair.bind_stmts] + cancel_calls + monitor_calls
            tolerant = bool(users) and all(_nonnull_evidence(fi, cfg, cfg.loc1(u), pair) or (isinstance(u, ast.Assign) and isinstance(u.targets[0], ast.Name)) for u in users)
        ctx.ob("an ACK/RST that matches no exchange changes nothing (removal is guarded by key membership)", tolerant, fi, a_.node)
        through = [q for q in paths if effective(q, a_)]
        ctx.need(through, "_remove_exchange: removal on no normal path")
        # after the removal the stored timer is cancelled on every normal path
        uncancelled = next((q for q in through if not (cancel_nodes & set(q.nodes))), None)
        ctx.ob("the stored retransmission timer is cancelled on every normal path after the removal", bool(cancel_nodes) and uncancelled is None, fi, a_.node,
               detail="%d cancel site(s)%s" % (len(cancel_calls), "; none on the path [%s]" % pf.describe(uncancelled) if uncancelled is not None else ""))
        # the monitor fires exactly for a Reset: on every path through the removal, "monitor called" <=> mtype is RST
        ctx.ob("a Reset fires the error monitor of the exchange", bool(monitor_calls), fi, a_.node, detail=None if monitor_calls else "no call of the popped monitor")
        bad_only = bad_when = None
        for q in through:
            fired = any(n in monitor_nodes for n in q.nodes)
            mt = q.values.get(subj)
            if fired and mt != "RST" and bad_only is None:
                bad_only = "fires for mtype %s on the path [%s]" % (mt or "of any value", pf.describe(q))
            if not fired and mt in (None, "RST") and bad_when is None:
                bad_when = "no monitor call on the path [%s]" % pf.describe(q)
        if monitor_calls:
            ctx.ob("the error monitor is fired only for a Reset", bad_only is None, fi, monitor_calls[0], detail=bad_only)
            ctx.ob("no further condition suppresses the monitor on a matching Reset", bad_when is None, fi, monitor_calls[0], detail=bad_when)
    # without a removal (unknown key) neither timer nor monitor is touched
    stray = next((q for q in paths if not effective(q) and ((cancel_nodes | monitor_nodes) & set(q.nodes))), None)
    ctx.ob("timer and monitor are touched only for the exchange that was removed", stray is None, fi, fi.node, construct="_remove_exchange: effects without removal",
           detail="path [%s]" % pf.describe(stray) if stray is not None else None)


def _null_outcome(pair, e, outcome):
    """Does the branch outcome `e is outcome` establish that the pair-valued expression is None / empty?"""
    if isinstance(e, ast.Compare) and len(e.ops) == 1 and isinstance(e.ops[0], (ast.Is, ast.IsNot, ast.Eq, ast.NotEq)) and isinstance(e.comparators[0], ast.Constant) and e.comparators[0].value is None:
        return pair.is_pair(e.left) and outcome == isinstance(e.ops[0], (ast.Is, ast.Eq))
    return pair.is_pair(e) and not outcome


def _nonnull_evidence(fi, cfg, nid, pair):
    for e, pol in guard_exprs(cfg, nid):
        for _ in range(4):
            if isinstance(e, ast.UnaryOp) and isinstance(e.op, ast.Not):
                e, pol = e.operand, not pol
            else:
                break
        if isinstance(e, ast.Compare) and len(e.ops) == 1 and isinstance(e.ops[0], (ast.Is, ast.IsNot)) and isinstance(e.comparators[0], ast.Constant) and e.comparators[0].value is None:
            if pair.is_pair(e.left) and pol == isinstance(e.ops[0], ast.IsNot):
                return True
        elif pol and pair.is_pair(e):
            return True
    return False


@R.clause("C03.e", "dispatch_message removes the exchange exactly for incoming ACK and RST")
def e(ctx):
    fi = _fn(ctx, "dispatch_message")
    m = _msgparam(fi)
    subj = "%s.mtype" % m
    rm = ctx.prog.func(MM + "_remove_exchange")
    calls = K.self_calls(fi, "_remove_exchange")
    ctx.floor("_remove_exchange call sites in dispatch_message", len(calls), 1)
    for call in calls:
        ba = K.method_args(rm, call)
        ctx.ob("exchange removal is passed the incoming message", ba is not None and _is_name(fi, ba[params(rm)[0]], m), fi, call)
    # Path model with the message type as finite-domain subject: every complete normal path carries the type it
    # is taken for (if it tests the type at all) and the decisions on all other atomic conditions.
    pf = K.PathFacts(fi, subjects={subj: MTYPES})
    pm, cfg = pf.pm, pf.cfg
    paths = pf.paths()
    rnodes = set()
    for call in calls:
        rnodes |= pf.nodes_of(call)
    removed_for = set()
    untyped = None
    for q in paths:
        if rnodes & set(q.nodes):
            if subj in q.values:
                removed_for.add(q.values[subj])
            else:
                untyped = q
    ctx.ob("exchange removal happens exactly for ACK and RST", removed_for == {"ACK", "RST"} and untyped is None, fi, calls[0],
           detail="removal for mtype in %s%s" % (sorted(removed_for), "; and regardless of the type on the path [%s]" % pf.describe(untyped) if untyped is not None else ""))
    # whether an ACK/RST is removed may depend on the duplicate filter (requests only, C04) and on nothing else:
    # two paths of the same type that agree on the filter's atoms (is_request of the code, result of
    # _deduplicate_message) agree on the removal
    filt = set()
    for n in cfg.nodes:
        if n.kind == "test" and any(isinstance(c_, ast.Call) and isinstance(c_.func, ast.Attribute) and c_.func.attr in ("_deduplicate_message", "is_request") for c_ in ast.walk(n.ast)):
            filt.add(pm.key_of(n)[0])
    groups = {}
    for q in paths:
        if q.values.get(subj) in ("ACK", "RST"):
            k = (q.values[subj], tuple(sorted((a_, v) for a_, v in q.decisions.items() if a_ in filt)))
            groups.setdefault(k, []).append(q)
    extra = None
    for k, qs in sorted(groups.items()):
        with_, without = [q for q in qs if rnodes & set(q.nodes)], [q for q in qs if not (rnodes & set(q.nodes))]
        if with_ and without and extra is None:
            diff = sorted(a_ for a_ in set(with_[0].decisions) | set(without[0].decisions) if with_[0].decisions.get(a_) != without[0].decisions.get(a_))
            extra = "for %s the removal also depends on: %s" % (k[0], "; ".join(diff))
    ctx.ob("exchange removal is not restricted by conditions other than the message type", extra is None, fi, calls[0], detail=extra)
    # no earlier filter swallows the ACK/RST: evaluate dispatch_message for every (type, boundary code) with the
    # duplicate filter reporting a hit wherever it is consulted -- an ACK or RST must still reach _remove_exchange
    # unless it carries a request code (those are de-duplicated by design, C04)
    from . import c10
    from ..absdom import Interp, Sym, code_predicates, rfc_class
    preds = code_predicates(ctx.prog)
    swallowed = []
    for mtype in ("ACK", "RST"):
        for code in c10.CODES:
            if rfc_class(code) == "request":
                continue
            env = {m + ".mtype": Sym(mtype), m + ".code": code, m + ".remote.is_multicast_locally": False, m + ".remote.is_multicast": False}
            it = Interp(fi, env, [("self._deduplicate_message($x)", True), ("self._process_response($x)", False)], preds, c10.CONSTS, c10.dispatch_effect(fi, m))
            it.run()
            if "remove_exchange" not in it.trace:
                swallowed.append((mtype, code, list(it.trace)))
    ctx.ob("every incoming ACK/RST that is not a request reaches the exchange removal (no earlier filter drops it)", not swallowed, fi, calls[0],
           construct="dispatch_message: ACK/RST path to _remove_exchange", detail="e.g. %s" % (swallowed[:2],) if swallowed else None)


@R.clause("C03.f", "the give-up arm fails the remote's requests with a timeout-class NetworkError")
def f(ctx):
    fi, p, pf, want, notwant = _retransmit_model(ctx)
    m, t, c = p
    paths = pf.paths()
    tm = ctx.prog.func("tokenmanager.TokenManager.dispatch_error")
    tp = params(tm)
    calls = K.calls_on(fi, "self.token_manager", ("dispatch_error",))
    dnodes = set()
    for call in calls:
        dnodes |= pf.nodes_of(call)
    # every path on which the branch outcomes establish NOT (counter < MAX_RETRANSMIT) reports the failure
    giveup = [q for q in paths if notwant in pf.facts(q)]
    ctx.need(giveup, "_retransmit has no path on which counter >= MAX_RETRANSMIT is established")
    silent = next((q for q in giveup if not (dnodes & set(q.nodes))), None)
    ctx.ob("when retransmissions are exhausted every normal path reports the failure", silent is None, fi, fi.node, construct="_retransmit: give-up path reports the failure",
           detail="path [%s] ends without token_manager.dispatch_error" % pf.describe(silent) if silent is not None else None)
    for call in calls:
        ba = K.method_args(tm, call)
        ctx.need(ba is not None, "dispatch_error call with a shape outside the rule's vocabulary")
        ctx.ob("the error is dispatched for the message's remote", K.canon_chain(fi, ba[tp[1]]) == m + ".remote" and _is_param_unmodified(fi, m), fi, call)
        vals = K.possible_values(fi, ba[tp[0]]) or []
        ok = bool(vals)
        clss = []
        for v in vals:
            cls = None
            if isinstance(v, ast.Call) and chain(resolve_local(fi.node, v.func)):
                cls = ctx.prog.resolve_in_module(fi.module, chain(resolve_local(fi.node, v.func)))
            clss.append(cls)
            if not (cls is not None and cls in ctx.prog.classes and ctx.prog.is_subclass(cls, "aiocoap.error.TimeoutError") and ctx.prog.is_subclass(cls, "aiocoap.error.NetworkError") and ctx.prog.is_subclass(cls, "aiocoap.error.Error")):
                ok = False
        ctx.ob("the dispatched error is a timeout-class NetworkError derived from error.Error", ok, fi, call,
               detail="class %s, mro %s" % (clss, [ctx.prog.mro(x) if x else None for x in clss]))
    # the error reaches every outstanding request of that remote (shared with C02.e: per-remote fan-out,
    # each stopper bound to its own request, NetworkError conversion)
    from . import c02
    c02.e(ctx)
    # hierarchy facts
    for cls, base in (("error.ConRetransmitsExceeded", "aiocoap.error.TimeoutError"), ("error.TimeoutError", "aiocoap.error.NetworkError"), ("error.NetworkError", "aiocoap.error.Error")):
        ci = ctx.prog.cls(cls)
        ctx.ob("%s derives from %s" % (cls, base), ctx.prog.is_subclass(ci.qn, base), None, None, construct="class %s" % cls)


REF = {
    "MAX_TRANSMIT_SPAN": "T * (2**N - 1) * F",
    "MAX_TRANSMIT_WAIT": "T * (2**(N+1) - 1) * F",
    "PROCESSING_DELAY": "T",
    "MAX_RTT": "2*L + T",
    "EXCHANGE_LIFETIME": "T * (2**N - 1) * F + 2*L + T",
}
DEFAULTS = {"ACK_TIMEOUT": 2, "ACK_RANDOM_FACTOR": Fraction(3, 2), "MAX_RETRANSMIT": 4, "MAX_LATENCY": 100, "NSTART": 1}
_PROPERTY_DECORATORS = {"property", "functools.cached_property", "cached_property"}


def tuning_chain_env(prog):
    """self.X -> value expression of property X of TransportTuning: the returned expression with the
    property's own single-assignment locals and straight-line helper calls substituted (closed over self.*)."""
    ci = prog.cls("numbers.constants.TransportTuning")
    env = {}
    for name, fi in ci.methods.items():
        decos = {ast.unparse(d) for d in fi.node.decorator_list}
        if decos & _PROPERTY_DECORATORS:
            rets = [n for n in walk_no_nested(fi.node) if isinstance(n, ast.Return)]
            if len(rets) == 1 and rets[0].value is not None:
                env["self." + name] = K.closed(prog, fi, rets[0].value)
    for name, v in ci.attrs.items():
        # NAME = property(<getter>[, doc=...]) / property(fget=<getter>): the getter a lambda or a single-return
        # function of the class; its body is closed like a decorated property's (helpers, locals)
        if "self." + name in env or not (isinstance(v, ast.Call) and chain(v.func) in _PROPERTY_DECORATORS):
            continue
        getter = v.args[0] if v.args else next((k.value for k in v.keywords if k.arg in ("fget", "func")), None)
        if isinstance(getter, ast.Name) and getter.id in ci.methods:
            gfi = ci.methods[getter.id]
            rets = [n for n in walk_no_nested(gfi.node) if isinstance(n, ast.Return)]
            if len(rets) == 1 and rets[0].value is not None and len(params(gfi, skip_self=False)) == 1:
                first = params(gfi, skip_self=False)[0]
                body = K.closed(prog, gfi, rets[0].value)
                env["self." + name] = K.subst(body, {first: ast.Name(id="self", ctx=ast.Load())}) if first != "self" else body
            continue
        if not isinstance(getter, ast.Lambda):
            continue
        lam = getter
        ps = [x.arg for x in lam.args.posonlyargs + lam.args.args]
        if len(ps) != 1 or lam.args.vararg or lam.args.kwarg or lam.args.kwonlyargs:
            continue
        body = K.subst(lam.body, {ps[0]: ast.Name(id="self", ctx=ast.Load())}) if ps[0] != "self" else lam.body
        env["self." + name] = K.closed(prog, K.synthetic_method(ci, name, body), body)
    return ci, env


# Evaluation route of C03.g.  Where the body of a derived constant is outside the vocabulary of the polynomial normal
# form (a loop, sum()/pow()/ldexp(), a table of names read by getattr, a getter made by functools.partial ...), the
# class is *evaluated* (rules/_kit_c04.ClassEval through _kit_c03.PointEval: exact rational arithmetic, Python's lookup
# rules) on instances of synthetic subclasses that set the base parameters to chosen values, and the number is compared
# with the number the RFC formula gives.
#
# Why agreement on the grid below is taken for identity: the RFC formulas are polynomials of degree 1 in each of
# ACK_TIMEOUT, ACK_RANDOM_FACTOR, MAX_LATENCY and exponential polynomials in MAX_RETRANSMIT (a + b*2^N).  A candidate
# that is, for every fixed N, a polynomial of degree <= 2 in each of T, F, L and agrees with the reference on the
# 3 x 3 x 3 tensor grid of (T, F, L) values is that polynomial (tensor-product interpolation is unique).  As a function
# of N, a candidate of the form sum_j c_j * N^(k_j) * b_j^N (b_j > 0) with at most 7 terms in the difference to the
# reference (1, N, N^2, 2^N, N*2^N, 3^N, 4^N ...) that vanishes at the 7 points N = 0..6 vanishes identically (such
# families are Chebyshev systems: a non-zero member has fewer real zeros than terms).  Every arithmetic spelling of
# a "sum of doubling timeouts" -- closed form, sum(), loop, ldexp, shift -- is in that family, and so are the realistic
# mistakes (exponent off by one, factor missing / squared, another base, a constant).  Code that branches on the
# parameter values can of course agree on any finite grid and differ elsewhere; the grid contains the defaults, both
# ends of the practical range of MAX_RETRANSMIT and the degenerate N = 0, and that is where this clause stops.
# The values are dyadic rationals (exactly representable floats), pairwise different across parameters.
# A violation is reported only with a concrete point at which the two numbers differ.
GRID = [
    ("ACK_TIMEOUT", [Fraction(2), Fraction(7, 2), Fraction(5)]),
    ("ACK_RANDOM_FACTOR", [Fraction(3, 2), Fraction(5, 4), Fraction(3)]),
    ("MAX_RETRANSMIT", [Fraction(n) for n in (4, 0, 1, 2, 3, 5, 6)]),
    ("MAX_LATENCY", [Fraction(100), Fraction(13), Fraction(33, 2)]),
]
LETTERS = {"T": "ACK_TIMEOUT", "F": "ACK_RANDOM_FACTOR", "N": "MAX_RETRANSMIT", "L": "MAX_LATENCY"}
TUNING_CLS = "numbers.constants.TransportTuning"


def _evaluated_difference(ctx, ci, name, ref, state):
    """(point, got, want) of the first grid point at which TransportTuning.<name> differs from the reference formula,
    None when it agrees on the whole grid; K.EvalRefused when the evaluator cannot compute it."""
    if "pe" not in state:
        state["pe"] = K.PointEval(ctx.prog, ci.qn)
        state["points"] = K.parameter_grid(GRID)
    return K.first_difference(state["pe"], name, ref, LETTERS, state["points"])


@R.clause("C03.g", "derived TransportTuning spans equal the RFC 7252 section 4.8.2 formulas; defaults 2 / 1.5 / 4 / 100")
def g(ctx):
    ci, env = tuning_chain_env(ctx.prog)
    rename = {"self.ACK_TIMEOUT": "T", "self.ACK_RANDOM_FACTOR": "F", "self.MAX_RETRANSMIT": "N", "self.MAX_LATENCY": "L"}
    state = {}
    refused = []
    for name, ref in REF.items():
        fi = ci.methods.get(name)
        node = fi.node if fi is not None else None
        desc = "TransportTuning.%s == %s" % (name, ref)
        construct = "TransportTuning.%s" % name
        # (1) polynomial normal form of a single-expression property (helpers and locals substituted)
        got = None
        if "self." + name in env:
            try:
                got = Normalizer(rename=rename, chain_env=env).poly(env["self." + name])
            except norm.NormError:
                got = None
        want = Normalizer().poly(ast.parse(ref, mode="eval").body)
        same_nf = got is not None and got == want
        # (2) evaluation on the parameter grid: decides what (1) cannot express, and supplies the concrete point for
        # everything that is reported
        try:
            diff = _evaluated_difference(ctx, ci, name, ref, state)
            why = None
        except K.EvalRefused as ex:
            diff, why = None, str(ex)
        if same_nf:
            if diff is not None:
                # cannot happen unless one of the two routes is wrong about Python: say so rather than pick one
                refused.append("TransportTuning.%s: the normal form equals the reference, but at %s it evaluates to %s (reference %s)" % (
                    name, K.show_point(diff[0]), K.show_number(diff[1]), K.show_number(diff[2])))
                continue
            ctx.ob(desc, True, fi, node, detail="normal form %r" % got, construct=construct)
        elif why is not None:
            refused.append("TransportTuning.%s is outside the vocabulary of the normal form%s and cannot be evaluated: %s" % (
                name, "" if got is None else " (or differs: %r)" % got, why))
        elif diff is None:
            ctx.ob(desc, True, fi, node, detail="equal to the reference at all %d parameter points (evaluated)" % len(state["points"]), construct=construct)
        else:
            p, v, w = diff
            ctx.ob(desc, False, fi, node, construct=construct,
                   detail="at %s it is %s, the RFC formula gives %s%s" % (K.show_point(p), K.show_number(v), K.show_number(w), "" if got is None else "; normal form %r" % got))
    for name, val in DEFAULTS.items():
        ctx.need(name in ci.attrs, "TransportTuning.%s default missing" % name)
        try:
            v = norm.consteval(ci.attrs[name])
        except norm.NormError:
            # not a literal (a module constant, float(2), 3 / 2 ...): the value the class attribute evaluates to
            try:
                if "pe" not in state:
                    state["pe"] = K.PointEval(ctx.prog, ci.qn)
                v = state["pe"].value(name, {})
            except K.EvalRefused as ex:
                refused.append("default TransportTuning.%s = %s cannot be evaluated: %s" % (name, ast.unparse(ci.attrs[name]), ex))
                continue
        try:
            ok = isinstance(v, (int, float, Fraction)) and Fraction(v) == Fraction(val)
        except (ValueError, OverflowError):
            ok = False  # nan / inf
        ctx.ob("default %s == %s" % (name, val), ok, None, None, construct="TransportTuning.%s = %s" % (name, ast.unparse(ci.attrs[name])), detail="value %s" % (K.show_number(v) if isinstance(v, Fraction) else repr(v)))
    if "pe" in state:
        ctx.note("evaluation route (parameter grid) read %s" % ", ".join(sorted(state["pe"].deps)))
    if refused:
        raise AnalysisError("; ".join(refused))


def _tuning_base_ok(prog, fi, base, mod_funcs, depth=3):
    """Does the object a tuning parameter is read from denote `<something>.transport_tuning`?
    Accepted: the attribute itself; a local all of whose bindings are such objects; a parameter of a helper
    for which *every* call site in the module passes such an object (the read then still goes through the
    transport tuning of whatever message the caller holds)."""
    if isinstance(base, ast.Attribute):
        return base.attr == "transport_tuning"
    if not isinstance(base, ast.Name) or depth == 0:
        return False
    fnode = fi.node
    ws = writes_to_name(fnode, base.id)
    if ws:
        vals = K.possible_values(fi, base)
        return bool(vals) and all(v is not base and _tuning_base_ok(prog, fi, v, mod_funcs, depth - 1) for v in vals)
    a = fnode.args
    pnames = [x.arg for x in a.posonlyargs + a.args + a.kwonlyargs]
    if base.id not in pnames:
        return False
    sites = 0
    for caller in mod_funcs:
        for call in calls_in(caller.node):
            target = K.resolve_callee(prog, caller, call)
            if target is None or target.node is not fnode:
                continue
            b = K.method_args(fi, call)
            if b is None or base.id not in b:
                return False
            sites += 1
            if not _tuning_base_ok(prog, caller, b[base.id], mod_funcs, depth - 1):
                return False
    return sites > 0


@R.clause("C03.h", "every tuning parameter read in messagemanager.py goes through <message>.transport_tuning")
def h(ctx):
    mod = ctx.prog.module("messagemanager")
    mod_funcs = [fi for fi in ctx.prog.funcs.values() if fi.module is mod]
    reads = 0
    for fi in mod_funcs:
        for n in walk_no_nested(fi.node):
            bad = None
            if isinstance(n, ast.Attribute) and n.attr in TUNING:
                reads += 1
                if not _tuning_base_ok(ctx.prog, fi, n.value, mod_funcs):
                    bad = n
            elif isinstance(n, ast.Name) and n.id in TUNING:
                reads += 1
                bad = n
            elif isinstance(n, ast.Call) and chain(n.func) == "getattr" and len(n.args) >= 2 and isinstance(n.args[1], ast.Constant) and n.args[1].value in TUNING:
                reads += 1
                if not _tuning_base_ok(ctx.prog, fi, n.args[0], mod_funcs):
                    bad = n
            if bad is not None:
                ctx.ob("tuning parameter read through the message's transport_tuning", False, fi, bad)
    ctx.floor("tuning parameter reads in messagemanager.py", reads, 6)
    ctx.ob("all %d tuning parameter reads go through <message>.transport_tuning" % reads, True, None, None, construct="messagemanager.py")


ATTR = "transport_tuning"


def _none_test(fi, test, name):
    """True / False when the outcome True of `test` establishes that the local `name` is None (falsy) / is not
    None (truthy); None when the test says nothing of that kind."""
    pol = True
    e = test
    for _ in range(6):
        if isinstance(e, ast.UnaryOp) and isinstance(e.op, ast.Not):
            e, pol = e.operand, not pol
        elif isinstance(e, ast.Name) and e.id != name:
            v = resolve_local(fi.node, e)
            if v is e:
                break
            e = v
        else:
            break
    if isinstance(e, ast.Name) and e.id == name:
        return not pol
    if isinstance(e, ast.Compare) and len(e.ops) == 1 and isinstance(e.left, ast.Name) and e.left.id == name and isinstance(e.comparators[0], ast.Constant) and e.comparators[0].value is None:
        if isinstance(e.ops[0], (ast.Is, ast.Eq)):
            return pol
        if isinstance(e.ops[0], (ast.IsNot, ast.NotEq)):
            return not pol
    return None


def _known_none_at(fi, stmt, name):
    """Is the statement dominated by a branch outcome establishing that `name` is None / falsy?"""
    cfg = cfg_of(fi)
    ids = cfg.locate(stmt)
    return bool(ids) and all(any(_none_test(fi, g[0], name) == g[1] for g in cfg.guards(nid)) for nid in ids)


def _plain_value(w):
    if isinstance(w, ast.Assign) and len(w.targets) == 1 and isinstance(w.targets[0], ast.Name):
        return w.value
    if isinstance(w, ast.AnnAssign) and w.value is not None:
        return w.value
    if isinstance(w, ast.NamedExpr):
        return w.value
    return None


def _local_defs(fi, name, at):
    """[(write statement or None for the entry value, value expression or None, may_be_none_ok)] for the definitions
    of `name` reaching statement `at`.  may_be_none_ok: a None left by this definition never arrives at `at`,
    because another reaching definition re-binds the name exactly where it is known to be None / falsy."""
    defs = K.reaching_defs(fi, name, at)
    out = []
    for w in defs:
        v = None
        if w is not None:
            v = _plain_value(w)
            if v is None:
                raise AnalysisError("%s: `%s` is bound by `%s`, outside the rule's vocabulary" % (fi.short, name, stmt_text(w, 60)))
        healed = any(w2 is not None and w2 is not w and _known_none_at(fi, w2, name) for w2 in defs)
        out.append((w, v, healed))
    return out


def _not_carried(ctx, fi, e, me, kw, at, allow_none=False, depth=10):
    """None when the value of expression e (evaluated at statement `at`) is -- whichever way it is computed -- the
    caller's override for the tuning or the tuning object of the original message `me` (the very object, or a
    copy.copy / copy.deepcopy of it, which keeps the instance's parameters); else (offending expression, reason).
    allow_none: a None here is harmless because a fallback follows (`x or <fallback>`, a re-binding under
    `if x is None`)."""
    def rec(x, at_=at, none=allow_none):
        return _not_carried(ctx, fi, x, me, kw, at_, none, depth - 1)

    if depth == 0:
        raise AnalysisError("%s: the tuning of the copy is computed through too many steps" % fi.short)
    if isinstance(e, ast.Constant) and e.value is None:
        return None if allow_none else (e, "None: the constructor then falls back to a default tuning")
    if isinstance(e, ast.NamedExpr):
        return rec(e.value)
    if isinstance(e, ast.IfExp):
        for arm, when in ((e.body, True), (e.orelse, False)):
            none = allow_none
            if isinstance(arm, ast.Name) and _none_test(fi, e.test, arm.id) == (not when):
                none = True  # this arm is taken only when the name is not None
            r = rec(arm, none=none)
            if r is not None:
                return r
        return None
    if isinstance(e, ast.BoolOp) and isinstance(e.op, ast.Or):
        for x in e.values[:-1]:
            r = rec(x, none=True)
            if r is not None:
                return r
        return rec(e.values[-1])
    if isinstance(e, ast.Name):
        a = fi.node.args
        pnames = {x.arg for x in a.posonlyargs + a.args + a.kwonlyargs} - {me}
        for w, v, healed in _local_defs(fi, e.id, at):
            if w is None:
                if e.id in pnames:
                    # an explicit override parameter of the copy function
                    if not (allow_none or healed):
                        return (e, "the parameter %s is used although it may be unset" % e.id)
                    continue
                return (e, "%s is not derived from the original's tuning" % e.id)
            r = rec(v, at_=w, none=allow_none or healed)
            if r is not None:
                return r
        return None
    rd = K.mapping_read(fi, e, kw)
    if rd is not None:
        kv, dflt, has = rd
        if kv != ATTR:
            return (e, "reads the keyword argument %r" % (kv,))
        return rec(dflt) if has else None
    if K.canon_chain(fi, e) == "%s.%s" % (me, ATTR):
        return None if _is_param_unmodified(fi, me) else (e, "%s is re-bound" % me)
    if isinstance(e, ast.Call):
        fn = K.resolved_func_name(ctx.prog, fi, e.func)
        if fn == "getattr" and len(e.args) in (2, 3) and _is_name(fi, e.args[0], me):
            try:
                k = norm.consteval(e.args[1])
            except norm.NormError:
                k = None
            if k == ATTR:
                return rec(e.args[2]) if len(e.args) == 3 else None
        if fn in ("copy.copy", "copy.deepcopy") and len(e.args) >= 1:
            return rec(e.args[0], none=False)
    return (e, "a value that is neither the caller's override nor the original's tuning object")


def _stores_given(fi, e, P, at, depth=8):
    """Does the expression e (at statement `at`) evaluate to the constructor argument P whenever P is given
    (not None / truthy)?"""
    if depth == 0:
        return False
    if isinstance(e, ast.NamedExpr):
        return _stores_given(fi, e.value, P, at, depth - 1)
    if isinstance(e, ast.BoolOp) and isinstance(e.op, ast.Or):
        # `P or fallback`: the fallback is used only for a falsy P
        return _stores_given(fi, e.values[0], P, at, depth - 1)
    if isinstance(e, ast.IfExp):
        t = _none_test(fi, e.test, P)
        if t is True:  # body taken when P is None: only the other arm matters
            return _stores_given(fi, e.orelse, P, at, depth - 1)
        if t is False:
            return _stores_given(fi, e.body, P, at, depth - 1)
        return _stores_given(fi, e.body, P, at, depth - 1) and _stores_given(fi, e.orelse, P, at, depth - 1)
    if isinstance(e, ast.Name):
        defs = K.reaching_defs(fi, e.id, at)
        for w in defs:
            if w is None:
                if e.id != P:
                    return False
                continue
            if _known_none_at(fi, w, P):
                continue  # re-bound only where P is not given
            v = _plain_value(w)
            if v is None or not _stores_given(fi, v, P, w, depth - 1):
                return False
        return bool(defs)
    return False


@R.clause("C03.i", "derived messages keep the tuning attached to the original: Message.copy() hands on the override or the original's own tuning object, Message.__init__ stores the tuning it is given, nothing else replaces a message's tuning")
def i(ctx):
    # The retransmission machinery reads every parameter from <message>.transport_tuning (C03.a/b/h).  The requests
    # the block-wise layer sends (Block1 fragments, Block2 follow-ups, the re-addressed copy) are made by
    # Message.copy(), so "follows the tuning attached to the message" needs: (1) the copy's tuning is the caller's
    # explicit override or the very tuning object of the original -- a freshly constructed tuning (even of the same
    # class) drops the parameters set on the instance; (2) the constructor stores the tuning it is given in the
    # attribute the message manager reads; (3) no other code replaces a message's tuning by something that is not
    # another message's tuning.
    prog = ctx.prog
    fi = K.view(prog.func("message.Message.copy"))
    ps = params(fi, skip_self=False)
    ctx.need(bool(ps), "Message.copy has no receiver parameter")
    me = ps[0]
    kw = K.kwargs_param(fi.node)
    cfg = cfg_of(fi)
    own = K.own_class(fi)
    ctx.need(own is not None, "Message.copy is not a method")

    def ctor_kind(call):
        f = resolve_local(fi.node, call.func)
        if isinstance(f, ast.Call) and chain(f.func) == "type" and len(f.args) == 1 and _is_name(fi, f.args[0], me):
            return "new"
        ch = chain(f)
        if ch == me + ".__class__":
            return "new"
        if ch:
            q = prog.resolve_in_module(fi.module, ch)
            if q in prog.classes and (prog.is_subclass(own.qn, q) or prog.is_subclass(q, own.qn)):
                return "new"
            if q in ("copy.copy", "copy.deepcopy") and len(call.args) == 1 and _is_name(fi, call.args[0], me):
                return "clone"  # keeps every attribute, the tuning included
        return None

    # the objects the function returns
    made = []  # (constructor call, kind)

    def objects(e, at, depth=8):
        ctx.need(depth > 0, "Message.copy: the returned object is computed through too many steps")
        if isinstance(e, ast.IfExp):
            objects(e.body, at, depth - 1)
            objects(e.orelse, at, depth - 1)
        elif isinstance(e, ast.Name):
            for w, v, _h in _local_defs(fi, e.id, at):
                ctx.need(w is not None, "Message.copy returns %s, which it did not build" % e.id)
                objects(v, w, depth - 1)
        else:
            kind = ctor_kind(e) if isinstance(e, ast.Call) else None
            ctx.need(kind is not None, "Message.copy returns `%s`: how the copy is built is outside the rule's vocabulary" % stmt_text(e, 80))
            if not any(c is e for c, _ in made):
                made.append((e, kind))

    rets = [n for n in walk_no_nested(fi.node) if isinstance(n, ast.Return) and n.value is not None]
    ctx.floor("return statements of Message.copy", len(rets), 1)
    for r_ in rets:
        objects(r_.value, r_)
    unknown = []
    stores = K.attr_stores(fi.node, ATTR, unknown)
    for call, kind in made:
        holders = {w.targets[0].id for w in walk_no_nested(fi.node) if isinstance(w, ast.Assign) and w.value is call and len(w.targets) == 1 and isinstance(w.targets[0], ast.Name)}
        def holds(rv):
            # the receiver is a holder of the new object, directly or through aliases (`n2 = new`)
            for _ in range(4):
                if isinstance(rv, ast.Name) and rv.id in holders:
                    return True
                if not isinstance(rv, ast.Name):
                    return rv is call
                nxt = assigned_value(fi.node, rv.id)
                if nxt is None or nxt is rv:
                    return False
                rv = nxt
            return False
        mine = [(rv, v, n) for rv, v, n in stores if holds(rv)]
        for rv, n in unknown:
            ctx.need(not holds(rv), "Message.copy: `%s` sets an attribute of the copy whose name the rule cannot determine" % stmt_text(n, 80))
        sources = [(v, n) for _rv, v, n in mine]
        snodes = set()
        for _rv, _v, n in mine:
            snodes |= set(cfg.locate(n))
        overwritten = bool(snodes) and all(cfg.must_pass(c_, snodes) for c_ in cfg.locate(call))
        if not overwritten:
            if kind == "new":
                kws = {k.arg: k.value for k in call.keywords}
                if ATTR in kws:
                    sources.append((kws[ATTR], call))
                else:
                    ctx.need(not call.args, "Message.copy builds the copy by `%s`: whether the tuning is passed is outside the rule's vocabulary" % stmt_text(call, 80))
                    # `**mapping`: the entry of the mapping (display, dict(), comprehension over a literal table of names)
                    found = None
                    for k_ in call.keywords:
                        if k_.arg is None:
                            r_ = K.dict_entry(fi, k_.value, ATTR, call)
                            found = r_ if r_ is not None else found
                    sources.append((found, getattr(found, "_c03_at", call) if found is not None else call))
        n_ok = 0
        for v, n in sources:
            bad = (call, "the copy is built without a tuning and none is assigned afterwards on every path") if v is None and n is call else \
                  (n, "the tuning is written by `%s`" % stmt_text(n, 60)) if v is None else _not_carried(ctx, fi, v, me, kw, n)
            ctx.ob("the tuning of a copy is the caller's override or the original's own tuning object (a derived request is retransmitted by the parameters attached to the original)",
                   bad is None, fi, bad[0] if bad is not None else n, detail=bad[1] if bad is not None else None,
                   construct="Message.copy tuning: %s" % stmt_text(bad[0] if bad is not None else (v if v is not None else n), 100))
            n_ok += 1
        if kind == "clone" and not sources:
            ctx.ob("the tuning of a copy is the caller's override or the original's own tuning object (a derived request is retransmitted by the parameters attached to the original)", True, fi, call,
                   construct="Message.copy tuning: %s" % stmt_text(call, 100))
    ctx.floor("objects built by Message.copy", len(made), 1)

    # (2) the constructor keeps what it is given
    init = K.view(prog.func("message.Message.__init__"))
    ips = params(init, skip_self=False)
    a = init.node.args
    ctx.need(ATTR in [x.arg for x in a.posonlyargs + a.args + a.kwonlyargs], "Message.__init__ has no parameter %s" % ATTR)
    sme = ips[0]
    ist = [(rv, v, n) for rv, v, n in K.attr_stores(init.node, ATTR) if _is_name(init, rv, sme)]
    ctx.floor("writes of self.%s in Message.__init__" % ATTR, len(ist), 1)
    for rv, v, n in ist:
        ctx.ob("Message.__init__ stores the transport tuning it is given (a default only when none is given)", v is not None and (_known_none_at(init, n, ATTR) or _stores_given(init, v, ATTR, n)), init, n)
    icfg = cfg_of(init)
    inodes = set()
    for _rv, _v, n in ist:
        inodes |= set(icfg.locate(n))
    ctx.ob("every message gets its tuning attribute on construction", icfg.must_pass(icfg.entry, inodes), init, init.node, construct="Message.__init__: %s assigned on every path" % ATTR)

    # (3) the tuning of an EXISTING message (one the function received: a parameter, something reachable from a
    # parameter) is never replaced by anything but the tuning of another message.  Giving a message the function has
    # just built its tuning by attribute assignment is the same fact as a constructor keyword and is the builder's
    # choice (decode tagging incoming messages, the OSCORE outer message): not a condition of this property.
    others = 0
    for g in prog.funcs.values():
        if g.node.name == "__init__":
            continue  # construction: `self` is the new object
        if not any(isinstance(n, ast.Attribute) and n.attr == ATTR and isinstance(n.ctx, (ast.Store, ast.Del)) for n in ast.walk(g.node)) and \
           not any(isinstance(n, ast.Constant) and n.value == ATTR for n in ast.walk(g.node)):
            continue
        if g.parent is not None and any(g.node is x for x in ast.walk(g.parent.node)):
            continue  # nested function: seen with its parent
        ga = g.node.args
        gparams = {x.arg for x in ga.posonlyargs + ga.args + ga.kwonlyargs}
        for rv, v, n in K.attr_stores(g.node, ATTR):
            root = resolve_local(g.node, rv)
            while isinstance(root, (ast.Attribute, ast.Subscript)):
                root = resolve_local(g.node, root.value)
            if not (isinstance(root, ast.Name) and root.id in gparams and not writes_to_name(g.node, root.id)):
                continue  # an object the function made or obtained itself
            others += 1
            ok = False
            if v is not None:
                vals = K.possible_values(g, v) or []
                ok = bool(vals) and all(isinstance(x, ast.Attribute) and x.attr == ATTR for x in (resolve_local(g.node, y) for y in vals))
            ctx.ob("the tuning of a message a function received is only ever replaced by the tuning of another message", ok, g, n)
    ctx.note("%d write(s) of .%s to received messages" % (others, ATTR))


def _delivered_classes(ctx, kcls):
    """What do the requests of the reported remote receive when TokenManager.dispatch_error is handed an error of
    class kcls?  The function is run in the small-scope evaluator of C02 (rules/_kit_c02.py: the sources as written,
    closures / partials / comprehensions / helpers with their Python meaning) on the world C02.e uses, with the
    exception an individual of *known class*: every isinstance / except test on it is decided by the class
    hierarchy (builtin bases under all their names).  -> [(class qn or None, object repr, call node, interp)]."""
    from . import _kit_c02 as E
    prog = E.raw_program(ctx.prog)
    short = "tokenmanager.TokenManager.dispatch_error"
    ctx.prog.touched.add("aiocoap." + short)
    fi = prog.func(short)
    ctx.need(len(params(fi)) == 2, "dispatch_error: (exception, remote) expected")
    qn = prog.cls("tokenmanager.TokenManager").qn
    Interp = K.class_aware_interp(E)

    def run(script):
        Rm, R2 = E.Obj("remote", True), E.Obj("other-remote", True)
        t = [E.Obj("token-%d" % n, True) for n in range(4)]
        mine = [E.Obj("request-1-of-the-remote", True), E.Obj("request-2-of-the-remote", True)]
        out = [((t[0], Rm), mine[0]), ((t[1], R2), E.Obj("request-of-another-remote", True)), ((t[2], Rm), mine[1])]
        stop = E.Obj("stopper-of-the-remote", True)
        O = E.VDict(out, name="outgoing_requests")
        I = E.VDict([((t[3], Rm), (E.Obj("pipe", True), stop))], name="incoming_requests")
        me = E.Obj("self", True, cls=qn, attrs={"outgoing_requests": O, "incoming_requests": I})
        exc = E.Obj("the reported error", True, cls=kcls)

        def opaque(it, callee, args, kwargs, node):
            if callee.attr == "add_exception" and callee.parent is not None:
                O.pairs[:] = [p for p in O.pairs if p[1] != callee.parent]
                return None
            if callee.parent is None and callee == stop:
                I.pairs[:] = []
                return None
            return NotImplemented
        it = Interp(prog, script, opaque_call=opaque)
        res = it.run_method(fi, me, [exc, Rm])
        return it, (res, mine)

    got = []
    for it, (res, mine) in E.explore(run):
        if res[0] != "return":
            continue  # C02.e reports a dispatch_error that raises
        for ev in it.events:
            if ev.kind == "call" and ev.callee.attr == "add_exception" and ev.callee.parent in mine:
                a0 = ev.args[0] if ev.args else None
                got.append((a0.cls if isinstance(a0, E.Obj) else None, repr(a0), ev.node, it))
    return fi, got


@R.clause("C03.j", "the error class the give-up arm reports is still a timeout-class error when dispatch_error hands it to the requests")
def j(ctx):
    # Two sites jointly: (A) the class K of the object _retransmit reports, with its ancestry in error.py, and (B) the
    # conversion TokenManager.dispatch_error applies before it fails the requests ("not a NetworkError -> wrap in a
    # plain NetworkError", whatever test decides it).  Invariant: for every K that A can report, what B delivers is an
    # instance of error.TimeoutError.  Either site may change (other bases, another test) as long as this holds.
    fi, p, pf, want, notwant = _retransmit_model(ctx)
    tm = ctx.prog.func("tokenmanager.TokenManager.dispatch_error")
    tp = params(tm)
    calls = K.calls_on(fi, "self.token_manager", ("dispatch_error",))
    ctx.floor("dispatch_error calls in _retransmit", len(calls), 1)
    classes = []
    for call in calls:
        ba = K.method_args(tm, call)
        ctx.need(ba is not None, "dispatch_error call with a shape outside the rule's vocabulary")
        for v in K.possible_values(fi, ba[tp[0]]) or []:
            if isinstance(v, ast.Call) and chain(resolve_local(fi.node, v.func)):
                cls = ctx.prog.resolve_in_module(fi.module, chain(resolve_local(fi.node, v.func)))
                if cls in ctx.prog.classes and (call, cls) not in classes:
                    classes.append((call, cls))
    # an error that is not an instance of a package class is C03.f's finding, not this clause's
    ctx.need(classes, "_retransmit: the class of the reported error is not a constructor call of a package class (see C03.f)")
    want_cls = ctx.prog.cls("error.TimeoutError").qn
    for call, cls in classes:
        dfi, got = _delivered_classes(ctx, cls)
        ctx.need(got, "dispatch_error: no request of the reported remote receives an exception in the evaluated world (see C02.e)")
        bad = next((g for g in got if g[0] is None or not K.exc_is_subclass(ctx.prog, g[0], want_cls)), None)
        if bad is not None:
            it = bad[3]
            if bad[0] is None or it.choices or it.blind:
                raise AnalysisError("dispatch_error: the evaluated world does not determine what the requests receive for a %s (%s; depends on %s)" % (
                    cls.rsplit(".", 1)[-1], bad[1], ", ".join(sorted(it.facts) + sorted(set(it.blind)))[:200]))
        ctx.ob("a %s reported by the give-up arm reaches the requests as a timeout-class error (dispatch_error does not replace it by a plain NetworkError)" % cls.rsplit(".", 1)[-1],
               bad is None, dfi, bad[2] if bad is not None else dfi.node,
               construct="dispatch_error: delivery of %s" % cls.rsplit(".", 1)[-1],
               detail=None if bad is None else "ancestry of %s: %s; the requests receive %s" % (cls.rsplit(".", 1)[-1], K.exc_mro(ctx.prog, cls), bad[1] if bad[0] is None else "an instance of %s" % bad[0]))


# ---------------------------------------------------------------------------
# C03.k -- who may store a tuning parameter.
#
# The retransmission code reads `<message>.transport_tuning.P` (C03.h).  A tuning is admissible when it is (an instance
# of) a subclass of TransportTuning that overrides P as a class attribute -- that is how the package's own tunings and
# the documented user tunings are written, and it is what C03.g evaluates.  Python looks an attribute up in the
# instance dictionary first (properties aside), so the override is what the reader sees only if NO instance of a class
# in the TransportTuning hierarchy carries P in its own dictionary unless the creator of that instance supplied the
# value.  The invariant is therefore over ALL writers of the names in TUNING:
#   (1) a constructor the interpreter synthesises from the class body (dataclasses / attrs decorators: every annotated
#       field is stored by the generated __init__, with the default *of the decorated class* when the caller passes
#       nothing) -- a field named like a tuning parameter shadows every subclass override;
#   (2) explicit stores on the instance in the methods of these classes (`self.P = v`, setattr, object.__setattr__):
#       accepted only where the stored value is a parameter that defaults to None and the store is guarded by the
#       parameter being given (nothing is stored for a tuning created without arguments); reported when a constructor
#       method stores a constant / a defaulted parameter unconditionally; refused otherwise;
#   (3) anything else that can write these names (a store of a TUNING name through another object anywhere in the
#       package, the instance `__dict__`, a setattr with a computed name inside the hierarchy, `__getattribute__`,
#       a metaclass, an unknown class decorator) is refused: the rule cannot tell what a reader then sees.
_SYNTH = {"dataclasses.dataclass": "dataclass", "attr.s": "attrs", "attr.attrs": "attrs", "attr.define": "attrs", "attr.mutable": "attrs",
          "attr.frozen": "attrs", "attr.dataclass": "attrs", "attrs.define": "attrs", "attrs.mutable": "attrs", "attrs.frozen": "attrs"}
_FIELD_MAKERS = {"dataclasses.field", "attr.ib", "attr.attrib", "attr.field", "attrs.field"}
_CTOR_METHODS = {"__init__", "__post_init__", "__attrs_post_init__", "__new__"}


def _resolved_chain(prog, module, e):
    c = chain(e)
    if c is None:
        return None
    try:
        return prog.resolve_in_module(module, c)
    except Exception:
        return c


def _kw_const(call, name, default):
    """value of the constant keyword `name` of a call (default when absent); AnalysisError when not a constant"""
    if not isinstance(call, ast.Call):
        return default
    for k in call.keywords:
        if k.arg == name:
            if isinstance(k.value, ast.Constant):
                return k.value.value
            raise AnalysisError("%s: keyword %s is not a constant" % (ast.unparse(call)[:60], name))
        if k.arg is None:
            raise AnalysisError("%s: ** arguments in a class decorator" % ast.unparse(call)[:60])
    return default


def _synthesised_fields(prog, ci, seen=None):
    """{name: ClassInfo that declares the field} of the names the interpreter-generated __init__ of class ci stores
    on the instance; {} when ci has no generated constructor.  AnalysisError on a class decorator / metaclass the rule
    does not know."""
    kind, init = None, True
    for d in ci.node.decorator_list:
        q = _resolved_chain(prog, ci.module, d.func if isinstance(d, ast.Call) else d)
        if q in _SYNTH:
            kind = _SYNTH[q]
            init = _kw_const(d, "init", True)
            if isinstance(d, ast.Call) and d.args:
                raise AnalysisError("%s: positional arguments of the class decorator %s" % (ci.qn, ast.unparse(d)[:60]))
        else:
            raise AnalysisError("class %s carries a decorator (%s) whose effect on the tuning parameters the rule cannot interpret" % (ci.qn, ast.unparse(d)[:60]))
    for k in ci.node.keywords:
        raise AnalysisError("class %s is created with the class keyword %s: attribute lookup on its instances is outside the rule's vocabulary" % (ci.qn, k.arg or "**"))
    if kind is None or not init:
        return {}
    fields = {}
    # fields of decorated ancestors are fields of this class as well
    for b in ci.bases:
        bci = prog.classes.get(b)
        if bci is not None and bci is not ci:
            fields.update(_inherited_fields(prog, bci))
    fields.update(_own_fields(prog, ci, kind))
    return fields


def _own_fields(prog, ci, kind):
    out = {}
    for st in ci.node.body:
        name = value = ann = None
        if isinstance(st, ast.AnnAssign) and isinstance(st.target, ast.Name):
            name, value, ann = st.target.id, st.value, st.annotation
        elif kind == "attrs" and isinstance(st, ast.Assign) and len(st.targets) == 1 and isinstance(st.targets[0], ast.Name) and isinstance(st.value, ast.Call) \
                and _resolved_chain(prog, ci.module, st.value.func) in _FIELD_MAKERS:
            name, value = st.targets[0].id, st.value
        if name is None:
            continue
        if ann is not None:
            a = ann.value if isinstance(ann, ast.Subscript) else ann
            text = ast.unparse(a) if not isinstance(a, ast.Constant) else str(a.value)
            if text.split("[")[0].split(".")[-1].strip() in ("ClassVar", "InitVar"):
                continue  # not stored on the instance
        if isinstance(value, ast.Call) and _resolved_chain(prog, ci.module, value.func) in _FIELD_MAKERS:
            if _kw_const(value, "init", True) is False and not any(k.arg in ("default_factory", "factory") for k in value.keywords):
                continue  # init=False with a plain default: the generated __init__ stores nothing, the class attribute is read
        out[name] = ci
    return out


def _inherited_fields(prog, ci):
    """fields a decorated subclass inherits from ci (only decorated classes contribute)"""
    kind = None
    for d in ci.node.decorator_list:
        q = _resolved_chain(prog, ci.module, d.func if isinstance(d, ast.Call) else d)
        kind = _SYNTH.get(q, kind)
    out = {}
    for b in ci.bases:
        bci = prog.classes.get(b)
        if bci is not None and bci is not ci:
            out.update(_inherited_fields(prog, bci))
    if kind is not None:
        out.update(_own_fields(prog, ci, kind))
    return out


def _guarded_stmts(body, guards=()):
    """(statement, guards) for every statement below `body`; guards = tuple of (test, outcome) of the enclosing
    if/while statements, None for an enclosing construct that is not a plain condition (loop, try, with, match)"""
    for st in body:
        yield st, guards
        if isinstance(st, (ast.FunctionDef, ast.AsyncFunctionDef, ast.ClassDef)):
            yield from _guarded_stmts(st.body, guards + (None,))
        elif isinstance(st, ast.If):
            yield from _guarded_stmts(st.body, guards + ((st.test, True),))
            yield from _guarded_stmts(st.orelse, guards + ((st.test, False),))
        else:
            for field in ("body", "orelse", "finalbody"):
                sub = getattr(st, field, None)
                if isinstance(sub, list) and sub and isinstance(sub[0], ast.stmt):
                    yield from _guarded_stmts(sub, guards + (None,))
            for h in getattr(st, "handlers", []) or []:
                yield from _guarded_stmts(h.body, guards + (None,))
            for c in getattr(st, "cases", []) or []:
                yield from _guarded_stmts(c.body, guards + (None,))


def _own_exprs(st):
    """the expressions evaluated by statement st itself (not those of the statements nested in it)"""
    for f, v in ast.iter_fields(st):
        for x in (v if isinstance(v, list) else [v]):
            if isinstance(x, ast.AST) and not isinstance(x, (ast.stmt, ast.ExceptHandler, ast.match_case)):
                yield from ast.walk(x)


def _param_defaults(fnode):
    a = fnode.args
    pos = a.posonlyargs + a.args
    out = {p.arg: None for p in pos}  # None = required
    for p, d in zip(pos[len(pos) - len(a.defaults):], a.defaults):
        out[p.arg] = d
    for p, d in zip(a.kwonlyargs, a.kw_defaults):
        out[p.arg] = d
    return out


@R.clause("C03.k", "a tuning parameter is found on the class of the attached tuning: no instance of the TransportTuning hierarchy carries one in its own dictionary unless its creator supplied it")
def k(ctx):
    prog = ctx.prog
    base = prog.cls(TUNING_CLS)
    hierarchy = []
    for q in list(prog.mro(base.qn)) + list(prog.subclasses(base.qn)):
        ci = prog.classes.get(q)
        if ci is not None and ci not in hierarchy:
            hierarchy.append(ci)
    ctx.floor("classes of the TransportTuning hierarchy", len(hierarchy), 3)
    refused = []
    # (1) synthesised constructors
    for ci in hierarchy:
        cname = ci.qn.rsplit(".", 1)[-1]
        fields = _synthesised_fields(prog, ci)
        shadow = sorted(n for n in fields if n in TUNING)
        for n in shadow:
            ctx.ob("no generated constructor stores the tuning parameter on the instance", False, None, None,
                   construct="%s: generated __init__ stores %s" % (cname, n),
                   detail="the class decorator makes %s (declared in %s) an instance attribute that is set to the default of the decorated class whenever the caller passes nothing: "
                          "a subclass that overrides %s as a class attribute is read with the base value" % (n, fields[n].qn.rsplit(".", 1)[-1], n))
        if not shadow:
            ctx.ob("no generated constructor stores a tuning parameter on the instance", True, None, None, construct="class %s" % cname,
                   detail="generated fields: %s" % (", ".join(sorted(fields)) or "none"))
    # (2) explicit stores in the methods of the hierarchy
    inside = set()
    for ci in hierarchy:
        cname = ci.qn.rsplit(".", 1)[-1]
        for fnode in [s for s in ci.node.body if isinstance(s, (ast.FunctionDef, ast.AsyncFunctionDef))]:
            for sub in ast.walk(fnode):
                inside.add(id(sub))
            if fnode.name == "__getattribute__":
                refused.append("%s defines __getattribute__: what a reader of a tuning parameter sees is outside the rule's vocabulary" % cname)
                continue
            decos = {ast.unparse(d) for d in fnode.decorator_list}
            if "staticmethod" in decos:
                recv = None
            else:
                a = fnode.args
                first = (a.posonlyargs + a.args)[:1]
                recv = first[0].arg if first else None
            is_cls = "classmethod" in decos or fnode.name in ("__init_subclass__", "__class_getitem__")
            defaults = _param_defaults(fnode)
            fi = ci.methods.get(fnode.name)
            stmts = list(_guarded_stmts(fnode.body))
            for st, guards in stmts:
                for e in _own_exprs(st):
                    pname = value = None
                    if isinstance(e, ast.Attribute) and isinstance(e.ctx, (ast.Store, ast.Del)) and e.attr in TUNING:
                        if not (isinstance(e.value, ast.Name) and e.value.id == recv and not is_cls):
                            refused.append("%s.%s writes %s: a run-time writer of a tuning parameter the rule cannot attribute to one instance" % (cname, fnode.name, ast.unparse(e)))
                            continue
                        pname = e.attr
                        if isinstance(st, ast.Assign) and any(t is e for t in st.targets):
                            value = st.value
                        elif isinstance(st, ast.AnnAssign) and st.target is e:
                            value = st.value
                    elif isinstance(e, ast.Call) and chain(e.func) in ("setattr", "object.__setattr__", "delattr", "object.__delattr__"):
                        if len(e.args) < 2 or not isinstance(e.args[1], ast.Constant):
                            refused.append("%s.%s: %s stores an attribute with a computed name" % (cname, fnode.name, ast.unparse(e)[:70]))
                            continue
                        if e.args[1].value not in TUNING:
                            continue
                        if is_cls or not (isinstance(e.args[0], ast.Name) and e.args[0].id == recv):
                            refused.append("%s.%s: %s writes a tuning parameter of the class / of another object at run time" % (cname, fnode.name, ast.unparse(e)[:70]))
                            continue
                        pname = e.args[1].value
                        value = e.args[2] if len(e.args) == 3 and chain(e.func).endswith("setattr") or len(e.args) == 3 and chain(e.func).endswith("__setattr__") else None
                    elif isinstance(e, ast.Attribute) and e.attr == "__dict__" or isinstance(e, ast.Call) and chain(e.func) == "vars":
                        refused.append("%s.%s uses %s: stores through the instance dictionary are outside the rule's vocabulary" % (cname, fnode.name, ast.unparse(e)[:60]))
                        continue
                    if pname is None:
                        continue
                    construct = "%s.%s: %s" % (cname, fnode.name, stmt_text(st, 80))
                    # accepted: the value is a parameter defaulting to None, stored only where it is known to be given
                    v = value
                    if isinstance(v, ast.Name) and isinstance(defaults.get(v.id), ast.Constant) and defaults[v.id].value is None \
                            and sum(1 for s2, _ in stmts for x in _own_exprs(s2) if isinstance(x, ast.Name) and x.id == v.id and isinstance(x.ctx, ast.Store)) == 0 \
                            and None not in guards \
                            and any(_none_test(fi or K.synthetic_method(ci, fnode.name, v), g[0], v.id) == (not g[1]) for g in guards):
                        # the branch outcome establishes `v is not None` / truthy: a tuning created without that argument
                        # gets no instance attribute, so a class-level override stays visible
                        ctx.ob("an instance attribute for a tuning parameter is stored only when the creator supplied the value", True, fi, st, construct=construct)
                        continue
                    constant = isinstance(v, ast.Constant) or isinstance(v, ast.UnaryOp) and isinstance(v.operand, ast.Constant) \
                        or isinstance(v, ast.Name) and isinstance(defaults.get(v.id), ast.Constant) and defaults[v.id].value is not None \
                        and not any(isinstance(x, ast.Name) and x.id == v.id and isinstance(x.ctx, ast.Store) for s2, _ in stmts for x in _own_exprs(s2))
                    early_exit = any(isinstance(s2, (ast.Return, ast.Raise)) for s2, _ in stmts)
                    if fnode.name in _CTOR_METHODS and not guards and constant and not early_exit:
                        ctx.ob("no constructor stores a default for the tuning parameter on the instance", False, fi, st, construct=construct,
                               detail="every instance gets its own %s = %s, whatever its class defines: a subclass that overrides %s as a class attribute is read with this value" % (
                                   pname, ast.unparse(v) if not isinstance(v, ast.Name) else "%s (default %s)" % (v.id, ast.unparse(defaults[v.id])), pname))
                    else:
                        refused.append("%s stores the tuning parameter %s on the instance in a way the rule cannot decide (not `if given: store given`, not an unconditional default in a constructor)" % (construct, pname))
    # (3) writers outside the hierarchy's methods: stores of a tuning name through any object, anywhere in the package
    for m in prog.modules.values():
        for n in ast.walk(m.tree):
            if id(n) in inside:
                continue
            if isinstance(n, ast.Attribute) and isinstance(n.ctx, (ast.Store, ast.Del)) and n.attr in TUNING:
                refused.append("%s writes %s at run time: a writer of a tuning parameter outside the TransportTuning class bodies" % (m.name, ast.unparse(n)))
            elif isinstance(n, ast.Call) and chain(n.func) in ("setattr", "object.__setattr__", "delattr") and len(n.args) >= 2 and isinstance(n.args[1], ast.Constant) and n.args[1].value in TUNING:
                refused.append("%s: %s writes a tuning parameter at run time" % (m.name, ast.unparse(n)[:70]))
    if refused:
        raise AnalysisError("; ".join(refused[:6]))
    ctx.ob("the only writers of the tuning parameters are the class bodies of the TransportTuning hierarchy (%d classes)" % len(hierarchy), True, None, None, construct="TransportTuning hierarchy")



# ---------------------------------------------------------------------------------------------------------------------
# C03.l -- the identity of the remote the exchange key is built from
#
# "No further copy is sent once an ACK or Reset with the same message ID has arrived from the same endpoint ... while
# empty ACKs ... from another endpoint change nothing": the exchange table is keyed by (message.remote, message.mid)
# (C03.d), the stored remote is the address object the request was sent to, the looked-up remote is a *freshly built*
# address object of the datagram that came in.  The lookup therefore is exactly Python's dict protocol over the
# address class: hash(a) == hash(b) and a == b.  RFC 7252 section 1.2 defines the endpoint of an unsecured exchange
# by IP address and UDP port; RFC 4007 / RFC 3493: the scope (zone) id and the local address a datagram was received
# on (pktinfo) are *local* attributes of how the peer is reached, not part of the peer's identity, and the receiving
# socket reports them independently of what the sender of the request put there.  Reference (written from those
# texts, not from the class): over a finite world of address objects built through the class's own constructor from
# AF_INET6 socket addresses (host, port, flowinfo, scope_id) x {without, with local pktinfo},
#   (l1) the class is hashable and  a == b  implies  hash(a) == hash(b);
#   (l2) equal (host, port, flowinfo) implies a == b -- whatever scope id and pktinfo say (same endpoint is found);
#   (l3) different host or different port implies a != b (another endpoint changes nothing).
# __init__, __eq__, __hash__, the properties and the methods they use are interpreted by _kit_c03.ObjEval over
# concrete values, so every spelling with the same truth table is the same fact (slices, index tuples, unpacking,
# a key helper/property, isinstance guards returning NotImplemented, all(... zip ...)), and an inherited or missing
# __eq__ (identity) or a dropped __hash__ is decided as well.  What the evaluator cannot interpret is refused.

ADDRESS_BASE = "aiocoap.interfaces.EndpointAddress"
SOCKADDR_CLASSES = ["aiocoap.transports.udp6.UDP6EndpointAddress"]
_HOSTS = ("2001:db8::1", "2001:db8::2")
_PORTS = (5683, 61616)
_FLOWS = (0, 9)
_SCOPES = (0, 3, 5)
_PKTINFO = bytes(range(20))


def _sockaddr_param(prog, qn):
    """Name of the constructor parameter that receives the socket address: at the construction sites of the class,
    the argument whose value is a literal 4-tuple (the AF_INET6 address (host, port, flowinfo, scope_id) the transport
    assembles).  None if no site shows one."""
    ci = prog.classes[qn]
    init = prog.lookup_method(qn, "__init__")
    if init is None:
        return None
    pos = [a.arg for a in init.node.args.posonlyargs + init.node.args.args][1:]
    found = set()
    for fi in prog.funcs.values():
        if fi.module is not ci.module:
            continue
        for call in ast.walk(fi.node):
            if not isinstance(call, ast.Call):
                continue
            c = chain(call.func)
            own = fi.cls is not None and getattr(fi.cls, "qn", fi.cls) == qn and (c == "cls" or ast.unparse(call.func) in ("type(self)", "self.__class__"))
            if not own and (not c or prog.resolve_in_module(fi.module, c) != qn):
                continue
            cands = [(pos[i] if i < len(pos) else None, a) for i, a in enumerate(call.args)] + [(k.arg, k.value) for k in call.keywords]
            for pname, a in cands:
                for v in K.possible_values(fi, a) or [a]:
                    if isinstance(v, ast.Tuple) and len(v.elts) == 4 and pname:
                        found.add(pname)
    return found.pop() if len(found) == 1 else None


def _address_world(ctx, ev, qn):
    """[(sockaddr, with_pktinfo, instance)] built through the class's own constructor"""
    prog = ctx.prog
    init = prog.lookup_method(qn, "__init__")
    ctx.need(init is not None, "%s has a constructor" % qn)
    sp = _sockaddr_param(prog, qn)
    ctx.need(sp is not None, "one constructor parameter of %s receives the 4-tuple socket address at the construction sites" % qn)
    a = init.node.args
    ctx.need(not a.vararg and not a.kwarg and not a.posonlyargs, "%s.__init__ has a plain signature" % qn)
    pos = [p.arg for p in a.args][1:]
    npos_defaults = len(a.defaults)
    required = pos[: len(pos) - npos_defaults] if npos_defaults else pos
    optional_kw = [p.arg for p, d in zip(a.kwonlyargs, a.kw_defaults) if d is not None]
    required_kw = [p.arg for p, d in zip(a.kwonlyargs, a.kw_defaults) if d is None]
    world = []
    for host in _HOSTS:
        for port in _PORTS:
            for flow in _FLOWS:
                for scope in _SCOPES:
                    sa = (host, port, flow, scope)
                    for with_local in (False, True):
                        kwargs = {}
                        for p in required + required_kw:
                            kwargs[p] = K.Opaque(p)
                        if with_local:
                            # every optional constructor argument given: the address as the receive path builds it
                            for p in optional_kw + pos[len(required):]:
                                kwargs[p] = _PKTINFO
                        kwargs[sp] = sa
                        world.append((sa, with_local, ev.new(qn, [], kwargs)))
    return world


@R.clause("C03.l", "the remote of the exchange key identifies the endpoint: address objects are hashable, equal objects hash equally, same IP address and port (any scope id, any local address) compare equal, another address or port compares unequal")
def l(ctx):
    prog = ctx.prog
    n = 0
    for qn in SOCKADDR_CLASSES:
        if qn not in prog.classes:
            raise AnchorError("anchor class %s not found" % qn)
        ctx.need(prog.is_subclass(qn, ADDRESS_BASE), "%s is an EndpointAddress" % qn)
        ci = prog.classes[qn]
        short = qn[len("aiocoap."):]
        ev = K.ObjEval(prog)
        eqm = prog.lookup_method(qn, "__eq__")
        hm = prog.lookup_method(qn, "__hash__")
        try:
            hashable = ev.hashable(qn)
            ctx.ob("%s is hashable (it is the first half of the exchange key)" % short, hashable, hm or eqm, (hm or eqm).node if (hm or eqm) else ci.node,
                   detail="a class body that defines __eq__ without __hash__ (or sets __hash__ = None) makes its instances unhashable", construct=short + ".__hash__")
            n += 1
            if not hashable:
                continue
            world = _address_world(ctx, ev, qn)
            bad = {"l1": None, "l2": None, "l3": None}
            for sa, la, x in world:
                for sb, lb, y in world:
                    if x is y:
                        continue
                    equal = ev.eq(x, y)
                    if equal and bad["l1"] is None and ev.hash(x) != ev.hash(y):
                        bad["l1"] = (sa, la, sb, lb)
                    if sa[:3] == sb[:3] and not equal and bad["l2"] is None:
                        bad["l2"] = (sa, la, sb, lb)
                    if sa[:2] != sb[:2] and equal and bad["l3"] is None:
                        bad["l3"] = (sa, la, sb, lb)
        except K.EvalRefused as ex:
            raise AnalysisError("identity protocol of %s: %s" % (short, ex))

        def show(w):
            return None if w is None else "%r%s vs %r%s" % (w[0], " +pktinfo" if w[1] else "", w[2], " +pktinfo" if w[3] else "")

        at_eq = eqm or hm
        at_hash = hm or eqm
        ctx.ob("%s: equal addresses hash equally" % short, bad["l1"] is None, at_hash, at_hash.node if at_hash else ci.node,
               detail=show(bad["l1"]), construct=short + ".__hash__ vs __eq__")
        ctx.ob("%s: the same IP address, port and flow label is the same endpoint whatever the scope id and the local address (the address built for an incoming ACK/RST finds the exchange stored under the address the CON was sent to)" % short,
               bad["l2"] is None, at_eq, at_eq.node if at_eq else ci.node, detail=show(bad["l2"]), construct=short + ".__eq__ same endpoint")
        ctx.ob("%s: another IP address or port is another endpoint" % short, bad["l3"] is None, at_eq, at_eq.node if at_eq else ci.node,
               detail=show(bad["l3"]), construct=short + ".__eq__ other endpoint")
        ctx.extra.setdefault("C03.l", {})[short] = {"world": len(world), "interpreted": sorted(ev.deps)}
    # every other address class that may become the first half of an exchange key: Python's own rule -- a class body
    # that defines __eq__ without __hash__ (or sets __hash__ = None) makes the instances unhashable, inserting the
    # exchange raises TypeError.  (Their equality is not modelled: they are not built from socket addresses.)
    ev = K.ObjEval(prog)
    for qn in sorted(prog.subclasses(ADDRESS_BASE)):
        if qn in SOCKADDR_CLASSES or qn == ADDRESS_BASE:
            continue
        if ev.member(qn, "__eq__") is None and ev.member(qn, "__hash__") is None:
            continue
        m = prog.lookup_method(qn, "__eq__") or prog.lookup_method(qn, "__hash__")
        ctx.ob("%s is hashable" % qn[len("aiocoap."):], ev.hashable(qn), m, m.node if m else prog.classes[qn].node,
               detail="a class body that defines __eq__ without __hash__ (or sets __hash__ = None) makes its instances unhashable", construct=qn[len("aiocoap."):] + ".__hash__")
    ctx.floor("socket-address classes decided", n, 1)


F_MM = "aiocoap/messagemanager.py"
R.seed("C03.d", F_MM, "        messageerror_monitor, next_retransmission = self._active_exchanges.pop(key)\n        # this should be a no-op", "        messageerror_monitor, next_retransmission = self._active_exchanges[key]\n        # this should be a no-op", "timed-out exchange stays in the table: the remote looks busy forever")
R.seed("C03.e", F_MM, "        if message.code.is_request():\n            # Responses", "        if message.code.is_request() or message.code is EMPTY:\n            # Responses", "empty ACK/RST with a recently seen message ID dropped as duplicate: retransmissions continue")
R.seed("C03.f", "aiocoap/tokenmanager.py", "                    lambda request=request, exception=exception: request.add_exception(\n                        exception\n                    )", "                    lambda: request.add_exception(\n                        exception\n                    )", "only the last outstanding request receives the timeout")
R.seed("C03.b", F_MM, "if retransmission_counter < message.transport_tuning.MAX_RETRANSMIT:", "if retransmission_counter <= message.transport_tuning.MAX_RETRANSMIT:", "one transmission too many")
R.seed("C03.b", F_MM, "            timeout *= 2\n", "            timeout *= 3\n")
R.seed("C03.b", F_MM, "            timeout *= 2\n", "            timeout += 2\n")
R.seed("C03.b", F_MM, "            timeout *= 2\n", "            pass\n")
R.seed("C03.b", F_MM, "            retransmission_counter += 1\n", "            retransmission_counter += 2\n")
R.seed("C03.b", F_MM, "            del self._backlogs[message.remote]\n            self.token_manager.dispatch_error(", "            del self._backlogs[message.remote]\n            self._schedule_retransmit(message, timeout, retransmission_counter)\n            self.token_manager.dispatch_error(", "re-arm in the give-up arm")
R.seed("C03.b", F_MM, "            self._send_via_transport(message)\n            retransmission_counter += 1", "            self._send_via_transport(message.copy())\n            retransmission_counter += 1", "not the same object")
R.seed("C03.a", F_MM, "            message.transport_tuning.ACK_TIMEOUT\n            * message.transport_tuning.ACK_RANDOM_FACTOR,", "            message.transport_tuning.ACK_TIMEOUT\n            + message.transport_tuning.ACK_RANDOM_FACTOR,")
R.seed("C03.a", F_MM, "next_retransmission = self._schedule_retransmit(message, timeout, 0)", "next_retransmission = self._schedule_retransmit(message, timeout, 1)")
R.seed("C03.a", F_MM, "return self.loop.call_later(timeout, retr)", "return self.loop.call_later(timeout * 2, retr)")
R.seed("C03.c", F_MM, "            self.log.info(\"Retransmission, Message ID: %d.\", message.mid)\n", "            self.log.info(\"Retransmission, Message ID: %d.\", message.mid)\n            message.mid = self._next_message_id()\n")
R.seed("C03.d", F_MM, "        key = (message.remote, message.mid)\n\n        messageerror_monitor, next_retransmission = self._active_exchanges.pop(key)\n        # this should", "        key = (message.remote,)\n\n        messageerror_monitor, next_retransmission = self._active_exchanges.pop(key)\n        # this should")
R.seed("C03.d", F_MM, "        messageerror_monitor, next_retransmission = self._active_exchanges.pop(key)\n        next_retransmission.cancel()\n        if message.mtype is RST:", "        messageerror_monitor, next_retransmission = self._active_exchanges.pop(key)\n        if message.mtype is RST:", "timer not cancelled on ACK")
R.seed("C03.d", F_MM, "        if message.mtype is RST:\n            messageerror_monitor()", "        if True:\n            messageerror_monitor()", "monitor fired on ACK too")
R.seed("C03.d", F_MM, "        if message.mtype is RST:\n            messageerror_monitor()\n", "", "Reset no longer fails the request")
R.seed("C03.e", F_MM, "        if message.mtype in (ACK, RST):\n            self._remove_exchange(message)", "        if message.mtype in (ACK,):\n            self._remove_exchange(message)")
R.seed("C03.f", F_MM, "                error.ConRetransmitsExceeded(\"Retransmissions exceeded\"), message.remote", "                error.LibraryShutdown(\"Retransmissions exceeded\"), message.remote")
R.seed("C03.g", "aiocoap/numbers/constants.py", "            * (2 ** (self.MAX_RETRANSMIT + 1) - 1)", "            * (2 ** (self.MAX_RETRANSMIT) - 1)")
R.seed("C03.g", "aiocoap/numbers/constants.py", "    MAX_RETRANSMIT = 4\n", "    MAX_RETRANSMIT = 5\n")
R.seed("C03.h", F_MM, "message.transport_tuning.EXCHANGE_LIFETIME,", "TransportTuning().EXCHANGE_LIFETIME,")

# seeds for the generalised clauses (each generalisation must still bite)
R.seed("C03.a", F_MM, "            self._retransmit(message, timeout, retransmission_counter)\n\n        return self.loop.call_later(timeout, retr)", "            self._retransmit(message, timeout, 0)\n\n        return self.loop.call_later(timeout, retr)", "the callback resets the counter: retransmissions never end")
R.seed("C03.a", F_MM, "            timeout=timeout,\n            retransmission_counter=retransmission_counter,\n            doc=", "            timeout=timeout * 2,\n            retransmission_counter=retransmission_counter,\n            doc=", "default-argument binding of the callback carries another timeout than the armed one")
R.seed("C03.b", F_MM, "            next_retransmission = self._schedule_retransmit(\n                message, timeout, retransmission_counter\n            )\n            self._active_exchanges[key] = (messageerror_monitor, next_retransmission)\n", "            pass\n", "no new timer after a retransmission: the exchange stalls without ever giving up")
R.seed("C03.b", F_MM, "            self._send_via_transport(message)\n            retransmission_counter += 1", "            self._send_via_transport(message)\n            self._send_via_transport(message)\n            retransmission_counter += 1", "two copies per timer expiry")
R.seed("C03.d", F_MM, "        if key not in self._active_exchanges:\n            # Before turning", "        if False:\n            # Before turning", "stray ACK raises KeyError instead of being ignored")
R.seed("C03.d", F_MM, "        if message.mtype is RST:\n            messageerror_monitor()", "        if message.mtype is ACK:\n            messageerror_monitor()", "ACK fails the request, Reset does not")
R.seed("C03.e", F_MM, "        if message.mtype in (ACK, RST):\n            self._remove_exchange(message)", "        if message.mtype in (ACK, RST, NON):\n            self._remove_exchange(message)", "a NON with a matching message ID ends the exchange")
R.seed("C03.e", F_MM, "        if message.mtype in (ACK, RST):\n            self._remove_exchange(message)", "        if message.mtype in (ACK, RST) and message.code is EMPTY:\n            self._remove_exchange(message)", "piggy-backed responses no longer stop the retransmission")
R.seed("C03.f", F_MM, "            self.token_manager.dispatch_error(\n                error.ConRetransmitsExceeded(\"Retransmissions exceeded\"), message.remote\n            )", "            pass", "give-up without telling anyone: the request hangs")
R.seed("C03.f", F_MM, "error.ConRetransmitsExceeded(\"Retransmissions exceeded\"), message.remote", "error.ConRetransmitsExceeded(\"Retransmissions exceeded\"), None", "timeout reported for no remote")
R.seed("C03.g", "aiocoap/numbers/constants.py", "        return 2 * self.MAX_LATENCY + self.PROCESSING_DELAY", "        return self.MAX_LATENCY + self.PROCESSING_DELAY")

# fifth pass: order-free C03.b (seeds for both layouts of the retransmission branch: transmit first / transmit last;
# the anchors of the layout that is not in the analysed tree are reported "skipped")
R.seed("C03.b", F_MM, "            self._send_via_transport(message)\n            retransmission_counter += 1", "            retransmission_counter += 1", "the timer is re-armed with the doubled timeout but no copy is transmitted")
R.seed("C03.b", F_MM, "            self._active_exchanges[key] = (messageerror_monitor, next_retransmission)\n            self._send_via_transport(message)\n", "            self._active_exchanges[key] = (messageerror_monitor, next_retransmission)\n", "the timer is re-armed with the doubled timeout but no copy is transmitted (transmit-last layout)")
R.seed("C03.b", F_MM, "            self._active_exchanges[key] = (messageerror_monitor, next_retransmission)\n            self._send_via_transport(message)\n", "            self._active_exchanges[key] = (messageerror_monitor, next_retransmission)\n            self._send_via_transport(message)\n            self._send_via_transport(message)\n", "two copies per timer expiry (transmit-last layout)")
R.seed("C03.b", F_MM, "            self._active_exchanges[key] = (messageerror_monitor, next_retransmission)\n            self._send_via_transport(message)\n", "            self._active_exchanges[key] = (messageerror_monitor, next_retransmission)\n            self._send_via_transport(message.copy())\n", "not the same object (transmit-last layout)")
R.seed("C03.b", F_MM, "            self._active_exchanges[key] = (messageerror_monitor, next_retransmission)\n            self._send_via_transport(message)\n        else:", "            self._active_exchanges[key] = (messageerror_monitor, next_retransmission)\n        self._send_via_transport(message)\n        if False:\n            pass\n        else:", "a last copy is transmitted on give-up as well (transmit-last layout)")
R.seed("C03.b", F_MM, "        next_retransmission.cancel()\n\n        if retransmission_counter < message.transport_tuning.MAX_RETRANSMIT:", "        next_retransmission.cancel()\n        self._send_via_transport(message)\n\n        if retransmission_counter < message.transport_tuning.MAX_RETRANSMIT:", "a copy is transmitted before the counter is looked at: one copy on give-up, two per retransmission")

# fifth pass: C03.i / C03.j
F_MSG = "aiocoap/message.py"
R.seed("C03.i", F_MSG, "transport_tuning=kwargs.pop(\"transport_tuning\", self.transport_tuning),", "transport_tuning=kwargs.pop(\"transport_tuning\", None),", "derived (block-wise) requests fall back to the default tuning")
R.seed("C03.i", F_MSG, "transport_tuning=kwargs.pop(\"transport_tuning\", self.transport_tuning),", "transport_tuning=kwargs.pop(\"transport_tuning\", self.transport_tuning.__class__()),", "a fresh tuning of the same class loses the parameters set on the instance")
R.seed("C03.i", F_MSG, "            transport_tuning=kwargs.pop(\"transport_tuning\", self.transport_tuning),\n", "", "the copy is built without the tuning")
R.seed("C03.i", F_MSG, "transport_tuning=kwargs.pop(\"transport_tuning\", self.transport_tuning),", "transport_tuning=kwargs.pop(\"transport_tuning\", None) and self.transport_tuning,", "an explicit override is replaced by the original's tuning, no override yields None")
R.seed("C03.i", F_MSG, "        self.transport_tuning = transport_tuning or TransportTuning()", "        self.transport_tuning = TransportTuning()", "the constructor ignores the tuning it is given")
R.seed("C03.i", F_MSG, "        self.transport_tuning = transport_tuning or TransportTuning()", "        self.transport_tuning = TransportTuning() if transport_tuning is not None else transport_tuning", "inverted test in the constructor")
R.seed("C03.i", F_MM, "        key = (message.remote, message.mid)\n\n        if message.remote not in self._backlogs:", "        key = (message.remote, message.mid)\n        message.transport_tuning = type(message.transport_tuning)()\n\n        if message.remote not in self._backlogs:", "the message manager replaces the tuning attached to the message it is asked to send")
R.seed("C03.j", "aiocoap/tokenmanager.py", "        if not isinstance(exception, error.NetworkError):\n            cause = exception", "        if not isinstance(exception, error.NetworkError) or isinstance(\n            exception, error.TimeoutError\n        ):\n            cause = exception", "timeouts are flattened into a plain NetworkError")
R.seed("C03.j", "aiocoap/tokenmanager.py", "        if not isinstance(exception, error.NetworkError):\n            cause = exception", "        if isinstance(exception, Exception):\n            cause = exception", "everything is wrapped: the request fails with a plain NetworkError, not a timeout")
R.seed("C03.j", "aiocoap/tokenmanager.py", "        if not isinstance(exception, error.NetworkError):\n            cause = exception", "        if not isinstance(exception, error.RemoteServerShutdown):\n            cause = exception", "only one sibling class is let through")

# seventh pass: C03.g evaluation route (bodies outside the polynomial normal form are decided by evaluating the class on
# the parameter grid; each of these is reported with the parameter point at which the value leaves the RFC formula)
F_CONST = "aiocoap/numbers/constants.py"
_SPAN_RET = "        return self.ACK_TIMEOUT * (2**self.MAX_RETRANSMIT - 1) * self.ACK_RANDOM_FACTOR\n"
R.seed("C03.g", F_CONST, _SPAN_RET, "        return self.ACK_TIMEOUT * sum(2**i for i in range(self.MAX_RETRANSMIT + 1)) * self.ACK_RANDOM_FACTOR\n", "sum of the doubling timeouts with one term too many (MAX_TRANSMIT_SPAN becomes MAX_TRANSMIT_WAIT)")
R.seed("C03.g", F_CONST, _SPAN_RET, "        total, timeout = 0, self.ACK_TIMEOUT\n        for _ in range(self.MAX_RETRANSMIT):\n            total += timeout\n            timeout *= 2\n        return total\n", "doubling loop that forgets ACK_RANDOM_FACTOR")
R.seed("C03.g", F_CONST, _SPAN_RET, "        return 45.0\n", "the RFC's default value as a literal: right for the default parameters only")
R.seed("C03.g", F_CONST, _SPAN_RET, "        return TransportTuning.ACK_TIMEOUT * sum(2**i for i in range(self.MAX_RETRANSMIT)) * self.ACK_RANDOM_FACTOR\n", "reads the base class's ACK_TIMEOUT: a subclass that tunes ACK_TIMEOUT keeps the default span")
R.seed("C03.g", F_CONST, "        return self.MAX_TRANSMIT_SPAN + self.MAX_RTT\n", "        return sum(getattr(self, part) for part in (\"MAX_TRANSMIT_WAIT\", \"MAX_RTT\"))\n", "EXCHANGE_LIFETIME summed over a table of names that lists MAX_TRANSMIT_WAIT")
R.seed("C03.g", F_CONST, "        return self.ACK_TIMEOUT\n", "        return getattr(self, \"EMPTY_ACK_DELAY\")\n", "PROCESSING_DELAY taken from the wrong parameter")
R.seed("C03.g", F_CONST, "            * (2 ** (self.MAX_RETRANSMIT + 1) - 1)\n", "            * (pow(2, self.MAX_RETRANSMIT) - 1)\n", "MAX_TRANSMIT_WAIT with the exponent of MAX_TRANSMIT_SPAN, spelled with pow()")
_CLS_HEAD = "class TransportTuning:\n"
_REL = "    reliability: bool | None = None\n"
R.seed("C03.k", F_CONST, _CLS_HEAD, "from dataclasses import dataclass\n\n\n@dataclass(kw_only=True)\nclass TransportTuning:\n    MAX_RETRANSMIT: int = 4\n", "generated __init__ stores the base default of MAX_RETRANSMIT on every instance: subclass overrides are shadowed")
R.seed("C03.k", F_CONST, _REL, _REL + "\n    def __init__(self, ACK_TIMEOUT=2.0):\n        self.ACK_TIMEOUT = ACK_TIMEOUT\n\n", "hand-written constructor with a defaulted keyword: the instance attribute shadows subclass overrides")
R.seed("C03.k", F_CONST, _REL, _REL + "\n    def __init__(self):\n        setattr(self, \"ACK_RANDOM_FACTOR\", 1.5)\n\n", "constant stored on every instance through setattr")

# C03.l: the identity of the remote half of the exchange key
F_UDP6 = "aiocoap/transports/udp6.py"
_EQ = "        return self.sockaddr[:-1] == other.sockaddr[:-1]\n"
_HASH = "        return hash(self.sockaddr[:-1])\n"
R.seed("C03.l", F_UDP6, _EQ, "        return self.sockaddr == other.sockaddr\n", "the scope id takes part in the comparison: the ACK from the same IP address and port (reported with scope id 0) does not find the exchange of a request sent with a zone identifier")
R.seed("C03.l", F_UDP6, _EQ, "        return self.sockaddr[:-1] == other.sockaddr[:-1] and self.pktinfo == other.pktinfo\n", "the local address takes part in the comparison: the address of an incoming datagram always carries one, the address a request was sent to need not")
R.seed("C03.l", F_UDP6, _EQ, "        return self.sockaddr[0] == other.sockaddr[0]\n", "the port is not compared: an empty ACK from another endpoint of the same host stops the retransmissions")
R.seed("C03.l", F_UDP6, _EQ, "        return self is other\n", "identity comparison: the freshly built address of an incoming ACK never equals the stored one")
R.seed("C03.l", F_UDP6, _HASH, "        return hash(self.sockaddr)\n", "equal addresses (scope id ignored by __eq__) hash differently: the lookup misses")
R.seed("C03.l", F_UDP6, _HASH, "        return hash((self.sockaddr, self.pktinfo))\n", "the hash depends on the local address __eq__ ignores")
R.seed("C03.l", F_UDP6, "    def __hash__(self):\n" + _HASH + "\n", "", "__eq__ without __hash__: the remote is unhashable, the exchange cannot be stored")
