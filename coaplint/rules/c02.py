"""C02 A response reaches exactly the request it answers; every request completes once."""

import ast

from ..rulekit import *
from ..norm import Normalizer, Poly

R = Rules(
    "C02",
    explanation=(
        "Structural clauses of response matching decided on tokenmanager.py, protocol.Request and udp6: the key "
        "stored by TokenManager.request and the key looked up by process_response are both (token, remote) "
        "(remote = None only on the multicast arm / as the single fall-back); a response is handed over only to the "
        "object found by that lookup and an unsuccessful lookup returns False (which the message layer turns into a "
        "Reset, C10); outgoing_requests is written only by TokenManager, each registration is paired with a removal "
        "on loss of interest under the same key, and a registration is retired exactly when the response is final "
        "(final = not(request asked to observe and response carries Observe)); tokens come from a 64-bit counter that "
        "only next_token advances by one, rendered injectively, and are assigned before the key is formed; transport "
        "errors are fanned out only to requests of the reported remote and always as NetworkError; the generator "
        "Request._run completes the response future exactly once before its first suspension and never again; "
        "endpoint equality and hash use the same projection of the socket address that keeps address and port.  "
        "Completion under arbitrary loss/duplication/reordering schedules is not decided."
    ),
    rule_text="def-use tracing of key components, dominance and exactly-once path rules, ownership over the whole package, normal forms",
)

TM = "tokenmanager.TokenManager."


def _key_values(fi, name):
    vals = []
    for w in writes_to_name(fi.node, name):
        if isinstance(w, ast.Assign) and len(w.targets) == 1 and isinstance(w.targets[0], ast.Name):
            vals.append((w, w.value))
        else:
            vals.append((w, None))
    return vals


def _component(fi, e):
    """Resolve a key component to a canonical chain through single-assignment locals: msg -> request.request"""
    parts = []
    while isinstance(e, ast.Attribute):
        parts.append(e.attr)
        e = e.value
    if isinstance(e, ast.Name):
        v = resolve_local(fi.node, e)
        base = chain(v) if v is not e else e.id
        if base is None:
            return None
        return ".".join([base] + list(reversed(parts)))
    if isinstance(e, ast.Constant) and e.value is None and not parts:
        return "None"
    return None


@R.clause("C02.a", "the key stored by request() and the key looked up by process_response() are both (token, remote) in that order")
def a(ctx):
    fi = ctx.prog.func(TM + "request")
    rq = params(fi)[0]
    cfg = cfg_of(fi)
    stores = [(k, n) for k, n in stores_to(fi.node, "self.outgoing_requests", nested=False) if k == "setitem"]
    ctx.floor("registrations in request()", len(stores), 1)
    msgchain = rq + ".request"
    for k, st in stores:
        key = st.targets[0].slice
        cands = [(st, key)] if not isinstance(key, ast.Name) else _key_values(fi, key.id)
        ctx.need(cands, "request(): key has no visible definition")
        for w, v in cands:
            b = match("($t, $r)", v) if v is not None else None
            tok = _component(fi, b["t"]) if b else None
            rem = _component(fi, b["r"]) if b else None
            ctx.ob("registration key is (message token, message remote)", b is not None and tok == msgchain + ".token" and rem in (msgchain + ".remote", "None"), fi, w,
                   detail="components: %s, %s" % (tok, rem))
            if rem == "None":
                nid = cfg.loc1(w)
                gs = guard_exprs(cfg, nid)
                ok = any(pol and _component(fi, e) == msgchain + ".remote.is_multicast" for e, pol in gs)
                ctx.ob("the remote is left out of the key only for multicast destinations", ok, fi, w)
        ctx.ob("what is registered is the request object handed in", isinstance(st.value, ast.Name) and st.value.id == rq, fi, st)
    fi = ctx.prog.func(TM + "process_response")
    rs = params(fi)[0]
    lookups = [n for n in walk_no_nested(fi.node) if isinstance(n, ast.Subscript) and chain(n.value) == "self.outgoing_requests" and isinstance(n.ctx, ast.Load)]
    ctx.floor("lookups in process_response()", len(lookups), 1)
    for lk in lookups:
        key = lk.slice
        cands = [(lk, key)] if not isinstance(key, ast.Name) else _key_values(fi, key.id)
        n_full = 0
        for w, v in cands:
            b = match("($t, $r)", v) if v is not None else None
            tok = _component(fi, b["t"]) if b else None
            rem = _component(fi, b["r"]) if b else None
            ok = b is not None and tok == rs + ".token" and rem in (rs + ".remote", "None")
            if rem == rs + ".remote":
                n_full += 1
            ctx.ob("lookup key is (response token, response remote) or the multicast fall-back (token, None)", ok, fi, w, detail="components: %s, %s" % (tok, rem))
            if rem == "None":
                cfg = cfg_of(fi)
                nid = cfg.loc1(w)
                ok2 = any(not pol and isinstance(e, ast.Compare) and isinstance(e.ops[0], ast.In) and chain(e.comparators[0]) == "self.outgoing_requests" for e, pol in guard_exprs(cfg, nid)) or \
                    any(pol and isinstance(e, ast.Compare) and isinstance(e.ops[0], ast.NotIn) and chain(e.comparators[0]) == "self.outgoing_requests" for e, pol in guard_exprs(cfg, nid))
                ctx.ob("the fall-back key is used only when the full key is unknown", ok2, fi, w)
        ctx.ob("the full (token, remote) key is tried", n_full >= 1, fi, lk)


@R.clause("C02.b", "a response is delivered only to the request found by the lookup; an unsuccessful lookup returns False")
def b(ctx):
    fi = ctx.prog.func(TM + "process_response")
    cfg = cfg_of(fi)
    adds = [c for c in calls_in(fi.node) if isinstance(c.func, ast.Attribute) and c.func.attr == "add_response"]
    ctx.floor("add_response sites in process_response", len(adds), 1)
    ctx.ob("exactly one delivery site", len(adds) == 1, fi, adds[-1], detail=str(len(adds)))
    handlers = [n for n in cfg.nodes if n.kind == "handler"]
    for c in adds:
        nid = cfg.loc1(c)
        recv = c.func.value
        v = None
        if isinstance(recv, ast.Name):
            ws = writes_to_name(fi.node, recv.id)
            if len(ws) == 1 and isinstance(ws[0], ast.Assign):
                v = ws[0].value
        ok = v is not None and isinstance(v, ast.Subscript) and chain(v.value) == "self.outgoing_requests"
        ctx.ob("the receiver of the response is the object found under the key", ok, fi, c)
        ctx.ob("the response handed over is the incoming one", c.args and isinstance(c.args[0], ast.Name) and c.args[0].id == params(fi)[0], fi, c)
        for h in handlers:
            ctx.ob("no delivery after a failed lookup", nid not in cfg.reach({h.id}), fi, c)
    ctx.floor("KeyError handler in process_response", len(handlers), 1)
    for h in handlers:
        catches = h.ast.type is not None and ("KeyError" in ast.unparse(h.ast.type) or "LookupError" in ast.unparse(h.ast.type))
        rets = [n for n in cfg.reach({h.id}) if cfg.nodes[n].kind == "return"]
        false_only = bool(rets) and all(isinstance(cfg.nodes[n].ast.value, ast.Constant) and cfg.nodes[n].ast.value.value is False for n in rets)
        ctx.ob("an unknown (token, remote) makes process_response return False", catches and false_only and cfg.must_pass(h.id, rets), fi, h.ast, construct="except %s" % (ast.unparse(h.ast.type) if h.ast.type else ""))
    for c in adds:
        nid = cfg.loc1(c)
        rets = [n for n in cfg.reach({nid}) if cfg.nodes[n].kind == "return"]
        ok = bool(rets) and all(isinstance(cfg.nodes[n].ast.value, ast.Constant) and cfg.nodes[n].ast.value.value is True for n in rets) and cfg.must_pass(nid, rets)
        ctx.ob("a delivered response is reported as matched (True)", ok, fi, c)


@R.clause("C02.c", "outgoing_requests: written only by TokenManager; registration paired with removal on loss of interest; retired iff the response is final")
def c(ctx):
    w = field_writers(ctx.prog, "outgoing_requests")
    n = sum(len(v) for v in w.values())
    ctx.floor("write sites of outgoing_requests", n, 5)
    for fn, hits in sorted(w.items()):
        for kind, node in hits:
            fi = ctx.prog.funcs["aiocoap." + fn]
            ctx.ob("outgoing_requests is written only inside TokenManager", fn.startswith(TM) or fn.startswith("tokenmanager.TokenManager"), fi, node, detail="%s in %s" % (kind, fn))
    ctl = ast.parse("def f(x):\n    x.outgoing_requests.pop(k)\n").body[0]
    ctx.need(len(stores_to_any(ctl, "outgoing_requests")) == 1, "positive control for the writer scan failed")
    fi = ctx.prog.func(TM + "request")
    rq = params(fi)[0]
    cfg = cfg_of(fi)
    for k, st in [(k, n) for k, n in stores_to(fi.node, "self.outgoing_requests", nested=False) if k == "setitem"]:
        nid = cfg.loc1(st)
        key = st.targets[0].slice
        regs = []
        for call, bnd in find("%s.on_interest_end($cb)" % rq, fi.node):
            pb = match("functools.partial(self.outgoing_requests.pop, $k, $*r)", bnd["cb"])
            if pb is None and isinstance(bnd["cb"], ast.Lambda):
                pb = match("self.outgoing_requests.pop($k, $*r)", bnd["cb"].body)
            if pb is not None and same(pb["k"], key):
                regs.append(cfg.loc1(call))
                # a missing key must be tolerated (the response path pops first)
                ctx.ob("the removal on loss of interest tolerates an already retired key", len(pb["r"]) >= 1, fi, call)
        ctx.ob("every registration is paired with a removal of the same key when interest ends", bool(regs) and cfg.must_pass(nid, regs), fi, st)
    fi = ctx.prog.func(TM + "process_response")
    rs = params(fi)[0]
    cfg = cfg_of(fi)
    pops = [(k, n) for k, n in stores_to(fi.node, "self.outgoing_requests", nested=False) if k in ("pop", "delitem")]
    adds = [c for c in calls_in(fi.node) if isinstance(c.func, ast.Attribute) and c.func.attr == "add_response"]
    ctx.need(adds, "process_response: no add_response site")
    # Decided on the path model: on every normal path that delivers the response, the value passed as
    # is_last, the reference condition `not (request asked to observe and response carries Observe)` and
    # "the registration was removed on this path" all agree.  Independent of how the branches are spelled.
    from ..paths import PathModel
    pm = PathModel(fi)
    popnodes = {cfg.loc1(p_) for _k, p_ in pops}
    look = [n for n in walk_no_nested(fi.node) if isinstance(n, ast.Subscript) and chain(n.value) == "self.outgoing_requests" and isinstance(n.ctx, ast.Load)]
    for c_ in adds:
        il = next((kw.value for kw in c_.keywords if kw.arg == "is_last"), None)
        ctx.need(il is not None, "add_response without is_last keyword")
        fin = resolve_local(fi.node, il)
        recv = c_.func.value
        rname = recv.id if isinstance(recv, ast.Name) else "?"
        ref = ast.parse("not (%s.request.opt.observe == 0 and %s.opt.observe is not None)" % (rname, rs), mode="eval").body
        dn = cfg.loc1(c_)
        through = pm.paths_through(dn)
        ctx.need(through, "process_response: delivery site on no normal path")
        bad_ref = bad_pop = None
        for p_ in through:
            v = pm.truth(fin, p_)
            r = pm.truth(ref, p_)
            popped = any(n in popnodes for n in p_.nodes)
            if (v is None or r is None or v != r) and bad_ref is None:
                bad_ref = "on the path [%s]: is_last is %s, the reference condition is %s" % (pm.describe(p_), v, r)
            if (v is None or popped != v) and bad_pop is None:
                bad_pop = "on the path [%s]: is_last is %s, registration %s" % (pm.describe(p_), v, "removed" if popped else "kept")
        ctx.ob("final = not (request asked to observe and the response carries an Observe option)", bad_ref is None, fi, c_, detail=bad_ref or "is_last = %s on %d path(s)" % (stmt_text(fin), len(through)))
        ctx.ob("the registration is retired exactly when the response is final", bad_pop is None, fi, c_, detail=bad_pop)
    for k, p_ in pops:
        keyv = p_.args[0] if k == "pop" else p_.targets[0].slice
        ctx.ob("the retired key is the key that matched", any(same(keyv, l.slice) for l in look) or any(same(resolve_local(fi.node, keyv), resolve_local(fi.node, l.slice)) for l in look), fi, p_)


@R.clause("C02.d", "tokens: 64-bit counter advanced only by next_token, injective rendering, assigned before the key is formed")
def d(ctx):
    w = field_writers(ctx.prog, "_token", modules={"aiocoap.tokenmanager"})
    for fn, hits in sorted(w.items()):
        for kind, node in hits:
            fi = ctx.prog.funcs["aiocoap." + fn]
            ctx.ob("the token counter is written only by __init__ and next_token", fn in (TM + "__init__", TM + "next_token"), fi, node)
    fi = ctx.prog.func(TM + "next_token")
    ups = [n for k, n in stores_to(fi.node, "self._token", nested=False) if k == "assign"]
    ctx.floor("counter updates in next_token", len(ups), 1)
    N = Normalizer()
    for u in ups:
        if isinstance(u, ast.AugAssign):
            val = ast.BinOp(left=u.target, op=u.op, right=u.value)
        else:
            val = u.value
        mb = match("$x % $m", val)
        ok = False
        detail = stmt_text(val)
        if mb is not None:
            try:
                ok = N.poly(mb["x"]) == Poly.atom("self._token") + Poly.const(1) and N.poly(mb["m"]) == Poly.const(2 ** 64)
            except norm.NormError:
                ok = False
        else:
            mb2 = match("$x & $m", val)
            if mb2 is not None:
                try:
                    ok = N.poly(mb2["x"]) == Poly.atom("self._token") + Poly.const(1) and N.poly(mb2["m"]) == Poly.const(2 ** 64 - 1)
                except norm.NormError:
                    ok = False
        ctx.ob("the counter advances by exactly one modulo 2**64 (2**64 distinct tokens before a repeat)", ok, fi, u, detail=detail)
    rets = [n for n in walk_no_nested(fi.node) if isinstance(n, ast.Return)]
    ctx.floor("returns in next_token", len(rets), 1)
    cfg = cfg_of(fi)
    for r in rets:
        v = r.value
        okr = match("self._token.to_bytes(8, 'big').lstrip(b'\\x00')", v) is not None or match("self._token.to_bytes(8, 'big')", v) is not None
        ctx.ob("the token is an injective rendering of the counter (8-byte big endian, leading zeros stripped)", okr, fi, r)
        ctx.ob("the counter is advanced before the token is handed out", any(cfg.dominates(cfg.loc1(u), cfg.loc1(r)) for u in ups), fi, r)
    fi = ctx.prog.func(TM + "request")
    rq = params(fi)[0]
    cfg = cfg_of(fi)
    tok_stores = []
    for n in walk_no_nested(fi.node):
        if isinstance(n, ast.Assign):
            for t in n.targets:
                if isinstance(t, ast.Attribute) and t.attr == "token" and _component(fi, t) == rq + ".request.token":
                    tok_stores.append(n)
    ctx.floor("token assignments in request()", len(tok_stores), 1)
    ctx.ob("exactly one token assignment", len(tok_stores) == 1, fi, tok_stores[-1])
    for s in tok_stores:
        ctx.ob("the request's token is a fresh one from next_token()", match("self.next_token()", s.value) is not None, fi, s)
        for k, st in [(k, n) for k, n in stores_to(fi.node, "self.outgoing_requests", nested=False) if k == "setitem"]:
            ctx.ob("the token is assigned before the request is registered", cfg.dominates(cfg.loc1(s), cfg.loc1(st)), fi, st)
            key = st.targets[0].slice
            if isinstance(key, ast.Name):
                for w, v in _key_values(fi, key.id):
                    ctx.ob("the token is assigned before the key is formed", cfg.dominates(cfg.loc1(s), cfg.loc1(w)), fi, w)


@R.clause("C02.e", "transport errors are fanned out only to requests of the reported remote, always as NetworkError")
def e(ctx):
    fi = ctx.prog.func(TM + "dispatch_error")
    p = params(fi)
    exc, rem = p[0], p[1]
    cfg = cfg_of(fi)
    # sites where something is added to a collection of stoppers: `l.append(x)` inside a loop, or
    # `l.extend(<comprehension>)` (the comprehension's ifs play the role of the guards)
    apps = []  # (call node, [(cond, polarity)], names bound per element, element expr)
    for c, b in find("$l.append($x)", fi.node):
        if isinstance(b["l"], ast.Name):
            apps.append((c, guard_exprs(cfg, cfg.loc1(c)), None, b["x"]))
    for c, b in find("$l.extend($g)", fi.node):
        g = b["g"]
        if isinstance(b["l"], ast.Name) and isinstance(g, (ast.GeneratorExp, ast.ListComp)):
            conds = [(e_, True) for gen in g.generators for e_ in gen.ifs]
            bound = {n.id for gen in g.generators for n in ast.walk(gen.target) if isinstance(n, ast.Name)}
            apps.append((c, conds + guard_exprs(cfg, cfg.loc1(c)), bound, g.elt))
    ctx.ob("stoppers are collected for outgoing and for incoming requests", len(apps) >= 2, fi, fi.node, construct="def dispatch_error: stopper collection", detail="%d collection site(s)" % len(apps))
    for c, gs, bound, elt in apps:
        ok = False
        for e_, pol in gs:
            if pol and isinstance(e_, ast.Compare) and len(e_.ops) == 1 and isinstance(e_.ops[0], ast.Eq):
                sides = [e_.left, e_.comparators[0]]
                if any(isinstance(s_, ast.Name) and s_.id == rem for s_ in sides) and any(isinstance(s_, ast.Name) and s_.id != rem for s_ in sides):
                    other = [s_ for s_ in sides if not (isinstance(s_, ast.Name) and s_.id == rem)][0]
                    # the other side must be bound to the *remote component* (index 1) of the iterated table's key
                    ok = _is_remote_component(fi, cfg, c, other.id)
        ctx.ob("a request is failed only if its remote equals the reported remote", ok, fi, c, detail="conditions: %s" % [stmt_text(e_) for e_, _ in gs])
        # late binding: a closure created per iteration must not refer to the loop's variables by reference
        for lam in [n for n in ast.walk(elt) if isinstance(n, ast.Lambda)] + ([_nested_def(fi, elt)] if isinstance(elt, ast.Name) and _nested_def(fi, elt) is not None else []):
            loopnames = _loop_bound_names(cfg, c) if bound is None else set(bound)
            a_ = lam.args
            own = {x.arg for x in a_.posonlyargs + a_.args + a_.kwonlyargs}
            body = lam.body if isinstance(lam, ast.Lambda) else lam
            free = {n.id for n in ast.walk(body) if isinstance(n, ast.Name) and isinstance(n.ctx, ast.Load)} - own
            late = sorted(free & loopnames)
            ctx.ob("each stopper acts on its own request (loop variables are bound per iteration, not captured by reference)", not late, fi, c,
                   detail="closure refers to loop variable(s) %s by reference: every stopper would act on the last request iterated" % late if late else None)
    # the loop-collected stoppers are all called
    calls_stop = []
    for n in walk_no_nested(fi.node):
        if isinstance(n, ast.For) and isinstance(n.target, ast.Name):
            for c in calls_in(n):
                if isinstance(c.func, ast.Name) and c.func.id == n.target.id and any(isinstance(a[0].func, ast.Attribute) and chain(a[0].func.value) == chain(n.iter) for a in apps):
                    calls_stop.append(c)
    ctx.ob("every collected stopper is invoked", bool(calls_stop), fi, fi.node, construct="def dispatch_error")
    # NetworkError conversion
    conv = [n for n in walk_no_nested(fi.node) if isinstance(n, ast.Assign) and any(isinstance(t, ast.Name) and t.id == exc for t in n.targets)]
    okc = False
    for a_ in conv:
        cls = ctx.prog.resolve_in_module(fi.module, chain(a_.value.func) or "?") if isinstance(a_.value, ast.Call) else None
        nid = cfg.loc1(a_)
        if cls and ctx.prog.is_subclass(cls, "aiocoap.error.NetworkError") and guarded_by(cfg, nid, "isinstance(%s, error.NetworkError)" % exc, False):
            okc = True
    ctx.ob("an exception that is not a NetworkError is replaced by a NetworkError before it is handed to requests", okc, fi, conv[0] if conv else fi.node,
           construct=stmt_text(conv[0]) if conv else "def dispatch_error")
    # every use of the exception in a stopper happens after the conversion point
    for c, _gs, _b, _e in apps:
        if conv:
            ctx.ob("stoppers are created after the conversion", all(not cfg.exists_path(cfg.entry, cfg.loc1(c), avoid={n.id for n in cfg.nodes if n.kind in ("T", "F") and n.ast is not None and match("isinstance(%s, error.NetworkError)" % exc, n.ast) is not None}) for _ in [0]), fi, c)
    ci = ctx.prog.cls("error.NetworkError")
    ctx.ob("NetworkError derives from the library's error base class", ctx.prog.is_subclass(ci.qn, "aiocoap.error.Error"), None, None, construct="class NetworkError")


def _target_path(target, name):
    """Index path of Name `name` inside a (nested) tuple target, or None."""
    if isinstance(target, ast.Name):
        return () if target.id == name else None
    if isinstance(target, (ast.Tuple, ast.List)):
        for i, e in enumerate(target.elts):
            p = _target_path(e, name)
            if p is not None:
                return (i,) + p
    return None


def _is_remote_component(fi, cfg, node, name):
    """Is `name` bound to component 1 (the remote; keys are (token, remote), C02.a) of the key of the request
    table iterated by the for loop / comprehension enclosing `node`?"""
    p = cfg.parent.get(id(node))
    scopes = []
    # comprehension inside the call itself
    for n in ast.walk(node):
        if isinstance(n, (ast.GeneratorExp, ast.ListComp)):
            for g in n.generators:
                scopes.append((g.target, g.iter, None))
    while p is not None:
        if isinstance(p, (ast.For, ast.AsyncFor)):
            scopes.append((p.target, p.iter, p))
        p = cfg.parent.get(id(p))
    for target, it, loop in scopes:
        mode = None
        if isinstance(it, ast.Call) and isinstance(it.func, ast.Attribute) and it.func.attr in ("items", "keys") and (chain(it.func.value) or "").endswith("_requests"):
            mode = it.func.attr
        elif (chain(it) or "").endswith("_requests"):
            mode = "keys"
        if mode is None:
            continue
        keypath = (0,) if mode == "items" else ()
        path = _target_path(target, name)
        if path is not None:
            return path == keypath + (1,)
        # bound by unpacking the key variable inside the loop body: (a, b) = key
        if loop is not None:
            for w in writes_to_name(loop, name):
                if isinstance(w, ast.Assign) and isinstance(w.value, ast.Name) and _target_path(target, w.value.id) == keypath:
                    return _target_path(w.targets[0], name) == (1,)
    return False


def _loop_bound_names(cfg, node):
    """Names (re)bound on every iteration of the for loops enclosing node."""
    out = set()
    p = cfg.parent.get(id(node))
    while p is not None:
        if isinstance(p, (ast.For, ast.AsyncFor)):
            out |= {n.id for n in ast.walk(p.target) if isinstance(n, ast.Name)}
            for st in p.body:
                for n in ast.walk(st):
                    if isinstance(n, ast.Name) and isinstance(n.ctx, ast.Store):
                        out.add(n.id)
        p = cfg.parent.get(id(p))
    return out


def _nested_def(fi, name_node):
    for n in walk_no_nested(fi.node):
        if isinstance(n, (ast.FunctionDef, ast.AsyncFunctionDef)) and n.name == name_node.id:
            return n
    return None


def _bound_by_enclosing_for(fi, cfg, node, name):
    """Is `name` bound (directly or by unpacking) from the target of a for loop enclosing `node`?"""
    p = cfg.parent.get(id(node))
    while p is not None:
        if isinstance(p, ast.For):
            tnames = {n.id for n in ast.walk(p.target) if isinstance(n, ast.Name)}
            if name in tnames:
                return True
            for w in writes_to_name(p, name):
                if isinstance(w, ast.Assign) and any(isinstance(x, ast.Name) and x.id in tnames for x in ast.walk(w.value)):
                    return True
        p = cfg.parent.get(id(p))
    return False


@R.clause("C02.f", "Request._run completes the response future exactly once, before its first suspension after the first event, and never again")
def f(ctx):
    fi = ctx.prog.func("protocol.Request._run")
    cfg = cfg_of(fi)
    setters = [c for c in calls_in(fi.node) if isinstance(c.func, ast.Attribute) and c.func.attr in ("set_result", "set_exception") and chain(c.func.value) == "self.response"]
    ctx.floor("completions of self.response in Request._run", len(setters), 1)
    S = {cfg.loc1(c) for c in setters}
    yields = []
    for n in walk_no_nested(fi.node):
        if isinstance(n, ast.Yield):
            yields.append(cfg.loc1(n))
    ctx.floor("suspension points in Request._run", len(yields), 2)
    first = min(yields)
    ctx.ob("the first statement reached is the suspension that receives the first event", cfg.dominates(first, next(iter(S))) and all(cfg.dominates(first, y) for y in yields), fi, cfg.nodes[first].ast)
    later = [y for y in yields if y != first]
    for y in later:
        ctx.ob("the future is completed before the generator suspends again", not cfg.exists_path(first, y, avoid=S), fi, cfg.nodes[y].ast)
    ctx.ob("the future is completed before the generator ends", cfg.must_pass(first, S), fi, fi.node, construct="def _run")
    for s in setters:
        sn = cfg.loc1(s)
        ctx.ob("the future is never completed a second time", not (cfg.reach({sn}) & S), fi, s)
    # what is set: the event's message or the event's exception
    for s in setters:
        a0 = s.args[0] if s.args else None
        ch = chain(a0) or ""
        ok = ch.endswith(".message") if s.func.attr == "set_result" else ch.endswith(".exception")
        ctx.ob("the future receives the first event's message resp. exception", ok, fi, s)
        nid = cfg.loc1(s)
        ev = ch.rsplit(".", 1)[0]
        if s.func.attr == "set_result":
            ctx.ob("a result is set only when the event carries a message", guarded_by(cfg, nid, "%s.message is not None" % ev, True), fi, s)
        else:
            ctx.ob("an exception is set only when the event carries no message", guarded_by(cfg, nid, "%s.message is not None" % ev, False) or guarded_by(cfg, nid, "%s.exception is not None" % ev, True), fi, s)


def j_forward(ctx):
    """MessageManager.dispatch_error hands every reported error on to the token manager (for the same remote),
    whatever the state of the exchange tables -- except after shutdown."""
    fi = ctx.prog.func("messagemanager.MessageManager.dispatch_error")
    p = params(fi)
    cfg = cfg_of(fi)
    fw = [c for c, b in find("self.token_manager.dispatch_error($e, $r)", fi.node) if isinstance(b["e"], ast.Name) and b["e"].id == p[0] and isinstance(b["r"], ast.Name) and b["r"].id == p[1]]
    ctx.ob("MessageManager.dispatch_error forwards the error and the remote to the token manager", len(fw) >= 1, fi, fi.node, construct="MessageManager.dispatch_error: forward to the token manager")
    if not fw:
        return
    # the only way past the forward is the retired-table (shutdown) guard
    shut = {n.id for n in cfg.nodes if (n.kind == "T" and match("self._active_exchanges is None", n.ast) is not None) or (n.kind == "F" and match("self._active_exchanges is not None", n.ast) is not None)}
    ok = cfg.must_pass(cfg.entry, {cfg.loc1(c) for c in fw} | shut)
    ctx.ob("every reported transport error reaches the token manager (requests without an open exchange -- NON, separate response pending, observations -- fail too)", ok, fi, fw[0])


@R.clause("C02.j", "a transport error reported for a remote always reaches the token manager")
def j(ctx):
    j_forward(ctx)


@R.clause("C02.i", "requests queued behind an exchange complete too: the backlog invariant and 'none forgotten' of the message layer (shared with C14.a/C14.f)")
def i_shared(ctx):
    """A request whose CON is held back (NSTART=1) completes only if the message layer keeps the invariant
    `backlog entry <=> active exchange` and fails the queued requests when it drops a backlog.  An independently
    written breaking change (give-up arm of _retransmit no longer deleting the backlog entry) made the *next*
    request to that remote end in a bare AssertionError / hang.  The obligations are those of C14.a and C14.f."""
    from . import c14
    c14.a(ctx)
    c14.f(ctx)


@R.clause("C02.h", "endpoint identity: __eq__ and __hash__ use the same projection of the socket address, keeping address and port")
def h(ctx):
    eq = ctx.prog.func("transports.udp6.UDP6EndpointAddress.__eq__")
    hs = ctx.prog.func("transports.udp6.UDP6EndpointAddress.__hash__")
    other = params(eq)[0]
    req = [n for n in walk_no_nested(eq.node) if isinstance(n, ast.Return)]
    rhs = [n for n in walk_no_nested(hs.node) if isinstance(n, ast.Return)]
    ctx.need(len(req) == 1 and len(rhs) == 1, "__eq__/__hash__ are not single-return")
    b = match("self.sockaddr[$s] == %s.sockaddr[$s]" % other, req[0].value) or match("%s.sockaddr[$s] == self.sockaddr[$s]" % other, req[0].value)
    ctx.ob("__eq__ compares the same projection of sockaddr on both operands", b is not None, eq, req[0])
    hb = match("hash(self.sockaddr[$s])", rhs[0].value)
    ctx.ob("__hash__ hashes a projection of sockaddr", hb is not None, hs, rhs[0])
    if b is not None and hb is not None:
        ctx.ob("__eq__ and __hash__ use the same projection", same(b["s"], hb["s"]), hs, rhs[0])

        def keeps01(s):
            if isinstance(s, ast.Slice):
                lo = s.lower
                up = s.upper
                lo_ok = lo is None or (isinstance(lo, ast.Constant) and lo.value == 0)
                upv = None
                if up is not None:
                    try:
                        upv = norm.consteval(up)
                    except norm.NormError:
                        return False
                up_ok = up is None or upv in (2, 3, 4, -1, -2)
                return lo_ok and up_ok and s.step is None
            return False
        ctx.ob("the projection keeps address and port (indices 0 and 1)", keeps01(b["s"]), eq, req[0], detail="slice %s" % ast.unparse(b["s"]))


@R.clause("C02.h", "sibling sweep: every endpoint-address class in the transports that defines __eq__ or __hash__ defines both over the same projection", tier="thorough")
def h_thorough(ctx):
    n = 0
    for ci in ctx.prog.classes.values():
        if not ci.module.name.startswith("aiocoap.transports"):
            continue
        has_eq, has_hash = "__eq__" in ci.methods, "__hash__" in ci.methods
        if not (has_eq or has_hash):
            continue
        n += 1
        if not ctx.ob("%s defines both __eq__ and __hash__" % ci.qn.split(".")[-1], has_eq and has_hash, ci.methods.get("__eq__") or ci.methods.get("__hash__"), (ci.methods.get("__eq__") or ci.methods.get("__hash__")).node, construct="class %s: __eq__/__hash__" % ci.qn.split(".")[-1]):
            continue
        eq, hs = ci.methods["__eq__"], ci.methods["__hash__"]
        other = params(eq)[0]
        re_ = [x for x in walk_no_nested(eq.node) if isinstance(x, ast.Return)]
        rh = [x for x in walk_no_nested(hs.node) if isinstance(x, ast.Return)]
        ok = False
        if len(re_) == 1 and len(rh) == 1:
            hb = match("hash($p)", rh[0].value)
            if hb is not None and isinstance(re_[0].value, ast.Compare) and len(re_[0].value.ops) == 1 and isinstance(re_[0].value.ops[0], ast.Eq):
                l, r = re_[0].value.left, re_[0].value.comparators[0]
                proj = dump(hb["p"])
                swap = lambda e: dump(e).replace("Name(id=%r)" % other, "Name(id='self')")
                ok = {dump(l), swap(r)} == {proj} or {swap(l), dump(r)} == {proj}
        ctx.ob("%s: __eq__ compares exactly what __hash__ hashes" % ci.qn.split(".")[-1], ok, eq, re_[0] if re_ else eq.node)
    ctx.floor("endpoint-address classes with identity methods", n, 2)


F_TM = "aiocoap/tokenmanager.py"
R.seed("C02.j", "aiocoap/messagemanager.py", "        self.log.debug(\"Incoming error %s from %r\", error, remote)\n", "        self.log.debug(\"Incoming error %s from %r\", error, remote)\n        if remote not in self._backlogs:\n            return\n", "errors for remotes without an open exchange are dropped: NON requests and observations never fail")
R.seed("C02.i", "aiocoap/messagemanager.py", "            del self._backlogs[message.remote]\n            self.token_manager.dispatch_error(", "            self.token_manager.dispatch_error(", "stale backlog entry after a timeout: the next request to that remote never completes with a library error")
R.seed("C02.a", F_TM, "            key = (msg.token, msg.remote)\n", "            key = (msg.token, None)\n", "remote dropped on the unicast arm")
R.seed("C02.a", F_TM, "        key = (response.token, response.remote)\n        if key not in self.outgoing_requests:", "        key = (response.token, None)\n        if key not in self.outgoing_requests:", "lookup ignores the remote")
R.seed("C02.a", F_TM, "            # maybe it was a multicast...\n            key = (response.token, None)", "            # maybe it was a multicast...\n            key = (None, response.remote)", "fall-back ignores the token")
R.seed("C02.b", F_TM, "            self.log.info(\"Response %r could not be matched to any request\", response)\n            return False", "            self.log.info(\"Response %r could not be matched to any request\", response)\n            return True", "unknown token acknowledged")
R.seed("C02.c", F_TM, "        if final:\n            self.outgoing_requests.pop(key)\n", "        self.outgoing_requests.pop(key)\n", "observation token retired after first notification")
R.seed("C02.c", F_TM, "        if final:\n            self.outgoing_requests.pop(key)\n", "", "token never retired")
R.seed("C02.c", F_TM, "            request.request.opt.observe == 0 and response.opt.observe is not None", "            request.request.opt.observe is not None and response.opt.observe is not None", "deregistration keeps the token")
R.seed("C02.c", F_TM, "        request.add_response(response, is_last=final)", "        request.add_response(response, is_last=True)", "is_last constant")
R.seed("C02.c", F_TM, "        request.on_interest_end(\n            functools.partial(self.outgoing_requests.pop, key, None)\n        )\n", "", "cancelled request stays registered")
R.seed("C02.c", "aiocoap/messagemanager.py", "        self.log.debug(\"Incoming error %s from %r\", error, remote)\n", "        self.log.debug(\"Incoming error %s from %r\", error, remote)\n        self.token_manager.outgoing_requests.clear()\n", "foreign writer")
R.seed("C02.d", F_TM, "        self._token = (self._token + 1) % (2**64)", "        self._token = (self._token + 0) % (2**64)", "token never changes")
R.seed("C02.d", F_TM, "        self._token = (self._token + 1) % (2**64)", "        self._token = (self._token + 1) % (2**4)", "16 tokens only")
R.seed("C02.d", F_TM, "        return self._token.to_bytes(8, \"big\").lstrip(b\"\\0\")", "        return self._token.to_bytes(8, \"big\")[:1]", "non-injective rendering")
R.seed("C02.e", F_TM, "            if request_remote == remote:\n                stoppers.append(", "            if True:\n                stoppers.append(", "all remotes failed")
R.seed("C02.e", F_TM, "        if not isinstance(exception, error.NetworkError):\n            cause = exception\n            exception = error.NetworkError(str(exception))\n            exception.__cause__ = cause\n", "", "raw OSError handed to the application")
R.seed("C02.e", F_TM, "                    lambda request=request, exception=exception: request.add_exception(\n                        exception\n                    )", "                    lambda: request.add_exception(\n                        exception\n                    )", "late-binding closure: only the last request is failed")
R.seed("C02.e", F_TM, "        for (_, _r), (_, stopper) in self.incoming_requests.items():\n            if remote == _r:\n                stoppers.append(stopper)", "        stoppers.extend(stopper for (_, stopper) in self.incoming_requests.values())", "incoming requests of all remotes stopped")
R.seed("C02.e", F_TM, "        for (_, _r), (_, stopper) in self.incoming_requests.items():\n            if remote == _r:", "        for (_r, _), (_, stopper) in self.incoming_requests.items():\n            if remote == _r:", "compares the token component with the remote: nothing is ever stopped")
R.seed("C02.f", "aiocoap/protocol.py", "        if self.observation is None:\n            if not first_event.is_last:", "        if self.observation is None:\n            self.response.set_result(first_event.message)\n            if not first_event.is_last:", "second completion")
R.seed("C02.f", "aiocoap/protocol.py", "            self.response.set_exception(first_event.exception)\n            if not isinstance(first_event.exception, error.Error):", "            if not isinstance(first_event.exception, error.Error):", "error event leaves the future pending")
R.seed("C02.h", "aiocoap/transports/udp6.py", "        return self.sockaddr[:-1] == other.sockaddr[:-1]", "        return self.sockaddr[:1] == other.sockaddr[:1]", "port ignored")
R.seed("C02.h", "aiocoap/transports/udp6.py", "        return hash(self.sockaddr[:-1])", "        return hash(self.sockaddr)", "hash and eq disagree")
