"""C02 A response reaches exactly the request it answers; every request completes once."""

import ast

from ..rulekit import *
from ..norm import Normalizer, Poly
from . import _kit_c02 as kit
from ..model import BUILTIN_EXC

R = Rules(
    "C02",
    explanation=(
        "Clauses of response matching decided on tokenmanager.py, protocol.Request and udp6.  a-e are decided by running "
        "TokenManager.request / process_response / next_token / dispatch_error in the checker's own evaluator (tree-walking "
        "interpreter over the syntax trees as written, before helper expansion, so that calls, closures, defaults and "
        "functools.partial bind exactly as in Python; nothing of the repository is executed) on small worlds -- finite request tables "
        "keyed by tuples of distinct individuals, concrete Observe / is_multicast values, opaque request objects whose calls "
        "are recorded -- and comparing events, final tables and return values with the property: the request is filed under "
        "(token, remote), remote = None exactly for multicast destinations; a response goes exactly once to the entry under "
        "(token, remote), else to the one under (token, None), never to an entry that differs in token or remote; no entry -> "
        "falsy return and no delivery (the message layer turns that into a Reset, C10); outgoing_requests is written only by "
        "TokenManager; the entry disappears when interest ends (also when it ended before the registration) under the same key, "
        "tolerantly; it is retired exactly when the response is final (final = not(request asked to observe and response "
        "carries Observe)); tokens come from a 64-bit counter that only next_token advances by one, rendered without "
        "collisions, drawn before the key is formed; transport errors fail exactly the requests of the reported remote, each "
        "once, always with a NetworkError; the generator Request._run completes the response future exactly once before its "
        "first suspension and never again; endpoint equality and hash use the same projection of the socket address that keeps "
        "address and port.  Three clauses follow the response / the failure outside the token manager, each on small worlds of the same "
        "evaluator (extended by coroutines, single-step async generators, evaluated constructors, struct, contextvars and loop callbacks): "
        "Message.decode accepts every version-1 datagram with a legal token length (0..8) and hands on token, message ID, type and remote "
        "unchanged (C02.k); whatever the route-checked resolver does on the single step its consumer takes -- raise, or end without an "
        "address, which is StopAsyncIteration there -- is converted into a library error by the handlers around that step (C02.l); an "
        "OSError of the socket's sendmsg is dispatched with the remote of the failing datagram whichever way the transport calls "
        "error_received (at once or through the loop, which captures the context) and whichever way the interface records the destination "
        "(attribute or context variable), and an error reported while nothing is sent names no remote (C02.m); the pipe's own statements behind "
        "add_exception / add_response (live and ended arm; escape analysis, a logging call with a keyword logging does not take counts as "
        "TypeError; registered callbacks are application code) raise nothing into the reporter, or dispatch_error still fails every other "
        "request of the remote when one add_exception raises (C02.n); the task Context.request spawns to bring a request to its interface is spawned on the loop and "
        "nobody in the package holds it in a way that lets a cancel() reach it (all uses of the spawning call's value and of every attribute it is kept in "
        "are classified; CancelledError passes the coroutine's `except Exception`, so a cancelled carrier leaves the response future pending) (C02.o).  "
        "C02.d runs a token source that takes arguments on the calls request() really makes and on empty / foreign / same-remote request tables: every draw "
        "advances the counter and two successive draws differ, whatever the source looks at.  Completion under "
        "arbitrary loss/duplication/reordering schedules is not decided."
    ),
    rule_text="small-scope evaluation of the token manager's methods against behavioural reference outcomes; ownership over the whole package; exactly-once path rules; normal forms",
)

TM = "tokenmanager.TokenManager."

# ---------------------------------------------------------------------------------------------------------------
# Clauses a-e are decided on *small worlds* (rules/_kit_c02.py): request(), process_response(), next_token() and
# dispatch_error() are run in the checker's own evaluator on finite request tables whose keys are tuples of
# distinct individuals, and the rule compares what happened (calls on the request objects, final table contents,
# return value) with what the property demands.  A refuted obligation is backed by a concrete world, so the
# verdict does not depend on how the function is spelled: helper methods (whether or not the engine expanded
# them), early returns, try/except KeyError vs. .get()/membership, conditional expressions, comprehensions,
# functools.partial / lambda / nested def, pop vs. del all behave the same.  Calls of methods of the confirmed
# tree (coaplint/baseline_functions.txt, e.g. next_token) and calls on foreign objects are opaque events; methods
# that are not part of the confirmed tree are helpers and are evaluated.  Anything outside the evaluator's
# vocabulary is an analysis error, never a violation.
#
# The worlds are evaluated on the sources AS WRITTEN (kit.raw_program), not on the engine's canonical form: an
# interpreter needs no canonical form, and helper expansion is not exact where binding time matters -- it
# substitutes the argument of a closure factory into the closure it returns (`[failing(request) for ...]` with
# `def failing(request): return lambda: request.add_exception(e)` becomes `[lambda: request.add_exception(e) for
# ...]`), turning a per-call binding into a reference to the loop variable.  In the evaluator every call creates a
# fresh frame and every lambda / nested def captures the frame it was created in (a comprehension has ONE frame for
# all its iterations, a `for` loop assigns in the enclosing frame), which gives each binding idiom its Python
# meaning: bound per callable are closure factories (nested def, method, module function, immediately applied
# lambda), functools.partial, default arguments, bound methods, operator.methodcaller, instances of a small
# callable class; bound late (and reported by C02.e on a world with two requests of the remote) are a lambda / def
# in a loop or comprehension that refers to the loop variable, a factory that ignores its parameter, a default or a
# partial that binds something else than the request.


class _Verdicts:
    """Aggregates one obligation per description over all worlds; the first refuting world is reported."""

    def __init__(self, ctx, fi):
        self.ctx = ctx
        self.fi = fi
        self.items = {}
        self.order = []

    def check(self, desc, ok, node=None, detail=None, run=None):
        if not ok and run is not None and run.it.choices:
            # the refuting run branched on something the world does not model (an unset attribute, the result of an
            # opaque call): it may be correlated with the modelled facts, so the run is no counterexample
            raise AnalysisError("%s: the evaluated world does not determine the outcome: `%s` depends on %s" % (
                self.fi.short, desc, ", ".join(sorted(run.it.facts))[:300]))
        if not ok and run is not None and run.it.blind:
            # the refuting run called a value the world knows nothing about (a callable obtained from a library the
            # evaluator does not model): the missing effect may be exactly what that call does
            raise AnalysisError("%s: the evaluated world does not determine the outcome: `%s` after calling the unmodelled %s" % (
                self.fi.short, desc, ", ".join(sorted(set(run.it.blind)))[:300]))
        if desc not in self.items:
            self.items[desc] = [0, None, node]
            self.order.append(desc)
        it = self.items[desc]
        it[0] += 1
        if it[2] is None and node is not None:
            it[2] = node
        if not ok and it[1] is None:
            it[1] = (node, detail)
        return ok

    def emit(self):
        for desc in self.order:
            n, fail, anynode = self.items[desc]
            if fail is None:
                node = anynode
                self.ctx.ob(desc, True, self.fi, node if node is not None else self.fi.node, detail="%d world evaluation(s)" % n,
                            construct=None if node is not None else "def %s" % self.fi.node.name)
            else:
                node, detail = fail
                self.ctx.ob(desc, False, self.fi, node if node is not None else self.fi.node, detail=detail,
                            construct=None if node is not None else "def %s" % self.fi.node.name)


def _cached(ctx, key, build):
    cache = ctx.prog.__dict__.setdefault("_c02_worlds", {})
    if key not in cache:
        try:
            cache[key] = ("ok", build())
        except AnalysisError as e:
            cache[key] = ("err", e)
    kind, v = cache[key]
    if kind == "err":
        raise AnalysisError(str(v))
    return v


def _no_foreign_objects(ctx, it, what, tables=()):
    """The worlds file requests under plain tuples; a function that wraps keys or entries in objects of its own
    (a key class, a record) is outside what the worlds can represent: refuse instead of misjudging identity."""
    stored = []

    def reach(v, depth=0):
        if isinstance(v, kit.Obj):
            stored.append(v)
        elif isinstance(v, tuple) and depth < 4:
            for x in v:
                reach(x, depth + 1)
        elif isinstance(v, kit.VList) and depth < 4:
            for x in v.items:
                reach(x, depth + 1)
    for d in tables:
        for k, v in d.pairs:
            reach(k)
            reach(v)
    for ev in it.events:
        if ev.kind == "new" and not it.prog.is_subclass(ev.cls, "BaseException"):
            # instances of a plain new class whose methods were evaluated (a callable object used as a callback) are
            # exact as long as they stay out of the request tables
            if getattr(ev, "evaluated", False) and ev.obj not in stored:
                continue
            raise AnalysisError("%s constructs %s: outside the small worlds of the rule" % (what, ev.cls))


def _tm_qn(ctx):
    return ctx.prog.cls("tokenmanager.TokenManager").qn


def _world_prog(ctx):
    """The program the worlds are evaluated on: the sources as written (kit.raw_program explains why not the
    engine's canonical form)."""
    return kit.raw_program(ctx.prog)


def _anchor(ctx, prog, short):
    ctx.prog.touched.add("aiocoap." + short)
    return prog.func(short)


def _show_key(k):
    return "(%s)" % ", ".join("None" if x is None else getattr(x, "name", repr(x)) for x in k) if isinstance(k, tuple) else repr(k)


# -- process_response ------------------------------------------------------------------------------------------------

class _PRRun:
    pass


def _process_response_runs(ctx):
    """process_response on 4 tables x 3 request-Observe values x 3 response-Observe values.  The table always holds
    decoys that agree with the response in one component only."""
    def build():
        prog = _world_prog(ctx)
        fi = _anchor(ctx, prog, TM + "process_response")
        ps = params(fi)
        ctx.need(len(ps) == 1, "process_response: one parameter expected")
        qn = _tm_qn(ctx)
        runs = []
        for table in ("both", "full", "fallback", "none"):
            for ro in (None, 0, 1):
                for so in (None, 0, 7):
                    def run(script, table=table, ro=ro, so=so):
                        it = kit.Interp(prog, script)
                        T, T2 = kit.Obj("token", True), kit.Obj("other-token", True)
                        Rm, R2 = kit.Obj("remote", True), kit.Obj("other-remote", True)

                        def rq(name):
                            q = kit.Obj(name, True)
                            q.attrs["request"] = kit.Obj(name + ".request", True, attrs={"opt": kit.Obj(name + ".request.opt", True, attrs={"observe": ro})})
                            return q
                        pairs = [((T, R2), rq("decoy-other-remote"))]
                        if table in ("both", "fallback"):
                            pairs.append(((T, None), rq("request-filed-without-remote")))
                        pairs.append(((T2, Rm), rq("decoy-other-token")))
                        if table in ("both", "full"):
                            pairs.append(((T, Rm), rq("request-filed-under-token-and-remote")))
                        pairs.append(((T2, None), rq("decoy-other-token-without-remote")))
                        resp = kit.Obj("response", True, attrs={"token": T, "remote": Rm, "opt": kit.Obj("response.opt", True, attrs={"observe": so})})
                        D = kit.VDict(pairs, name="outgoing_requests")
                        me = kit.Obj("self", True, cls=qn, attrs={"outgoing_requests": D, "incoming_requests": kit.VDict((), name="incoming_requests")})
                        r = _PRRun()
                        r.table, r.ro, r.so, r.initial, r.D, r.resp = table, ro, so, [(k, v) for k, v in pairs], D, resp
                        r.full = next((v for k, v in pairs if k == (T, Rm)), None)
                        r.fallback = next((v for k, v in pairs if k == (T, None)), None)
                        r.full_key, r.fallback_key = (T, Rm), (T, None)
                        r.result = it.run_method(fi, me, [resp])
                        r.it = it
                        _no_foreign_objects(ctx, it, "process_response", [D])
                        return it, r
                    for it, r in kit.explore(run):
                        runs.append(r)
        return fi, runs
    return _cached(ctx, "process_response", build)


def _world_pr(r):
    t = {"both": "entries under (token, remote) and under (token, None)", "full": "an entry under (token, remote) only",
         "fallback": "an entry under (token, None) only", "none": "no entry for the token/remote of the response"}[r.table]
    return "world: %s (plus decoys differing in token or remote); request Observe=%r, response Observe=%r" % (t, r.ro, r.so)


def _deliveries(r):
    return [e for e in r.it.events if e.kind == "call" and e.callee.attr == "add_response" and e.callee.parent is not None]


def _is_last_of(ctx, ev):
    v = ev.kwargs["is_last"] if "is_last" in ev.kwargs else (ev.args[1] if len(ev.args) > 1 else False)
    ctx.need(isinstance(v, kit.NATIVE), "add_response: is_last is not a constant in the evaluated world (%r)" % (v,))
    return bool(v)


def _check_lookup(ctx):
    """C02.a, lookup side."""
    fi, runs = _process_response_runs(ctx)
    V = _Verdicts(ctx, fi)
    for r in runs:
        w = _world_pr(r)
        ds = _deliveries(r)
        legit = [x for x in (r.full, r.fallback) if x is not None]
        for e in ds:
            V.check("lookup key is (response token, response remote) or the multicast fall-back (token, None)", e.callee.parent in legit, e.node,
                    "%s: the response went to %s" % (w, e.callee.parent.name), run=r)
        if r.table == "both":
            for e in ds:
                V.check("the fall-back key is used only when the full key is unknown", e.callee.parent != r.fallback, e.node,
                        "%s: the response went to the request filed under (token, None)" % w, run=r)
        if r.table in ("both", "full"):
            V.check("the full (token, remote) key is tried", any(e.callee.parent == r.full for e in ds), ds[0].node if ds else None,
                    "%s: the request filed under (token, remote) did not get the response" % w, run=r)
        if r.table == "fallback":
            V.check("the multicast fall-back (token, None) is tried when the full key is unknown", any(e.callee.parent == r.fallback for e in ds), ds[0].node if ds else None,
                    "%s: the request filed under (token, None) did not get the response" % w, run=r)
    V.emit()


@R.clause("C02.a", "the key stored by request() and the key looked up by process_response() are both (token, remote) in that order")
def a(ctx):
    _check_registration(ctx, "a")
    _check_lookup(ctx)


@R.clause("C02.b", "a response is delivered only to the request found by the lookup; an unsuccessful lookup returns False")
def b(ctx):
    fi, runs = _process_response_runs(ctx)
    V = _Verdicts(ctx, fi)
    for r in runs:
        w = _world_pr(r)
        ds = _deliveries(r)
        target = r.full if r.full is not None else r.fallback
        kind, val = r.result
        if target is None:
            V.check("no delivery after a failed lookup", not ds, ds[0].node if ds else None, "%s: the response went to %s" % (w, ds[0].callee.parent.name if ds else "-"), run=r)
            if kind == "return":
                ctx.need(isinstance(val, kit.NATIVE), "process_response returns a non-constant in the evaluated world")
            V.check("an unknown (token, remote) makes process_response return False", kind == "return" and not val, None,
                    "%s: %s" % (w, "returns %r" % (val,) if kind == "return" else "raises %s" % val.cls), run=r)
        else:
            V.check("exactly one delivery", len(ds) == 1, ds[-1].node if ds else None, "%s: %d deliveries" % (w, len(ds)), run=r)
            for e in ds:
                V.check("the receiver of the response is the object found under the key", e.callee.parent == target, e.node, "%s: the response went to %s" % (w, e.callee.parent.name), run=r)
                V.check("the response handed over is the incoming one", bool(e.args) and e.args[0] == r.resp, e.node, "%s: handed over %r" % (w, e.args[0] if e.args else None), run=r)
            if kind == "return":
                ctx.need(isinstance(val, kit.NATIVE), "process_response returns a non-constant in the evaluated world")
            V.check("a delivered response is reported as matched (True)", kind == "return" and bool(val), ds[0].node if ds else None,
                    "%s: %s" % (w, "returns %r" % (val,) if kind == "return" else "raises %s" % val.cls), run=r)
    V.emit()


# -- request -----------------------------------------------------------------------------------------------------------

class _RQRun:
    pass


def _request_runs(ctx):
    """request() on {unicast, multicast} x {interest alive, interest already gone (on_interest_end fires at once, as
    Pipe.on_interest_end does)}; the table already holds decoy entries."""
    def build():
        prog = _world_prog(ctx)
        fi = _anchor(ctx, prog, TM + "request")
        ps = params(fi)
        ctx.need(len(ps) == 1, "request: one parameter expected")
        qn = _tm_qn(ctx)
        runs = []
        for mc in (False, True):
            for gone in (False, True):
                def run(script, mc=mc, gone=gone):
                    r = _RQRun()
                    r.mc, r.gone, r.tokens, r.cbs, r.token_calls = mc, gone, [], [], []
                    Rm = kit.Obj("remote", True, attrs={"is_multicast": mc})
                    msg = kit.Obj("request.request", True, attrs={"remote": Rm})
                    rq = kit.Obj("request", True, attrs={"request": msg})
                    T0 = kit.Obj("older-token", True)
                    pairs = [((T0, Rm), kit.Obj("older-request", True)), ((T0, None), kit.Obj("older-multicast-request", True))]
                    D = kit.VDict(pairs, name="outgoing_requests")
                    me = kit.Obj("self", True, cls=qn, attrs={"outgoing_requests": D, "incoming_requests": kit.VDict((), name="incoming_requests"),
                                                              "token_interface": kit.Obj("token_interface", True)})

                    def opaque(it, callee, args, kwargs, node):
                        if callee.parent == rq and callee.attr == "on_interest_end" and len(args) + len(kwargs) == 1:
                            cb = args[0] if args else next(iter(kwargs.values()))
                            r.cbs.append(cb)
                            if gone:
                                it.call(cb, [], {}, node)
                            return None
                        if callee.parent == me and callee.attr == "next_token":
                            t = it.fresh("token", known=True)
                            r.tokens.append(t)
                            # how the token source is called, and the table it sees at that moment (C02.d runs
                            # next_token on exactly these calls when it takes arguments)
                            r.token_calls.append((list(args), dict(kwargs), [(k_, v_) for k_, v_ in D.pairs], len(it.choices)))
                            return t
                        return NotImplemented
                    it = kit.Interp(prog, script, opaque_call=opaque)
                    r.initial, r.D, r.rq, r.msg, r.remote, r.me = [(k, v) for k, v in pairs], D, rq, msg, Rm, me
                    r.result = it.run_method(fi, me, [rq])
                    r.it = it
                    _no_foreign_objects(ctx, it, "request", [D])
                    return it, r
                for it, r in kit.explore(run):
                    runs.append(r)
        return fi, runs
    return _cached(ctx, "request", build)


def _world_rq(r):
    return "world: %s destination, %s" % ("multicast" if r.mc else "unicast", "interest in the request already gone (on_interest_end fires at once)" if r.gone else "requester still interested")


def _same_table(it, pairs_a, pairs_b):
    if len(pairs_a) != len(pairs_b):
        return False
    rest = list(pairs_b)
    for k, v in pairs_a:
        for i, (k2, v2) in enumerate(rest):
            if it.veq(k, k2) and it.veq(v, v2):
                del rest[i]
                break
        else:
            return False
    return True


def _added(it, initial, D):
    return [(k, v) for k, v in D.pairs if not any(it.veq(k, k0) for k0, _ in initial)]


def _reg_node(r):
    for e in r.it.events:
        if e.kind == "dset" and e.d == "outgoing_requests" and e.node is not None:
            return e.node
    return None


def _check_registration(ctx, part):
    """The request() side of C02.a (part 'a'), C02.c ('c') and C02.d ('d')."""
    fi, runs = _request_runs(ctx)
    V = _Verdicts(ctx, fi)
    for r in runs:
        w = _world_rq(r)
        it = r.it
        kind, val = r.result
        node = _reg_node(r)
        tolerant = "the removal on loss of interest tolerates an already retired key"
        if kind == "raise":
            if part == "c":
                V.check(tolerant, not (r.gone and val.cls == "KeyError"), node, "%s: request() raises %s" % (w, val.cls))
            ctx.need(r.gone and val.cls == "KeyError", "request() raises %s in the evaluated world (%s)" % (val.cls, w))
            continue
        new = _added(it, r.initial, r.D)
        tok = r.tokens[0] if len(r.tokens) == 1 else None
        if part == "a" and not r.gone:
            V.check("exactly one registration per request", len(new) == 1, node, "%s: %d new entries" % (w, len(new)))
            for k, v in new:
                shape = isinstance(k, tuple) and len(k) == 2
                V.check("registration key is (message token, message remote)", shape and "token" in r.msg.attrs and k[0] == r.msg.attrs["token"] and (k[1] is None or k[1] == r.remote), node,
                        "%s: registered under %s" % (w, _show_key(k)))
                if shape:
                    V.check("the remote is left out of the key only for multicast destinations", (k[1] is None) == r.mc, node, "%s: registered under %s" % (w, _show_key(k)))
                V.check("what is registered is the request object handed in", v == r.rq, node, "%s: registered %r" % (w, v))
        if part == "c":
            pairing = "every registration is paired with a removal of the same key when interest ends"
            if r.gone:
                V.check(pairing, not new, node, "%s: the entry %s stays registered although nobody is left to end the interest" % (w, ", ".join(_show_key(k) for k, _ in new)))
            else:
                V.check(pairing, bool(r.cbs) or not new, node, "%s: no on_interest_end callback was registered" % w)
                first = [it.try_call(cb) for cb in r.cbs]
                left = _added(it, r.initial, r.D)
                V.check(pairing, not left and all(k == "return" for k, _ in first) and _same_table(it, r.initial, r.D.pairs), node,
                        "%s: after the interest ended the table still holds %s" % (w, ", ".join(_show_key(k) for k, _ in left) or "a different set of entries"))
                second = [it.try_call(cb) for cb in r.cbs]
                V.check(tolerant, all(k == "return" for k, _ in second) and _same_table(it, r.initial, r.D.pairs), node,
                        "%s: running the removal again (the response path retired the key first) %s" % (w, "raises" if any(k != "return" for k, _ in second) else "changes other entries"))
        if part == "d":
            sets = [e for e in it.events if e.kind == "setattr" and e.obj == r.msg and e.attr == "token"]
            V.check("exactly one token assignment", len(sets) == 1 and len(r.tokens) == 1, sets[-1].node if sets else None, "%s: %d assignment(s), %d token(s) drawn" % (w, len(sets), len(r.tokens)))
            V.check("the request's token is a fresh one from next_token()", tok is not None and r.msg.attrs.get("token") == tok, sets[-1].node if sets else None,
                    "%s: the message's token is %r" % (w, r.msg.attrs.get("token")))
            if not r.gone:
                for k, v in new:
                    V.check("the token is assigned before the key is formed and the request is registered", isinstance(k, tuple) and len(k) == 2 and tok is not None and k[0] == tok, node,
                            "%s: registered under %s while the message carries %r" % (w, _show_key(k), r.msg.attrs.get("token")))
    V.emit()


@R.clause("C02.c", "outgoing_requests: written only by TokenManager; registration paired with removal on loss of interest; retired iff the response is final")
def c(ctx):
    w = field_writers(ctx.prog, "outgoing_requests")
    n = sum(len(v) for v in w.values())
    ctx.floor("write sites of outgoing_requests", n, 4)
    for fn, hits in sorted(w.items()):
        for kind, node in hits:
            fi = ctx.prog.funcs["aiocoap." + fn]
            ctx.ob("outgoing_requests is written only inside TokenManager", fn.startswith(TM) or fn.startswith("tokenmanager.TokenManager"), fi, node, detail="%s in %s" % (kind, fn))
    ctl = ast.parse("def f(x):\n    x.outgoing_requests.pop(k)\n").body[0]
    ctx.need(len(stores_to_any(ctl, "outgoing_requests")) == 1, "positive control for the writer scan failed")
    _check_registration(ctx, "c")
    # retirement: on every world that delivers, the value passed as is_last, the reference condition
    # `not (request asked to observe (Observe=0) and the response carries Observe)` and "the entry is gone afterwards" agree
    fi, runs = _process_response_runs(ctx)
    V = _Verdicts(ctx, fi)
    for r in runs:
        wd = _world_pr(r)
        it = r.it
        ds = _deliveries(r)
        target = r.full if r.full is not None else r.fallback
        tkey = r.full_key if r.full is not None else r.fallback_key
        if r.result[0] != "return":
            continue  # reported by C02.b
        others0 = [(k, v) for k, v in r.initial if target is None or not it.veq(k, tkey)]
        others1 = [(k, v) for k, v in r.D.pairs if target is None or not it.veq(k, tkey)]
        pops = [e.node for e in it.events if e.kind == "ddel" and e.d == "outgoing_requests"]
        V.check("the retired key is the key that matched", _same_table(it, others0, others1), pops[0] if pops else (ds[0].node if ds else None),
                "%s: afterwards the other entries are %s" % (wd, ", ".join(_show_key(k) for k, _ in others1)), run=r)
        if target is None or len(ds) != 1 or ds[0].callee.parent != target:
            continue  # reported by C02.a / C02.b
        ref = not (r.ro == 0 and r.so is not None)
        il = _is_last_of(ctx, ds[0])
        kept = any(it.veq(k, tkey) and v == target for k, v in r.D.pairs)
        V.check("final = not (request asked to observe and the response carries an Observe option)", il == ref, ds[0].node, "%s: is_last is %s" % (wd, il), run=r)
        V.check("the registration is retired exactly when the response is final", kept == (not il), ds[0].node, "%s: is_last is %s, registration %s" % (wd, il, "kept" if kept else "removed"), run=r)
    V.emit()


# -- tokens --------------------------------------------------------------------------------------------------------------

_COUNTERS = [0, 1, 2, 41, 254, 255, 256, 257, 511, 0xFFFF, 0x10000, 0x10001, 0x1000000, 0xFFFFFFFF, 0x100000000, 0x0100000000000000, 0x0100000000000001,
             2 ** 63 - 1, 2 ** 63, 2 ** 64 - 3, 2 ** 64 - 2, 2 ** 64 - 1]


def _token_source_worlds(ctx, prog, fi):
    """(description, args, kwargs, request table) for every way next_token is called.  A source without parameters has
    one world.  A source WITH parameters (somebody made the token depend on the destination, the table, a width, ...)
    is run on the calls request() really makes -- arguments and keywords as the request() worlds record them -- and
    on request tables that are empty, hold only requests of other remotes / without remote, hold an older request of
    each individual handed in (the remote), and the table request() had at the time of the call: whatever the source
    looks at, every draw must still advance the counter and render it injectively."""
    ps = params(fi)
    a = fi.node.args
    ctx.need(a.vararg is None and a.kwarg is None, "next_token: *args / **kwargs")
    if not ps:
        T0, R2 = kit.Obj("older-token", True), kit.Obj("other-remote", True)
        held = [((T0, R2), kit.Obj("older-request", True)), ((T0, None), kit.Obj("older-multicast-request", True))]
        return [("world: no request outstanding; ", [], {}, []), ("world: a unicast and a multicast request outstanding; ", [], {}, held)]
    # every caller must be inside the worlds: request() is the only one the worlds drive
    for other in prog.funcs.values():
        if isinstance(other.node, ast.Lambda) or other.short == TM + "request":
            continue
        for c in walk_no_nested(other.node):
            if isinstance(c, ast.Attribute) and c.attr == "next_token":
                raise AnalysisError("next_token takes arguments and is used by %s: outside the rule's worlds" % other.short)
    _rfi, rruns = _request_runs(ctx)
    out = []
    for r in rruns:
        for args, kwargs, snap, undecided in r.token_calls:
            # what request() branched on AFTER the call (the rendering of an opaque token in a log line) is immaterial
            ctx.need(not undecided, "request(): the evaluated world does not determine how next_token is called")
            inds = []
            for v in list(args) + list(kwargs.values()):
                ctx.need(v is None or isinstance(v, kit.NATIVE) or (isinstance(v, kit.Obj) and v.known), "next_token is called with %r: outside the rule's worlds" % (v,))
                if isinstance(v, kit.Obj) and v not in inds:
                    inds.append(v)
            T0, R2 = kit.Obj("older-token", True), kit.Obj("other-remote", True)
            far = [((T0, R2), kit.Obj("older-request-of-another-remote", True)), ((T0, None), kit.Obj("older-multicast-request", True))]
            tables = [("no request outstanding", []), ("requests outstanding to another remote and without remote only", far)]
            for x in inds:
                tables.append(("an older request outstanding under (older token, %s)" % x.name, far[:1] + [((T0, x), kit.Obj("older-request", True))]))
            tables.append(("the table request() has when it draws the token", snap))
            shown = ", ".join([_show_key((v,))[1:-1] for v in args] + ["%s=%s" % (k_, _show_key((v,))[1:-1]) for k_, v in kwargs.items()])
            for tdesc, table in tables:
                out.append(("world: %s, next_token(%s), %s; " % (_world_rq(r).replace("world: ", ""), shown, tdesc), args, kwargs, table))
    ctx.need(bool(out), "next_token takes arguments but request() does not call it in the evaluated worlds")
    return out


@R.clause("C02.d", "tokens: 64-bit counter advanced only by next_token, injective rendering, assigned before the key is formed")
def d(ctx):
    w = field_writers(ctx.prog, "_token", modules={"aiocoap.tokenmanager"})
    for fn, hits in sorted(w.items()):
        for kind, node in hits:
            fi = ctx.prog.funcs["aiocoap." + fn]
            ctx.ob("the token counter is written only by __init__ and next_token", fn in (TM + "__init__", TM + "next_token"), fi, node)
    prog = _world_prog(ctx)
    fi = _anchor(ctx, prog, TM + "next_token")
    qn = _tm_qn(ctx)
    V = _Verdicts(ctx, fi)
    rets = [n for n in walk_no_nested(fi.node) if isinstance(n, ast.Return)]
    ups = [n for _k, n in stores_to(fi.node, "self._token", nested=False)]
    seen = {}
    for wdesc, args, kwargs, table in _token_source_worlds(ctx, prog, fi):
        for k in _COUNTERS:
            me = kit.Obj("self", True, cls=qn, attrs={"_token": k, "outgoing_requests": kit.VDict(table, name="outgoing_requests"),
                                                      "incoming_requests": kit.VDict((), name="incoming_requests")})
            it = kit.Interp(prog)
            kind, tok = it.run_method(fi, me, list(args), dict(kwargs))
            ctx.need(kind == "return" and not it.choices and not it.blind, "next_token: the evaluated world is not deterministic")
            w = "%scounter %d" % (wdesc, k)
            after = me.attrs.get("_token")
            V.check("the counter advances by exactly one modulo 2**64 (2**64 distinct tokens before a repeat)", after == (k + 1) % 2 ** 64 and not isinstance(after, bool), ups[0] if ups else None,
                    "%s becomes %r" % (w, after))
            ctx.need(isinstance(tok, bytes), "next_token does not return bytes in the evaluated world (%r)" % (tok,))
            V.check("the token fits the 8 bytes of a CoAP token", len(tok) <= 8, rets[0] if rets else None, "%s gives a token of %d bytes" % (w, len(tok)))
            if isinstance(after, int):
                other = seen.setdefault(tok, after)
                V.check("the token is an injective rendering of the counter (8-byte big endian, leading zeros stripped)", other == after, rets[0] if rets else None,
                        "the counter values %d and %d both give the token %r" % (other, after, tok))
            # the necessary condition itself, on the same world: the table is exactly as it was (the first request was
            # retired, or never registered), the source is asked again -- a token that was handed out is not handed out
            # again, else a late or duplicated response to the retired request matches the next one
            kind2, tok2 = it.run_method(fi, me, list(args), dict(kwargs))
            ctx.need(kind2 == "return" and not it.choices and not it.blind and isinstance(tok2, bytes), "next_token: the evaluated world is not deterministic")
            V.check("two successive draws never give the same token (a retired token is not handed out again)", tok2 != tok, rets[0] if rets else None,
                    "%s: the first draw gives %r, the next draw (same request table: the first request is already retired) gives %r again" % (w, tok, tok2))
    V.emit()
    _check_registration(ctx, "d")


# -- transport errors -------------------------------------------------------------------------------------------------------

class _DERun:
    pass


def _dispatch_error_runs(ctx, raising=None):
    """dispatch_error(exception, remote) on tables with two entries of the reported remote and one of another remote
    each, for an exception that is / is not a NetworkError.  As in the library, failing a request retires its entry
    (Pipe.add_exception -> on_interest_end callback) and a stopper removes the incoming entry it belongs to.
    raising=<exception class>: the FIRST request that is failed has already ended and its add_exception raises that
    class into dispatch_error (C02.n), leaving its table entry alone."""
    def build():
        prog = _world_prog(ctx)
        fi = _anchor(ctx, prog, TM + "dispatch_error")
        ps = params(fi)
        ctx.need(len(ps) == 2, "dispatch_error: (exception, remote) expected")
        qn = _tm_qn(ctx)
        ne = prog.cls("error.NetworkError").qn
        runs = []
        for isnet in (False, True):
            def run(script, isnet=isnet):
                r = _DERun()
                r.isnet = isnet
                Rm, R2 = kit.Obj("remote", True), kit.Obj("other-remote", True)
                t = [kit.Obj("token-%d" % i, True) for i in range(6)]
                r.mine = [kit.Obj("request-1-of-the-remote", True), kit.Obj("request-2-of-the-remote", True)]
                r.foreign = [kit.Obj("request-of-another-remote", True)]
                out = [((t[0], Rm), r.mine[0]), ((t[1], R2), r.foreign[0]), ((t[2], Rm), r.mine[1])]
                r.stop_mine = [kit.Obj("stopper-1-of-the-remote", True), kit.Obj("stopper-2-of-the-remote", True)]
                r.stop_foreign = [kit.Obj("stopper-of-another-remote", True)]
                inc = [((t[3], Rm), (kit.Obj("pipe-1", True), r.stop_mine[0])), ((t[4], R2), (kit.Obj("pipe-2", True), r.stop_foreign[0])),
                       ((t[5], Rm), (kit.Obj("pipe-3", True), r.stop_mine[1]))]
                O = kit.VDict(out, name="outgoing_requests")
                I = kit.VDict(inc, name="incoming_requests")
                me = kit.Obj("self", True, cls=qn, attrs={"outgoing_requests": O, "incoming_requests": I})
                exc = kit.Obj("exception", True)
                r.exc = exc

                r.raised_in = None

                def opaque(it, callee, args, kwargs, node):
                    if callee.attr == "add_exception" and callee.parent is not None:
                        if raising is not None and r.raised_in is None:
                            r.raised_in = callee.parent
                            raise kit.Raised(it.new_exc(raising), node)
                        O.pairs[:] = [p for p in O.pairs if p[1] != callee.parent]
                        return None
                    if callee.parent is None and callee in r.stop_mine + r.stop_foreign:
                        I.pairs[:] = [p for p in I.pairs if not (isinstance(p[1], tuple) and callee in p[1])]
                        return None
                    return NotImplemented
                it = kit.Interp(prog, script, opaque_call=opaque, isa={(exc.name, ne): isnet})
                r.result = it.run_method(fi, me, [exc, Rm])
                r.it = it
                _no_foreign_objects(ctx, it, "dispatch_error", [O, I])
                return it, r
            for it, r in kit.explore(run):
                runs.append(r)
        return fi, ne, runs
    return _cached(ctx, "dispatch_error" if raising is None else "dispatch_error raising " + raising, build)


@R.clause("C02.e", "transport errors are fanned out only to requests of the reported remote, always as NetworkError")
def e(ctx):
    fi, ne, runs = _dispatch_error_runs(ctx)
    V = _Verdicts(ctx, fi)
    for r in runs:
        w = "world: two outgoing and two incoming requests of the reported remote, one each of another remote; the exception is %sa NetworkError" % ("" if r.isnet else "not ")
        kind, val = r.result
        V.check("dispatch_error fails the requests without disturbing its own iteration over the request tables", kind == "return", None,
                "%s: raises %s (failing a request removes its table entry: iterate first, then fail)" % (w, val.cls if kind == "raise" else ""), run=r)
        if kind != "return":
            continue
        fails = [e_ for e_ in r.it.events if e_.kind == "call" and e_.callee.attr == "add_exception" and e_.callee.parent is not None]
        stops = [e_ for e_ in r.it.events if e_.kind == "call" and e_.callee.parent is None and e_.callee in r.stop_mine + r.stop_foreign]
        only = "a request is failed only if its remote equals the reported remote"
        for e_ in fails:
            V.check(only, e_.callee.parent in r.mine, e_.node, "%s: %s was failed" % (w, e_.callee.parent.name), run=r)
        for e_ in stops:
            V.check(only, e_.callee in r.stop_mine, e_.node, "%s: %s was invoked" % (w, e_.callee.name), run=r)
        V.check(only, True)
        n_out = [sum(1 for e_ in fails if e_.callee.parent == q) for q in r.mine]
        n_in = [sum(1 for e_ in stops if e_.callee == s) for s in r.stop_mine]
        anynode = (fails or stops or [None])[0]
        anynode = anynode.node if anynode is not None else None
        V.check("stoppers are collected for outgoing and for incoming requests", sum(n_out) > 0 and sum(n_in) > 0, anynode,
                "%s: %d outgoing request(s) failed, %d incoming request(s) stopped" % (w, sum(n_out), sum(n_in)), run=r)
        late = sum(n_out) == len(r.mine) and 0 in n_out
        V.check("each stopper acts on its own request (loop variables are bound per iteration, not captured by reference)", not late, fails[0].node if fails else None,
                "%s: failed %s times: the closure refers to the loop variable by reference, every stopper acts on the last request iterated" % (w, n_out), run=r)
        V.check("every request of the reported remote is failed / stopped exactly once", late or (all(x == 1 for x in n_out) and all(x == 1 for x in n_in)), anynode,
                "%s: outgoing requests failed %s times, incoming stoppers invoked %s times" % (w, n_out, n_in), run=r)
        for e_ in fails:
            a0 = e_.args[0] if e_.args else None
            isn = isinstance(a0, kit.Obj) and ((a0 == r.exc and r.isnet) or (a0.cls is not None and ctx.prog.is_subclass(a0.cls, ne)))
            V.check("an exception that is not a NetworkError is replaced by a NetworkError before it is handed to requests", isn, e_.node,
                    "%s: the request receives %r" % (w, a0), run=r)
    V.emit()
    ci = ctx.prog.cls("error.NetworkError")
    ctx.ob("NetworkError derives from the library's error base class", ctx.prog.is_subclass(ci.qn, "aiocoap.error.Error"), None, None, construct="class NetworkError")


@R.clause("C02.f", "Request._run completes the response future exactly once, before its first suspension after the first event, and never again")
def f(ctx):
    fi = ctx.prog.func("protocol.Request._run")
    cfg = cfg_of(fi)
    setters = [c for c in calls_in(fi.node) if isinstance(c.func, ast.Attribute) and c.func.attr in ("set_result", "set_exception") and chain(c.func.value) == "self.response"]
    ctx.floor("completions of self.response in Request._run", len(setters), 1)
    S = {cfg.loc1(c) for c in setters}
    yields = []
    for n in walk_no_nested(fi.node):
        if isinstance(n, ast.Yield):
            yields.append(cfg.loc1(n))
    ctx.floor("suspension points in Request._run", len(yields), 2)
    first = min(yields)
    ctx.ob("the first statement reached is the suspension that receives the first event", cfg.dominates(first, next(iter(S))) and all(cfg.dominates(first, y) for y in yields), fi, cfg.nodes[first].ast)
    later = [y for y in yields if y != first]
    for y in later:
        ctx.ob("the future is completed before the generator suspends again", not cfg.exists_path(first, y, avoid=S), fi, cfg.nodes[y].ast)
    ctx.ob("the future is completed before the generator ends", cfg.must_pass(first, S), fi, fi.node, construct="def _run")
    for s in setters:
        sn = cfg.loc1(s)
        ctx.ob("the future is never completed a second time", not (cfg.reach({sn}) & S), fi, s)
    # what is set: the event's message or the event's exception
    for s in setters:
        a0 = s.args[0] if s.args else None
        ch = chain(a0) or ""
        ok = ch.endswith(".message") if s.func.attr == "set_result" else ch.endswith(".exception")
        ctx.ob("the future receives the first event's message resp. exception", ok, fi, s)
        nid = cfg.loc1(s)
        ev = ch.rsplit(".", 1)[0]
        if s.func.attr == "set_result":
            ctx.ob("a result is set only when the event carries a message", guarded_by(cfg, nid, "%s.message is not None" % ev, True), fi, s)
        else:
            ctx.ob("an exception is set only when the event carries no message", guarded_by(cfg, nid, "%s.message is not None" % ev, False) or guarded_by(cfg, nid, "%s.exception is not None" % ev, True), fi, s)


def j_forward(ctx):
    """MessageManager.dispatch_error hands every reported error on to the token manager (for the same remote),
    whatever the state of the exchange tables -- except after shutdown."""
    fi = ctx.prog.func("messagemanager.MessageManager.dispatch_error")
    p = params(fi)
    ctx.need(len(p) == 2, "MessageManager.dispatch_error: (error, remote) expected")
    cfg = cfg_of(fi)
    callee = params(ctx.prog.func(TM + "dispatch_error"))
    ctx.need(len(callee) == 2, "TokenManager.dispatch_error: (exception, remote) expected")

    def forwards(c):
        """c calls dispatch_error of the token manager with (own error, own remote): receiver and arguments are
        resolved through single-assignment locals, arguments may be positional or keywords of the callee."""
        if not (isinstance(c.func, ast.Attribute) and c.func.attr == "dispatch_error"):
            return False
        if chain(resolve_local(fi.node, c.func.value)) != "self.token_manager":
            return False
        if any(isinstance(a, ast.Starred) for a in c.args) or any(k.arg is None for k in c.keywords) or len(c.args) > 2:
            return False
        got = dict(zip(callee, c.args))
        for k in c.keywords:
            if k.arg in got or k.arg not in callee:
                return False
            got[k.arg] = k.value
        vals = [resolve_local(fi.node, got[n]) if n in got else None for n in callee]
        return all(isinstance(v, ast.Name) and v.id == own for v, own in zip(vals, p))
    fw = [c for c in calls_in(fi.node) if forwards(c)]
    ctx.ob("MessageManager.dispatch_error forwards the error and the remote to the token manager", len(fw) >= 1, fi, fi.node, construct="MessageManager.dispatch_error: forward to the token manager")
    if not fw:
        return
    # the only way past the forward is the retired-table (shutdown) guard; the guard is recognised by its
    # normalised atom (`is None` / `is not None` / `==` / mirrored operands / `not` are the same atom)
    from ..paths import atom_key
    want, _pol = atom_key(ast.parse("self._active_exchanges is None", mode="eval").body)

    def shut_outcome(n):
        if n.kind not in ("T", "F") or not isinstance(n.ast, ast.expr):
            return False
        key, pol = atom_key(n.ast)
        return key == want and pol == (n.kind == "T")
    shut = {n.id for n in cfg.nodes if shut_outcome(n)}
    ok = cfg.must_pass(cfg.entry, {cfg.loc1(c) for c in fw} | shut)
    ctx.ob("every reported transport error reaches the token manager (requests without an open exchange -- NON, separate response pending, observations -- fail too)", ok, fi, fw[0])


@R.clause("C02.j", "a transport error reported for a remote always reaches the token manager")
def j(ctx):
    j_forward(ctx)


@R.clause("C02.i", "requests queued behind an exchange complete too: the backlog invariant and 'none forgotten' of the message layer (shared with C14.a/C14.f)")
def i_shared(ctx):
    """A request whose CON is held back (NSTART=1) completes only if the message layer keeps the invariant
    `backlog entry <=> active exchange` and fails the queued requests when it drops a backlog.  An independently
    written breaking change (give-up arm of _retransmit no longer deleting the backlog entry) made the *next*
    request to that remote end in a bare AssertionError / hang.  The obligations are those of C14.a and C14.f."""
    from . import c14
    c14.a(ctx)
    c14.f(ctx)


@R.clause("C02.p", "the predicate that files a request under (token, None) is true exactly for multicast groups: a unicast destination is never matched by token alone (shared with C10.i)")
def p_shared(ctx):
    """C02.a decides on small worlds that request() files a request under (token, remote) and under (token, None)
    exactly when `remote.is_multicast` is true -- with is_multicast as a free boolean of the world.  What that boolean
    IS for a given destination is a dependency of the matching rule: an entry under (token, None) is found by
    process_response for a response from ANY source address, which is right only when the destination was a group
    (responses come from the members' unicast addresses).  An independently written breaking change made
    UDP6EndpointAddress.is_multicast true for IPv4 addresses ending in .255 (ordinary hosts in a /16 or /23): a forged
    response with a sniffed token from any address was delivered as the request's result, a forged CON was ACKed
    instead of Reset, the genuine response discarded -- tokenmanager.py untouched.  Conversely a group for which the
    predicate is false is filed under the group address and no response ever matches it.  The necessary condition is
    the value table `is_multicast(address) <=> address is a multicast group (RFC 4291 ff00::/8, RFC 5771 224.0.0.0/4,
    v4-mapped spelling included)`, which C10.i decides by running the property (and is_multicast_locally, which
    decides whether an unmatched CON response is answered with the Reset this property demands) in the address
    evaluator of _kit_c10 against a reference written from the RFCs -- by value, so helpers, temporaries and
    spellings of the parse cannot trip it.  The obligations are those of C10.i."""
    from . import c10
    c10.i_multicast_locally(ctx)


@R.clause("C02.q", "shutdown: every outstanding request is failed with LibraryShutdown and the 'shut down' marker request() tests is set before shutdown's first suspension point (shared with C18.b)")
def q_shared(ctx):
    """'Every request completes ... with an error derived from the library's error base class ... context shutdown
    at any point': request() refuses a request with LibraryShutdown when `outgoing_requests is None` (C18.c), and
    shutdown() fails the registered ones and sets that marker.  This is an atomicity obligation: on every path through
    TokenManager.shutdown no suspension point (await) lies before the drain of the table and the store of the marker,
    because during a suspension other tasks run -- Context.request()'s carrier task reaches request(), finds the
    marker unset, registers the request and hands the message to a transport that is being (or has been) closed; the
    request then ends with whatever the dead transport raises (AttributeError), not a library error.  An independently
    written breaking change moved `await self.token_interface.shutdown()` to the top of shutdown() with the drain and
    the marker textually unchanged below it.  Decided on shutdown()'s CFG by dominance (drain and marker stores
    dominate the lower layer's await, and no other await precedes it), which is indifferent to how the drain is
    spelled; the obligations are those of C18.b."""
    from . import c18
    c18.b(ctx)


@R.clause("C02.h", "endpoint identity: __eq__ and __hash__ use the same projection of the socket address, keeping address and port")
def h(ctx):
    eq = ctx.prog.func("transports.udp6.UDP6EndpointAddress.__eq__")
    hs = ctx.prog.func("transports.udp6.UDP6EndpointAddress.__hash__")
    other = params(eq)[0]
    req = [n for n in walk_no_nested(eq.node) if isinstance(n, ast.Return)]
    rhs = [n for n in walk_no_nested(hs.node) if isinstance(n, ast.Return)]
    ctx.need(len(req) == 1 and len(rhs) == 1, "__eq__/__hash__ are not single-return")
    b = match("self.sockaddr[$s] == %s.sockaddr[$s]" % other, req[0].value) or match("%s.sockaddr[$s] == self.sockaddr[$s]" % other, req[0].value)
    ctx.ob("__eq__ compares the same projection of sockaddr on both operands", b is not None, eq, req[0])
    hb = match("hash(self.sockaddr[$s])", rhs[0].value)
    ctx.ob("__hash__ hashes a projection of sockaddr", hb is not None, hs, rhs[0])
    if b is not None and hb is not None:
        ctx.ob("__eq__ and __hash__ use the same projection", same(b["s"], hb["s"]), hs, rhs[0])

        def keeps01(s):
            if isinstance(s, ast.Slice):
                lo = s.lower
                up = s.upper
                lo_ok = lo is None or (isinstance(lo, ast.Constant) and lo.value == 0)
                upv = None
                if up is not None:
                    try:
                        upv = norm.consteval(up)
                    except norm.NormError:
                        return False
                up_ok = up is None or upv in (2, 3, 4, -1, -2)
                return lo_ok and up_ok and s.step is None
            return False
        ctx.ob("the projection keeps address and port (indices 0 and 1)", keeps01(b["s"]), eq, req[0], detail="slice %s" % ast.unparse(b["s"]))


@R.clause("C02.h", "sibling sweep: every endpoint-address class in the transports that defines __eq__ or __hash__ defines both over the same projection", tier="thorough")
def h_thorough(ctx):
    n = 0
    for ci in ctx.prog.classes.values():
        if not ci.module.name.startswith("aiocoap.transports"):
            continue
        has_eq, has_hash = "__eq__" in ci.methods, "__hash__" in ci.methods
        if not (has_eq or has_hash):
            continue
        n += 1
        if not ctx.ob("%s defines both __eq__ and __hash__" % ci.qn.split(".")[-1], has_eq and has_hash, ci.methods.get("__eq__") or ci.methods.get("__hash__"), (ci.methods.get("__eq__") or ci.methods.get("__hash__")).node, construct="class %s: __eq__/__hash__" % ci.qn.split(".")[-1]):
            continue
        eq, hs = ci.methods["__eq__"], ci.methods["__hash__"]
        other = params(eq)[0]
        re_ = [x for x in walk_no_nested(eq.node) if isinstance(x, ast.Return)]
        rh = [x for x in walk_no_nested(hs.node) if isinstance(x, ast.Return)]
        ok = False
        if len(re_) == 1 and len(rh) == 1:
            hb = match("hash($p)", rh[0].value)
            if hb is not None and isinstance(re_[0].value, ast.Compare) and len(re_[0].value.ops) == 1 and isinstance(re_[0].value.ops[0], ast.Eq):
                l, r = re_[0].value.left, re_[0].value.comparators[0]
                proj = dump(hb["p"])
                swap = lambda e: dump(e).replace("Name(id=%r)" % other, "Name(id='self')")
                ok = {dump(l), swap(r)} == {proj} or {swap(l), dump(r)} == {proj}
        ctx.ob("%s: __eq__ compares exactly what __hash__ hashes" % ci.qn.split(".")[-1], ok, eq, re_[0] if re_ else eq.node)
    ctx.floor("endpoint-address classes with identity methods", n, 2)


# -- the datagram parser hands on what matching needs --------------------------------------------------------------

class _DCRun:
    pass


def _enum_arg(v, qn):
    """The plain number inside (possibly repeated) opaque constructions `qn(x)` of an enum of the confirmed tree."""
    seen = 0
    while isinstance(v, kit.Obj) and v.cls == qn and isinstance(v.attrs.get("args"), tuple) and len(v.attrs["args"]) == 1 and seen < 4:
        v = v.attrs["args"][0]
        seen += 1
    return v


def _decode_runs(ctx):
    """Message.decode(rawdata, remote) on version-1 datagrams of every message type with every legal token length
    (0..8 bytes, RFC 7252 section 3), without and with bytes after the token.  Message objects are built by running
    Message.__init__ (so a constructor keyword and a later attribute assignment are the same fact); enum
    constructions, the option parser and everything else of the confirmed tree are opaque events."""
    def build():
        prog = _world_prog(ctx)
        fi = _anchor(ctx, prog, "message.Message.decode")
        mq = prog.cls("message.Message").qn
        ps = params(fi)
        ctx.need(len(ps) == 2, "Message.decode: (rawdata, remote) expected")
        runs = []
        for tkl in range(0, 9):
            for mtype in range(4):
                for tail in (b"", b"\xff\x99\x98"):
                    def run(script, tkl=tkl, mtype=mtype, tail=tail):
                        r = _DCRun()
                        r.tkl, r.mtype, r.tail = tkl, mtype, tail
                        r.token = bytes(range(0xA1, 0xA1 + tkl))
                        r.mid = 0x1234 + 0x0101 * mtype
                        r.code = (0x45, 0x44, 0x84, 0x00)[mtype] if not tkl == 0 else 0x45
                        r.raw = bytes([0x40 | (mtype << 4) | tkl, r.code, r.mid >> 8, r.mid & 0xFF]) + r.token + tail
                        r.remote = kit.Obj("remote", True)
                        it = kit.XInterp(prog, script, evaluate_classes={mq})
                        r.it = it
                        r.result = it.run(lambda: it.call(it.getattr(kit.ClassRef(mq), "decode"), [r.raw, r.remote], {}, fi.node))
                        return it, r
                    for it, r in kit.explore(run):
                        runs.append(r)
        return fi, runs
    return _cached(ctx, "decode", build)


@R.clause("C02.k", "the datagram parser accepts every legal token length and hands on token, message ID, type and remote unchanged")
def k(ctx):
    """Matching happens on what Message.decode returns: a datagram that the parser rejects never reaches the token
    manager (the request it answers never completes, an unmatched confirmable response is not answered with a
    Reset), and a token, message ID, type or remote that the parser alters makes the lookup / the Reset miss."""
    fi, runs = _decode_runs(ctx)
    tq = ctx.prog.cls("numbers.types.Type").qn
    V = _Verdicts(ctx, fi)
    for r in runs:
        w = "world: version-1 datagram of type %d with a %d-byte token%s" % (r.mtype, r.tkl, ", %d more bytes follow" % len(r.tail) if r.tail else "")
        kind, val, node = r.result
        V.check("a datagram with a legal token length (0..8 bytes) is parsed, not rejected", kind == "return", node,
                "%s: Message.decode raises %s" % (w, val.cls if kind == "raise" else ""), run=r)
        if kind != "return":
            continue
        ctx.need(isinstance(val, kit.Obj), "Message.decode returns %r in the evaluated world" % (val,))
        sets = {}
        for e_ in r.it.events:
            if e_.kind == "setattr" and e_.obj == val:
                sets[e_.attr] = e_.node
        V.check("the parsed message carries the token of the datagram", val.attrs.get("token") == r.token and isinstance(val.attrs.get("token"), bytes), sets.get("token"),
                "%s: token %r instead of %r" % (w, val.attrs.get("token"), r.token), run=r)
        mid = val.attrs.get("mid")
        V.check("the parsed message carries the message ID of the datagram (a Reset echoes it)", mid == r.mid and isinstance(mid, int) and not isinstance(mid, bool), sets.get("mid"),
                "%s: message ID %r instead of %r" % (w, mid, r.mid), run=r)
        mt = _enum_arg(val.attrs.get("mtype"), tq)
        V.check("the parsed message carries the type of the datagram (only a confirmable unmatched response is reset)", mt == r.mtype and isinstance(mt, int) and not isinstance(mt, bool), sets.get("mtype"),
                "%s: type %r instead of %r" % (w, mt, r.mtype), run=r)
        V.check("the parsed message carries the remote the datagram came from", val.attrs.get("remote") == r.remote, sets.get("remote"),
                "%s: remote %r" % (w, val.attrs.get("remote")), run=r)
    V.emit()


# -- address lookup: what the resolver raises is what its consumer converts -----------------------------------------

class _RSRun:
    pass


def _first_step_consumers(prog):
    """(consumer FuncInfo, consuming call, producer FuncInfo): every place of the package where an async generator
    function of the package is created and advanced by a single step -- `G(...).__anext__()`, `anext(G(...)[, d])`,
    the generator object possibly held in a single-assignment local.  Unlike `async for`, a single step turns the
    END of the generator into an exception (StopAsyncIteration) at the consumer."""
    out = []
    for fi in prog.funcs.values():
        if isinstance(fi.node, ast.Lambda):
            continue
        for c in walk_no_nested(fi.node):
            if not isinstance(c, ast.Call):
                continue
            if isinstance(c.func, ast.Attribute) and c.func.attr == "__anext__" and not c.args and not c.keywords:
                g, has_default = c.func.value, False
            elif isinstance(c.func, ast.Name) and c.func.id == "anext" and 1 <= len(c.args) <= 2 and not c.keywords:
                g, has_default = c.args[0], len(c.args) == 2
            else:
                continue
            g = resolve_local(fi.node, g)
            if not isinstance(g, ast.Call):
                continue
            name = chain(g.func)
            if name is None:
                continue
            qn = prog.resolve_in_module(fi.module, name)
            pf = prog.funcs.get(qn)
            if pf is None or not isinstance(pf.node, ast.AsyncFunctionDef) or not any(isinstance(n, ast.Yield) for n in kit._own_nodes(pf.node)):
                continue
            out.append((fi, c, pf, has_default))
    return out


def _resolver_runs(ctx, prog, pf):
    """The route-checked resolver G(loop, log, host, port) run to its FIRST yield on small worlds: loop.getaddrinfo
    answers with 0..2 candidates -- IPv6 or IPv4 addresses that the routability probe (a datagram socket's connect)
    finds reachable / unreachable (ENETUNREACH) / failing otherwise, or an address of a family the resolver cannot
    use -- or fails itself with socket.gaierror; one world asks for an address literal.  Outcome per world: a value
    is yielded, an exception leaves the generator, or the generator ends (StopAsyncIteration at a single-step
    consumer)."""
    def build():
        ps = params(pf)
        ctx.need(len(ps) == 4 and not pf.node.args.kwonlyargs and pf.node.args.vararg is None, "%s: (loop, log, host, port) expected" % pf.short)
        kinds = [("IPv6, reachable", 6, "ok"), ("IPv6, unreachable (ENETUNREACH)", 6, "ENETUNREACH"), ("IPv6, probe fails with EACCES", 6, "EACCES"),
                 ("IPv4, reachable", 4, "ok"), ("IPv4, unreachable (ENETUNREACH)", 4, "ENETUNREACH"), ("other address family", 0, None)]
        lists = [[]] + [[a] for a in kinds] + [[a, b] for a in kinds for b in kinds]
        worlds = [("the name does not resolve (loop.getaddrinfo raises socket.gaierror)", None, "host.example")]
        worlds += [("loop.getaddrinfo returns %s" % ("; ".join(k[0] for k in l) or "no candidate"), l, "host.example") for l in lists]
        worlds.append(("an IPv6 address literal is asked for, without a route (ENETUNREACH)", [kinds[1]], "2001:db8::1"))
        runs = []
        for desc, cands, host in worlds:
            def run(script, desc=desc, cands=cands, host=host):
                r = _RSRun()
                r.desc = desc
                loop, log = kit.Obj("loop", True), kit.Obj("log", True)
                fam = {6: kit.Obj("ext:socket.AF_INET6", True), 4: kit.Obj("ext:socket.AF_INET", True), 0: kit.Obj("ext:socket.AF_PACKET", True)}
                typ, proto = kit.Obj("ext:socket.SOCK_DGRAM", True), kit.Obj("ext:socket.IPPROTO_UDP", True)
                entries, probe = [], {}
                for i, (_d, f, outcome) in enumerate(cands or ()):
                    if f == 6:
                        ip = "2001:db8::%d" % (i + 1)
                        entries.append((fam[6], typ, proto, "", (ip, 5683, 0, 0)))
                        probe[ip] = outcome
                    elif f == 4:
                        ip = "192.0.2.%d" % (i + 1)
                        entries.append((fam[4], typ, proto, "", (ip, 5683)))
                        probe[ip] = probe["::ffff:" + ip] = outcome
                    else:
                        entries.append((fam[0], typ, proto, "", ("eth0", 0)))
                socks = []

                def opaque(it, callee, args, kwargs, node):
                    if callee.parent == loop and callee.attr == "getaddrinfo":
                        if cands is None:
                            raise kit.Raised(it.new_exc("socket.gaierror"), node)
                        return kit.VList(entries)
                    if callee.name == "ext:socket.socket":
                        s_ = it.fresh("probe-socket", known=True)
                        socks.append(s_)
                        return s_
                    if callee.parent in socks and callee.attr == "connect" and len(args) == 1 and not kwargs and isinstance(args[0], tuple) and args[0] and args[0][0] in probe:
                        o = probe[args[0][0]]
                        if o == "ok":
                            return None
                        exc = it.new_exc("OSError")
                        exc.attrs["errno"] = kit.Obj("ext:errno." + o, True)
                        raise kit.Raised(exc, node)
                    if callee.parent in socks and callee.attr == "close":
                        return None
                    return NotImplemented
                it = kit.XInterp(prog, script, opaque_call=opaque)
                r.it = it

                def first():
                    g = it.call(kit.Func(pf.node, pf.module, qn=pf.qn), [loop, log, host, 5683], {}, pf.node)
                    if not isinstance(g, kit.Gen):
                        it.refuse("%s does not create a generator" % pf.short)
                    return it.gen_first(g, pf.node)
                r.result = it.run(first)
                return it, r
            for it, r in kit.explore(run):
                runs.append(r)
        return runs
    return _cached(ctx, "resolver:" + pf.qn, build)


def _try_bodies_around(fnode, target):
    """The try statements of fnode whose *body* contains target, innermost first."""
    out = []

    def rec(n):
        if n is target:
            return True
        for field, value in ast.iter_fields(n):
            items = value if isinstance(value, list) else [value]
            for x in items:
                if isinstance(x, ast.AST) and rec(x):
                    if isinstance(n, ast.Try) and field == "body":
                        out.append(n)
                    return True
        return False
    rec(fnode)
    return out


def _always_raises(body):
    """Every way through the statement list ends in a raise (log calls and bindings in between are immaterial)."""
    if not body:
        return False
    last = body[-1]
    if isinstance(last, ast.Raise):
        return True
    if isinstance(last, ast.If):
        return _always_raises(last.body) and _always_raises(last.orelse)
    if isinstance(last, (ast.With, ast.AsyncWith)):
        return _always_raises(last.body)
    return False


_EXC_ALIASES = {"socket.error": "OSError", "IOError": "OSError", "EnvironmentError": "OSError", "select.error": "OSError", "asyncio.TimeoutError": "TimeoutError"}


def _known_exc(prog, qn):
    return qn in prog.classes or qn in BUILTIN_EXC


def _except_classes(prog, fi, ty, depth=0):
    """Qualified names of the classes an except clause names: a class, a tuple of classes, or a module-level
    constant holding such a tuple.  Classes the checker has no hierarchy for are refused (they might be a base of
    what is raised)."""
    if isinstance(ty, ast.Tuple):
        out = []
        for x in ty.elts:
            out.extend(_except_classes(prog, fi, x, depth))
        return out
    name = chain(ty)
    if name is None or depth > 3:
        raise AnalysisError("%s: except clause over `%s`" % (fi.short, stmt_text(ty)))
    qn = prog.resolve_in_module(fi.module, name)
    qn = _EXC_ALIASES.get(qn, qn)
    if _known_exc(prog, qn):
        return [qn]
    if "." not in name and prog._module_defines(fi.module, name):
        vals = [st.value for st in fi.module.tree.body if isinstance(st, ast.Assign) and any(isinstance(t, ast.Name) and t.id == name for t in st.targets)]
        if len(vals) == 1:
            return _except_classes(prog, fi, vals[0], depth + 1)
    raise AnalysisError("%s: except clause over `%s`: the class hierarchy of %s is not known to the checker" % (fi.short, stmt_text(ty), qn))


def _handler_for(prog, fi, trys, xcls):
    """The handler that receives an exception of class xcls raised in the innermost body of `trys` (None: it leaves
    the function)."""
    if not _known_exc(prog, xcls):
        raise AnalysisError("%s: the class hierarchy of %s is not known to the checker" % (fi.short, xcls))
    for t in trys:
        for h in t.handlers:
            if h.type is None:
                return h
            if any(prog.is_subclass(xcls, q) for q in _except_classes(prog, fi, h.type)):
                return h
    return None


@R.clause("C02.l", "address lookup: every way the route-checked resolver fails or ends at its single-step consumer becomes a library error")
def l(ctx):
    """A request whose destination cannot be resolved completes with whatever determine_remote raises (the caller
    hands it to the request as is).  The resolver is an async generator advanced by ONE step: besides what it raises,
    its *ending without a yield* is an exception at the consumer (StopAsyncIteration).  The invariant is joint: what
    the producer can do on its first step (decided on small worlds) is what the consumer converts (decided on the
    handlers around the step); either side may change as long as they agree."""
    prog = _world_prog(ctx)
    sites = _first_step_consumers(prog)
    ctx.note("single-step consumers of async generators of the package: %s" % (", ".join("%s <- %s" % (f.short, p.short) for f, _c, p, _d in sites) or "none"))
    lib = "aiocoap.error.Error"
    for fi, call, pf, has_default in sites:
        ctx.prog.touched.add(fi.qn)
        ctx.prog.touched.add(pf.qn)
        runs = _resolver_runs(ctx, prog, pf)
        trys = _try_bodies_around(fi.node, call)
        V = _Verdicts(ctx, fi)
        caught = "what the address lookup raises on its first step is converted into a library error by its consumer"
        ended = "an address lookup that ends without an address is converted into a library error by its consumer"
        yielded = 0
        for r in runs:
            kind, val, node = r.result
            if kind == "return":
                yielded += 1
                continue
            xcls = val.cls
            end = xcls == "StopAsyncIteration" and node is pf.node
            if end and has_default:
                raise AnalysisError("%s: anext() with a default: what the consumer does with the default is outside the rule's vocabulary" % fi.short)
            desc = ended if end else caught
            w = "world: %s: %s" % (r.desc, "the generator ends without a yield, its consumer gets StopAsyncIteration" if end else "%s raises %s" % (pf.short, xcls))
            h = _handler_for(prog, fi, trys, xcls)
            if h is None:
                ok = prog.is_subclass(xcls, lib)
                if not ok:
                    # a conversion further up the call chain is outside the rule's vocabulary: refuse instead of alarming
                    for other in prog.funcs.values():
                        if isinstance(other.node, ast.Lambda):
                            continue
                        for c2 in walk_no_nested(other.node):
                            if isinstance(c2, ast.Call) and isinstance(c2.func, ast.Attribute) and c2.func.attr == fi.node.name:
                                h2 = _handler_for(prog, other, _try_bodies_around(other.node, c2), xcls)
                                if h2 is not None and h2.type is not None and not any(q in ("Exception", "BaseException") for q in _except_classes(prog, other, h2.type)):
                                    raise AnalysisError("%s: %s is handled by a caller (%s): outside the rule's vocabulary" % (fi.short, xcls, other.short))
                V.check(desc, ok, call, "%s; no handler around the step catches it and it is not derived from error.Error: the request completes with it as is" % w, run=r)
                continue
            raises = [n for n in walk_no_nested(ast.Module(body=h.body, type_ignores=[])) if isinstance(n, ast.Raise)]
            if not _always_raises(h.body):
                raise AnalysisError("%s: the handler for %s does not end in a raise on every path: outside the rule's vocabulary" % (fi.short, xcls))
            for rs in raises:
                if rs.exc is None:
                    ok = prog.is_subclass(xcls, lib)
                    V.check(desc, ok, rs, "%s; the handler re-raises it" % w, run=r)
                    continue
                tgt = rs.exc.func if isinstance(rs.exc, ast.Call) else rs.exc
                tgt = resolve_local(fi.node, tgt)
                if isinstance(tgt, ast.Call):
                    tgt = tgt.func
                name = chain(tgt)
                if name is not None and h.name is not None and name == h.name:
                    ok = prog.is_subclass(xcls, lib)
                    V.check(desc, ok, rs, "%s; the handler re-raises it" % w, run=r)
                    continue
                qn = prog.resolve_in_module(fi.module, name) if name is not None else None
                qn = _EXC_ALIASES.get(qn, qn)
                if qn is None or not _known_exc(prog, qn):
                    raise AnalysisError("%s: cannot resolve what `%s` raises" % (fi.short, stmt_text(rs)))
                V.check(desc, prog.is_subclass(qn, lib), rs, "%s; the handler raises %s, which is not derived from error.Error" % (w, qn), run=r)
            V.check(desc, True, call)
        V.check("the address lookup yields an address in some world (the worlds exercise it)", yielded > 0, call, "no world makes %s yield" % pf.short)
        V.emit()


# -- send errors: the remote recorded by send() is the remote error_received() reads -----------------------------------

class _SERun:
    pass


_SEND_SCENARIOS = [
    # (description, [(remote index, errno name or None)], drain the loop's callbacks after every send?)
    ("one datagram, the socket refuses it with ENETUNREACH", [(0, "ENETUNREACH")], True),
    ("one datagram, the socket refuses it with EPERM", [(0, "EPERM")], True),
    ("a datagram to one remote goes out, then the socket refuses a datagram to another remote (EHOSTUNREACH)", [(0, None), (1, "EHOSTUNREACH")], True),
    ("the socket refuses a datagram to one remote (ENETUNREACH), then a datagram to another remote goes out", [(0, "ENETUNREACH"), (1, None)], True),
    ("the socket refuses a datagram to one remote (ENETUNREACH) and a datagram to another remote goes out before the loop runs its callbacks", [(0, "ENETUNREACH"), (1, None)], False),
    ("two datagrams go out", [(0, None), (1, None)], True),
]


def _send_error_runs(ctx, prog, pq):
    """The udp6-style message interface wired to its transport as the package does it
    (create_recvmsg_datagram_endpoint(loop, factory, sock) with a factory building the interface; the loop's
    call_soon / call_later / create_task run their callbacks later, in the context captured when they were
    scheduled, as asyncio does), then interface.send(message) for one or two messages while the socket's sendmsg
    raises OSError for some of them.  Interface and transport objects are built by their own __init__ and all
    their methods are evaluated; the socket, the loop, the messages and the message manager behind the interface
    are opaque individuals.  At the end error_received is called once more while no send is under way.  Observed: the calls of dispatch_error on whatever the interface reports errors to."""
    def build():
        entry = _anchor(ctx, prog, "util.asyncio.recvmsg.create_recvmsg_datagram_endpoint")
        eps = params(entry)
        ctx.need(len(eps) == 3, "create_recvmsg_datagram_endpoint: (loop, factory, sock) expected")
        init = prog.lookup_method(pq, "__init__")
        ctx.need(init is not None and sorted(params(init)) == ["bind", "log", "loop"], "%s.__init__: (bind, log, loop) expected" % pq)
        send = prog.lookup_method(pq, "send")
        ctx.need(send is not None and len(params(send)) == 1, "%s.send: (message) expected" % pq)
        ctx.prog.touched.add(send.qn)
        evaluate = {pq} | {c for c in prog.classes if prog.classes[c].module is entry.module}
        runs = []
        for desc, sends, drain_each in _SEND_SCENARIOS:
            def run(script, desc=desc, sends=sends, drain_each=drain_each):
                r = _SERun()
                r.desc, r.sends = desc, sends
                loop, log, sock = kit.Obj("loop", True), kit.Obj("log", True), kit.Obj("socket", True)
                r.remotes = [kit.Obj("remote-%d" % (i + 1), True, attrs={"pktinfo": None, "sockaddr": kit.Obj("sockaddr-%d" % (i + 1), True)}) for i in range(2)]
                queue, futures, state = [], [], {"errno": None}
                r.refused = []

                def root(o):
                    while o.parent is not None:
                        o = o.parent
                    return o

                def schedule(it, cb, args, kwargs):
                    c = kwargs.get("context")
                    if c is not None and not isinstance(c, kit.CtxSnap):
                        it.refuse("callback scheduled with a context the world does not model")
                    extra = set(kwargs) - {"context", "name"}
                    if extra:
                        it.refuse("callback scheduled with keyword(s) %s" % ", ".join(sorted(extra)))
                    queue.append((cb, list(args), dict(it.context) if c is None else None, c))
                    return it.fresh("handle", known=True)

                def opaque(it, callee, args, kwargs, node):
                    if callee.parent == loop and callee.attr in ("call_soon", "call_soon_threadsafe") and args:
                        return schedule(it, args[0], args[1:], kwargs)
                    if callee.parent == loop and callee.attr in ("call_later", "call_at") and len(args) >= 2:
                        return schedule(it, args[1], args[2:], kwargs)
                    if ((callee.parent == loop and callee.attr == "create_task") or callee.name in ("ext:asyncio.create_task", "ext:asyncio.ensure_future")) and len(args) == 1 and isinstance(args[0], kit.Coro):
                        return schedule(it, kit.HostFunc("task step", lambda it_, a, k, n, co=args[0]: it_.await_value(co, n)), [], kwargs)
                    if callee.name in ("ext:asyncio.get_running_loop", "ext:asyncio.get_event_loop") and not args:
                        return loop
                    if callee.attr == "create_future" and not args:
                        f_ = it.fresh("future", known=True)
                        futures.append(f_)
                        return f_
                    if callee.parent in futures and callee.attr in ("cancelled", "done") and not args:
                        return False
                    if callee.parent == sock and callee.attr == "fileno" and not args:
                        return 7
                    if callee.parent == sock and callee.attr == "sendmsg":
                        if state["errno"] is not None:
                            exc = it.new_exc("OSError")
                            exc.attrs["errno"] = kit.Obj("ext:errno." + state["errno"], True)
                            r.refused.append(exc)
                            raise kit.Raised(exc, node)
                        return it.fresh("bytes-sent", known=True)
                    if callee.attr == "dispatch_error" and root(callee) == r.iface:
                        return None
                    return NotImplemented

                it = kit.XInterp(prog, script, opaque_call=opaque, evaluate_classes=evaluate)
                r.it = it
                r.iface = None

                def factory(it_, a, k, n):
                    if a or k:
                        raise kit.Raised(it_.new_exc("TypeError"), n)
                    r.iface = it_.instantiate(pq, [], {"bind": ("::", 0), "log": log, "loop": loop}, n)
                    return r.iface

                def drain():
                    n = 0
                    while queue:
                        n += 1
                        if n > 50:
                            it.refuse("the loop's callbacks keep scheduling callbacks")
                        cb, args, snap, cobj = queue.pop(0)
                        if cobj is not None:
                            it.run_in_context(cobj.mapping, cb, args, {}, None, keep=cobj)
                        else:
                            it.run_in_context(snap, cb, args, {}, None)

                def scenario():
                    made = it.await_value(it.call(kit.Func(entry.node, entry.module, qn=entry.qn), [loop, kit.HostFunc("factory", factory)], {eps[2]: sock}, entry.node), entry.node)
                    if not (isinstance(made, tuple) and len(made) == 2 and r.iface is not None and made[1] == r.iface):
                        it.refuse("create_recvmsg_datagram_endpoint does not return (transport, the protocol the factory built)")
                    drain()
                    r.setup_events = len(it.events)
                    for i, (ri, en) in enumerate(sends):
                        msg = kit.Obj("message-%d" % (i + 1), True, attrs={"remote": r.remotes[ri]})
                        state["errno"] = en
                        it.call(it.getattr(r.iface, "send"), [msg], {}, send.node)
                        state["errno"] = None
                        if drain_each:
                            drain()
                    drain()
                    # afterwards the transport reports an error of its receive path: no send is under way
                    r.idle_events = len(it.events)
                    exc = it.new_exc("OSError")
                    exc.attrs["errno"] = kit.Obj("ext:errno.ECONNREFUSED", True)
                    it.call(it.getattr(r.iface, "error_received"), [exc], {}, send.node)
                    drain()
                    return None
                r.result = it.run(scenario)
                return it, r
            for it, r in kit.explore(run):
                runs.append(r)
        return send, runs
    return _cached(ctx, "send-error:" + pq, build)


@R.clause("C02.m", "a send error reported by the socket fails the requests of the remote the datagram was addressed to: what send() records is what error_received() reads when the transport calls it")
def m(ctx):
    """An unconnected datagram socket reports an OSError of sendmsg without saying for which destination.  The
    interface therefore records the destination around the call of transport.sendmsg, and error_received -- called
    by the transport, immediately or through the loop -- reads it back and hands (error, remote) to dispatch_error
    (whose fan-out is C02.j / C02.e).  Both sides may change (plain attribute or context variable; synchronous call
    or loop.call_soon, which captures the context) as long as the value read is the one recorded for the failing
    send; otherwise the error is dropped ("no way to determine which sending caused the error") and a NON request
    never completes.  Decided on worlds, not on the spelling of either side."""
    prog = _world_prog(ctx)
    base = prog.cls("util.asyncio.recvmsg.RecvmsgDatagramProtocol").qn
    ifaces = sorted(q for q in prog.classes if q != base and prog.is_subclass(q, base))
    ctx.floor("message interfaces on the recvmsg transport", len(ifaces), 1)
    for pq in ifaces:
        fi, runs = _send_error_runs(ctx, prog, pq)
        V = _Verdicts(ctx, fi)
        for r in runs:
            w = "world: %s" % r.desc
            kind, val, node = r.result
            V.check("sending a datagram does not raise, whatever the socket reports", kind == "return", node, "%s: %s escapes" % (w, val.cls if kind == "raise" else ""), run=r)
            if kind != "return":
                continue
            calls = [e_ for e_ in r.it.events[r.setup_events:r.idle_events] if e_.kind == "call" and e_.callee.attr == "dispatch_error"]
            idle = [e_ for e_ in r.it.events[r.idle_events:] if e_.kind == "call" and e_.callee.attr == "dispatch_error"]
            for e_ in idle:
                named = [a_ for a_ in list(e_.args) + list(e_.kwargs.values()) if a_ in r.remotes]
                V.check("an error the transport reports while no send is under way is not attributed to a remote of an earlier send", not named, e_.node,
                        "%s; then the receive path reports ECONNREFUSED: dispatch_error is called for %s" % (w, ", ".join(x.name for x in named)), run=r)
            V.check("an error the transport reports while no send is under way is not attributed to a remote of an earlier send", True)
            want = [r.remotes[ri] for ri, en in r.sends if en is not None]
            got = []
            for e_ in calls:
                args = list(e_.args) + [e_.kwargs[k_] for k_ in e_.kwargs]
                got.append([a_ for a_ in args if a_ in r.remotes])
            desc = "a send error reported by the socket is dispatched with the remote the failing datagram was addressed to"
            for e_, g_ in zip(calls, got):
                V.check(desc, len(g_) == 1 and g_[0] in want, e_.node,
                        "%s: dispatch_error is called for %s" % (w, ", ".join(x.name for x in g_) or "no remote of the world"), run=r)
            for rm in want:
                V.check(desc, any(g_ == [rm] for g_ in got), None,
                        "%s: no dispatch_error for %s: the error is dropped, requests to that remote that nothing retransmits never complete" % (w, rm.name), run=r)
            if not want:
                V.check("no error is dispatched when the socket accepted every datagram", not calls, calls[0].node if calls else None, "%s: dispatch_error is called" % w, run=r)
            V.check(desc, True)
        V.emit()


# -- reporting an event to a pipe cannot raise in the reporter ----------------------------------------------------------

def _esc_node(prog, e):
    """The construct an escape originates from: the raise statement / call on the reported line of the reported function."""
    try:
        fi = prog.func(e.func)
    except Exception:
        return None, None
    best = None
    for n in ast.walk(fi.node):
        if getattr(n, "lineno", None) == e.line and isinstance(n, (ast.Raise, ast.Call)):
            if isinstance(n, ast.Raise):
                return fi, n
            if best is None:
                best = n
    return fi, best


@R.clause("C02.n", "reporting an event to a pipe (add_response / add_exception, live or already ended) cannot raise in the reporter: every request of the remote is failed by dispatch_error")
def n(ctx):
    """TokenManager.dispatch_error fails the requests of a remote one after the other; what reports an event to a
    request calls Pipe.add_exception / add_response.  If one of those calls raises (found: the ended-pipe arm of
    _add_event logged with a keyword logging.Logger.error does not take -> TypeError), the exception lands in the
    reporter and the remaining requests of the remote are never failed.  Decided in two steps: (1) the may-raise set
    of Pipe.add_exception / add_response over the pipe's OWN statements (escape analysis through _add_event, _end,
    ...; invoking the registered callbacks is application code and not part of it; a logging call with a keyword
    outside exc_info / stack_info / stacklevel / extra is an implicit TypeError); (2) for every class that can
    escape, dispatch_error is run on the C02.e worlds with the first failed request raising that class: the clause
    holds all the same if every other request of the remote is still failed / stopped (a reporter that isolates its
    stoppers), otherwise the origin of the escape is reported."""
    from ..exc import EscapeAnalysis
    prog = ctx.prog
    EA = EscapeAnalysis(prog)
    pq = prog.cls("pipe.Pipe").qn
    reporters = [("add_exception", prog.func("pipe.Pipe.add_exception")), ("add_response", prog.func("pipe.Pipe.add_response"))]
    seen = {}
    for name, fi in reporters:
        escs = sorted(EA.escapes(fi, selfcls=pq), key=lambda e_: (e_.func, e_.line, e_.cls))
        if not escs:
            ctx.ob("Pipe.%s cannot raise into whoever reports the event (the pipe's own statements, live and ended arm)" % name, True, fi, fi.node, construct="def %s" % name,
                   detail="may-raise set of the pipe's own statements: empty")
        else:
            ctx.note("may-raise set of Pipe.%s: %s" % (name, ", ".join("%s at %s:%d" % (e_.cls, e_.func, e_.line) for e_ in escs)))
        for e_ in escs:
            seen.setdefault((e_.func, e_.line, e_.cls), (e_, []))[1].append(name)
    ctx.extra["pipe_event_unresolved_calls"] = sorted({"%s: %s" % u for u in EA.unresolved if u[0].startswith("pipe.")})
    for (func, line, cls), (e_, names) in sorted(seen.items()):
        ofi, node = _esc_node(prog, e_)
        tolerated = False
        detail = "%s can leave Pipe.%s: %s" % (cls, " / Pipe.".join(names), e_.text)
        if "add_exception" in names:
            dfi, _ne, runs = _dispatch_error_runs(ctx, raising=cls)
            tolerated = True
            for r in runs:
                if r.it.choices or r.it.blind:
                    raise AnalysisError("%s: the evaluated world does not determine the outcome of a raising add_exception" % dfi.short)
                fails = [x for x in r.it.events if x.kind == "call" and x.callee.attr == "add_exception" and x.callee.parent is not None]
                stops = [x for x in r.it.events if x.kind == "call" and x.callee.parent is None and x.callee in r.stop_mine]
                n_out = [sum(1 for x in fails if x.callee.parent == q) for q in r.mine]
                n_in = [sum(1 for x in stops if x.callee == s_) for s_ in r.stop_mine]
                if not (all(x >= 1 for x in n_out) and all(x >= 1 for x in n_in)):
                    tolerated = False
                    detail += "; world: two outgoing and two incoming requests of the reported remote, %s has already ended and its add_exception raises %s: TokenManager.dispatch_error %s, outgoing requests failed %s times, incoming stoppers invoked %s times -- the others never complete" % (
                        r.raised_in.name if r.raised_in is not None else "-", cls, "lets it escape" if r.result[0] == "raise" else "returns", n_out, n_in)
                    break
        else:
            detail += "; the response path (TokenManager.process_response) does not isolate the call"
        if ofi is None or node is None:
            ofi, node = reporters[0][1], reporters[0][1].node
        ctx.ob("nothing in the pipe's own event reporting raises into the reporter, or the reporter fails every request of the remote regardless", tolerated, ofi, node, detail=detail)


# -- the task that carries a request to its interface ---------------------------------------------------------------

_SPAWNERS = ("create_task", "ensure_future")
_TASK_QUERIES = ("add_done_callback", "remove_done_callback", "set_name", "get_name", "done", "cancelled", "get_coro")
_COLLECT = ("add", "append", "appendleft", "insert")
_DROP = ("discard", "remove")
_SNAPSHOTS = ("list", "tuple", "set", "frozenset", "sorted", "reversed", "iter")


def _parent_map(root):
    pm = {}
    for n in ast.walk(root):
        for c in ast.iter_child_nodes(n):
            pm[id(c)] = n
    return pm


def _enclosing(pm, node, kinds):
    n = pm.get(id(node))
    while n is not None and not isinstance(n, kinds):
        n = pm.get(id(n))
    return n


def _catches_cancellation(prog, fi, handler):
    if handler.type is None:
        return True
    tys = handler.type.elts if isinstance(handler.type, ast.Tuple) else [handler.type]
    for t in tys:
        name = chain(t)
        if name is None:
            raise AnalysisError("%s: except clause over `%s`" % (fi.short, stmt_text(t)))
        qn = prog.resolve_in_module(fi.module, name)
        if qn in ("BaseException", "CancelledError", "asyncio.CancelledError", "asyncio.exceptions.CancelledError", "concurrent.futures.CancelledError"):
            return True
    return False


def _fails_request_when_cancelled(prog, fi, co):
    """Every suspension point of the coroutine `co` lies in the body of a try statement with a handler that receives
    the cancellation (bare / BaseException / CancelledError) and reports a failure to a pipe (add_exception)."""
    pm = _parent_map(co)
    points = [n for n in walk_no_nested(co) if isinstance(n, (ast.Await, ast.AsyncFor, ast.AsyncWith))]
    for pt in points:
        ok = False
        for t in _try_bodies_around(co, pt):
            if any(isinstance(c, ast.Call) and isinstance(c.func, ast.Attribute) and c.func.attr == "add_exception" for st in t.finalbody for c in ast.walk(st)):
                raise AnalysisError("%s: the request is failed in a finally clause: outside the rule's vocabulary" % fi.short)
            for h in t.handlers:
                if _catches_cancellation(prog, fi, h) and any(isinstance(c, ast.Call) and isinstance(c.func, ast.Attribute) and c.func.attr == "add_exception" for st in h.body for c in ast.walk(st)):
                    ok = True
        if not ok:
            return False, pt
    return True, None


def _field_cancel_sites(ctx, owner_cls, field, single):
    """All places of the package where a task kept in the attribute `field` is cancelled.  Every mention of the
    attribute (any receiver except `self` of an unrelated class) is classified: bookkeeping (initialisation with an
    empty collection, add / discard / remove also as a method value, len, truth, membership, asyncio.wait -- which
    never cancels what it waits for) is harmless; iteration (also over a snapshot, in a comprehension, or pop()) binds
    an element whose uses are classified in turn (queries harmless, cancel() = a cancel site); whatever else happens
    to the collection or to an element (passed on, awaited, gathered, wait_for) is outside the rule's vocabulary,
    because awaiting / gathering a task hands the waiter's cancellation on to it."""
    prog = ctx.prog
    sites = []

    def elem_uses(scope_nodes, name, where, pm):
        for root in scope_nodes:
            for n in ast.walk(root):
                if isinstance(n, ast.Name) and n.id == name and isinstance(n.ctx, ast.Load):
                    par = pm.get(id(n))
                    if isinstance(par, ast.Attribute) and par.value is n:
                        gp = pm.get(id(par))
                        if isinstance(gp, ast.Call) and gp.func is par:
                            if par.attr == "cancel":
                                sites.append((where, gp))
                                continue
                            if par.attr in _TASK_QUERIES:
                                continue
                    raise AnalysisError("%s: a task kept in .%s is used as `%s`: outside the rule's vocabulary" % (where.short, field, stmt_text(pm.get(id(n)) or n)))

    for m in prog.modules.values():
        if not any(isinstance(n, ast.Attribute) and n.attr == field for n in ast.walk(m.tree)):
            continue
        pm = _parent_map(m.tree)
        for n in ast.walk(m.tree):
            if not (isinstance(n, ast.Attribute) and n.attr == field):
                continue
            fdef = _enclosing(pm, n, (ast.FunctionDef, ast.AsyncFunctionDef, ast.Lambda))
            outer = fdef
            while outer is not None and isinstance(outer, ast.Lambda):
                outer = _enclosing(pm, outer, (ast.FunctionDef, ast.AsyncFunctionDef))
            where = next((f for f in prog.funcs.values() if f.node is outer), None)
            if where is None:
                raise AnalysisError("attribute .%s is used outside a function in %s" % (field, m.name))
            if chain(n.value) == "self" and where.cls is not None and not (prog.is_subclass(where.cls.qn, owner_cls) or prog.is_subclass(owner_cls, where.cls.qn)):
                continue  # the same attribute name on an object of an unrelated class
            par = pm.get(id(n))
            # the collection itself, possibly behind a snapshot
            coll = n
            while isinstance(par, ast.Call) and coll in par.args and len(par.args) == 1 and not par.keywords and chain(par.func) in _SNAPSHOTS:
                coll, par = par, pm.get(id(par))
            if isinstance(par, ast.Call) and isinstance(par.func, ast.Attribute) and par.func.value is coll and par.func.attr == "copy" and not par.args:
                coll, par = par, pm.get(id(par))
            if isinstance(n.ctx, (ast.Store, ast.Del)):
                continue  # (re)binding the attribute: what is stored is judged where the task is spawned
            if isinstance(par, ast.Attribute) and par.value is coll:
                gp = pm.get(id(par))
                called = isinstance(gp, ast.Call) and gp.func is par
                if par.attr in _COLLECT + _DROP + ("clear",) or (single and par.attr in _TASK_QUERIES):
                    continue
                if single and par.attr == "cancel" and called:
                    sites.append((where, gp))
                    continue
                if par.attr in ("pop", "popleft", "popitem") and called:
                    ggp = pm.get(id(gp))
                    if isinstance(ggp, ast.Attribute) and ggp.attr == "cancel" and isinstance(pm.get(id(ggp)), ast.Call):
                        sites.append((where, pm.get(id(ggp))))
                        continue
                    if isinstance(ggp, ast.Assign) and len(ggp.targets) == 1 and isinstance(ggp.targets[0], ast.Name):
                        elem_uses([outer], ggp.targets[0].id, where, pm)
                        continue
                raise AnalysisError("%s: the tasks kept in .%s are used as `%s`: outside the rule's vocabulary" % (where.short, field, stmt_text(gp if called else par)))
            if isinstance(par, (ast.For, ast.AsyncFor)) and par.iter is coll:
                if not isinstance(par.target, ast.Name):
                    raise AnalysisError("%s: iteration over .%s with a structured target" % (where.short, field))
                elem_uses(par.body + par.orelse, par.target.id, where, pm)
                continue
            if isinstance(par, ast.comprehension) and par.iter is coll:
                comp = pm.get(id(par))
                if not isinstance(par.target, ast.Name):
                    raise AnalysisError("%s: iteration over .%s with a structured target" % (where.short, field))
                parts = [x for x in ast.iter_child_nodes(comp) if x is not par] + list(par.ifs)
                elem_uses(parts, par.target.id, where, pm)
                continue
            if isinstance(par, ast.Call) and coll in par.args and chain(par.func) in ("len", "bool", "asyncio.wait"):
                continue
            if isinstance(par, (ast.If, ast.While, ast.IfExp)) and par.test is coll:
                continue
            if isinstance(par, ast.UnaryOp) and isinstance(par.op, ast.Not):
                continue
            if isinstance(par, ast.BoolOp):
                continue
            if isinstance(par, ast.Compare) and coll in par.comparators and all(isinstance(o, (ast.In, ast.NotIn)) for o in par.ops):
                continue
            if isinstance(par, ast.AnnAssign) and par.annotation is not n:
                continue
            if single and isinstance(par, ast.Compare) and all(isinstance(o, (ast.Is, ast.IsNot)) for o in par.ops):
                continue
            raise AnalysisError("%s: the tasks kept in .%s are used as `%s`: outside the rule's vocabulary" % (where.short, field, stmt_text(par)))
    return sites


def _loop_like(fi, recv):
    """The receiver of a spawning call is the event loop / the asyncio module (not a TaskGroup or another owner that
    cancels what it spawned)."""
    if recv is None:
        return False
    r = resolve_local(fi.node, recv)
    if chain(r) in ("self.loop", "asyncio", "loop", "self._loop"):
        return True
    return isinstance(r, ast.Call) and chain(r.func) in ("asyncio.get_running_loop", "asyncio.get_event_loop")


def _carrier_functions(ctx):
    """Context.request and the functions that are not part of the confirmed tree (helpers somebody split off) which
    it reaches by `self.h(...)` / `h(...)` calls, transitively."""
    prog = ctx.prog
    start = prog.func("protocol.Context.request")
    base = kit.baseline_functions()
    out, todo = [], [start]
    while todo:
        fi = todo.pop()
        if any(f is fi for f in out):
            continue
        out.append(fi)
        for c in ast.walk(fi.node):
            if not isinstance(c, ast.Call):
                continue
            callee = None
            if isinstance(c.func, ast.Attribute) and chain(c.func.value) in ("self", "cls") and fi.cls is not None:
                callee = prog.lookup_method(fi.cls.qn, c.func.attr)
            elif isinstance(c.func, ast.Name):
                callee = prog.funcs.get(prog.resolve_in_module(fi.module, c.func.id))
            if callee is not None and callee.qn not in base and not isinstance(callee.node, ast.Lambda):
                todo.append(callee)
    return out


def _carrier_tasks(ctx, fi, owner):
    prog = ctx.prog
    pm = _parent_map(fi.node)
    spawns = [c for c in walk_no_nested(fi.node) if isinstance(c, ast.Call) and (chain(c.func) or "").split(".")[-1] in _SPAWNERS]
    found = 0
    for sp in spawns:
        coro = sp.args[0] if sp.args else next((k.value for k in sp.keywords if k.arg in ("coro", "coro_or_future")), None)
        ctx.need(coro is not None, "%s: task without a coroutine argument" % fi.short)
        coro = resolve_local(fi.node, coro)
        ctx.need(isinstance(coro, ast.Call), "%s: the coroutine of the task is not a call (`%s`)" % (fi.short, stmt_text(coro)))
        co = None
        if isinstance(coro.func, ast.Name):
            co = next((n for n in ast.walk(fi.node) if isinstance(n, ast.AsyncFunctionDef) and n.name == coro.func.id), None)
            if co is None:
                mfi = prog.funcs.get(prog.resolve_in_module(fi.module, coro.func.id))
                co = mfi.node if mfi is not None and isinstance(mfi.node, ast.AsyncFunctionDef) else None
        elif isinstance(coro.func, ast.Attribute) and chain(coro.func.value) == "self" and fi.cls is not None:
            mfi = prog.lookup_method(fi.cls.qn, coro.func.attr)
            co = mfi.node if mfi is not None and isinstance(mfi.node, ast.AsyncFunctionDef) else None
        ctx.need(co is not None, "%s: cannot resolve the coroutine function of `%s`" % (fi.short, stmt_text(coro)))
        if not any(isinstance(c, ast.Call) and isinstance(c.func, ast.Attribute) and c.func.attr in ("add_exception", "request") for c in ast.walk(co)):
            continue  # not the task that carries the request
        found += 1
        ctx.need(_loop_like(fi, sp.func.value if isinstance(sp.func, ast.Attribute) else None),
                 "%s: the task that carries the request is spawned by `%s`: an owner that may cancel it is outside the rule's vocabulary" % (fi.short, stmt_text(sp.func)))
        # who holds the task
        holders = []  # (field, single)
        local_cancels = []

        def self_field(e):
            ch = chain(e) or ""
            return ch.startswith("self.") and ch.count(".") == 1
        par = pm.get(id(sp))
        if isinstance(par, ast.Expr):
            pass
        elif isinstance(par, ast.Assign) and len(par.targets) == 1 and isinstance(par.targets[0], ast.Name):
            name = par.targets[0].id
            ctx.need(len(writes_to_name(fi.node, name)) == 1, "%s: the task's local `%s` is assigned more than once" % (fi.short, name))
            for n in ast.walk(fi.node):
                if not (isinstance(n, ast.Name) and n.id == name and isinstance(n.ctx, ast.Load)):
                    continue
                up = pm.get(id(n))
                if isinstance(up, ast.Attribute) and up.value is n and isinstance(pm.get(id(up)), ast.Call) and pm.get(id(up)).func is up:
                    if up.attr in _TASK_QUERIES:
                        continue
                    if up.attr == "cancel":
                        local_cancels.append(pm.get(id(up)))
                        continue
                if isinstance(up, ast.Call) and n in up.args and isinstance(up.func, ast.Attribute) and up.func.attr in _COLLECT and self_field(up.func.value):
                    holders.append((up.func.value.attr, False))
                    continue
                if isinstance(up, ast.Assign) and up.value is n and len(up.targets) == 1 and self_field(up.targets[0]):
                    holders.append((up.targets[0].attr, True))
                    continue
                raise AnalysisError("%s: the task that carries the request is used as `%s`: outside the rule's vocabulary" % (fi.short, stmt_text(up)))
        elif isinstance(par, ast.Assign) and len(par.targets) == 1 and self_field(par.targets[0]):
            holders.append((par.targets[0].attr, True))
        elif isinstance(par, ast.Call) and sp in par.args and isinstance(par.func, ast.Attribute) and par.func.attr in _COLLECT and self_field(par.func.value):
            holders.append((par.func.value.attr, False))
        else:
            raise AnalysisError("%s: the task that carries the request is used as `%s`: outside the rule's vocabulary" % (fi.short, stmt_text(par)))
        sites = [(fi, c) for c in local_cancels]
        for field, single in holders:
            sites.extend(_field_cancel_sites(ctx, owner, field, single))
        held = ", ".join("self." + f for f, _s in holders)
        ctx.note("task carrying the request (%s): held by %s; cancel sites: %s" % (fi.short, held or "the loop only", ", ".join(w.short for w, _c in sites) or "none"))
        desc = "nobody in the library cancels the task that carries a request to its interface"
        if not sites:
            ctx.ob(desc, True, fi, sp, detail="the task is %s; no cancel() reaches it" % ("kept in " + held if holders else "held by the loop only"))
            continue
        handled, pt = _fails_request_when_cancelled(prog, fi, co)
        if handled:
            # a handler inside the coroutine does not see a cancellation that arrives before the coroutine's first
            # step (the CancelledError is thrown in at the `def`, outside every try): whether something else covers
            # that window is not decided here
            raise AnalysisError("%s: the task that carries the request is cancelled by %s and its coroutine handles the cancellation: a cancellation before the first step is outside the rule's vocabulary" % (
                fi.short, ", ".join(sorted({w.short for w, _c in sites}))))
        for where, c in sites:
            ctx.ob(desc, False, where, c,
                   detail="the task spawned by %s is kept in %s and cancelled here; CancelledError is a BaseException: at `%s` no handler of %s receives it and fails the pipe, the response future of the request stays pending for ever" % (
                       fi.short, held or "a local", stmt_text(pt) if pt is not None else co.name, co.name))
    return found


@R.clause("C02.o", "the task that brings a request to its request interface ends only by handing the request over or failing it: nobody in the library can cancel it")
def o(ctx):
    """Context.request() spawns a task whose coroutine finds the interface and hands the pipe over; whatever else ends
    that coroutine must fail the pipe, or the response future stays pending for good.  Exceptions are a matter of
    the coroutine's handlers; *cancellation* (CancelledError, a BaseException its `except Exception` does not see) can
    only be thrown in by somebody who holds the task.  Invariant over ALL holders: the task is spawned on the loop
    (not by an owner that cancels its children), nothing in the package enumerates the loop's tasks, and the value
    of the spawning call is dropped (only the loop holds it), or used for harmless queries (a done-callback runs when
    the task is over), or kept in an attribute of the context -- then every use of that attribute in the package is
    classified, and a cancel() of a kept task whose coroutine has a suspension point that no cancellation-receiving,
    pipe-failing handler covers is reported.  Anything the classification does not understand is refused."""
    prog = ctx.prog
    start = prog.func("protocol.Context.request")
    for m in prog.modules.values():
        for n in ast.walk(m.tree):
            if isinstance(n, ast.Attribute) and n.attr == "all_tasks":
                raise AnalysisError("%s enumerates the loop's tasks (all_tasks): who may cancel the task that carries a request is outside the rule's vocabulary" % m.name)
    found = 0
    for fi in _carrier_functions(ctx):
        found += _carrier_tasks(ctx, fi, start.cls.qn)
    ctx.floor("tasks that carry a request from Context.request to its interface", found, 1)


F_TM = "aiocoap/tokenmanager.py"
R.seed("C02.j", "aiocoap/messagemanager.py", "        self.log.debug(\"Incoming error %s from %r\", error, remote)\n", "        self.log.debug(\"Incoming error %s from %r\", error, remote)\n        if remote not in self._backlogs:\n            return\n", "errors for remotes without an open exchange are dropped: NON requests and observations never fail")
R.seed("C02.i", "aiocoap/messagemanager.py", "            del self._backlogs[message.remote]\n            self.token_manager.dispatch_error(", "            self.token_manager.dispatch_error(", "stale backlog entry after a timeout: the next request to that remote never completes with a library error")
R.seed("C02.a", F_TM, "            key = (msg.token, msg.remote)\n", "            key = (msg.token, None)\n", "remote dropped on the unicast arm")
R.seed("C02.a", F_TM, "        key = (response.token, response.remote)\n        if key not in self.outgoing_requests:", "        key = (response.token, None)\n        if key not in self.outgoing_requests:", "lookup ignores the remote")
R.seed("C02.a", F_TM, "            # maybe it was a multicast...\n            key = (response.token, None)", "            # maybe it was a multicast...\n            key = (None, response.remote)", "fall-back ignores the token")
R.seed("C02.b", F_TM, "            self.log.info(\"Response %r could not be matched to any request\", response)\n            return False", "            self.log.info(\"Response %r could not be matched to any request\", response)\n            return True", "unknown token acknowledged")
R.seed("C02.c", F_TM, "        if final:\n            self.outgoing_requests.pop(key)\n", "        self.outgoing_requests.pop(key)\n", "observation token retired after first notification")
R.seed("C02.c", F_TM, "        if final:\n            self.outgoing_requests.pop(key)\n", "", "token never retired")
R.seed("C02.c", F_TM, "            request.request.opt.observe == 0 and response.opt.observe is not None", "            request.request.opt.observe is not None and response.opt.observe is not None", "deregistration keeps the token")
R.seed("C02.c", F_TM, "        request.add_response(response, is_last=final)", "        request.add_response(response, is_last=True)", "is_last constant")
R.seed("C02.c", F_TM, "        request.on_interest_end(\n            functools.partial(self.outgoing_requests.pop, key, None)\n        )\n", "", "cancelled request stays registered")
R.seed("C02.c", "aiocoap/messagemanager.py", "        self.log.debug(\"Incoming error %s from %r\", error, remote)\n", "        self.log.debug(\"Incoming error %s from %r\", error, remote)\n        self.token_manager.outgoing_requests.clear()\n", "foreign writer")
R.seed("C02.a", F_TM, "            key = (msg.token, None)\n", "            key = (msg.token, msg.remote)\n", "multicast request filed under the group address: no response (they come from unicast addresses) ever matches")
R.seed("C02.c", F_TM, "        self.outgoing_requests[key] = request\n        request.on_interest_end(\n            functools.partial(self.outgoing_requests.pop, key, None)\n        )\n",
       "        request.on_interest_end(\n            functools.partial(self.outgoing_requests.pop, key, None)\n        )\n        self.outgoing_requests[key] = request\n",
       "removal hooked up before the registration: a request nobody is interested in any more stays registered for good")
R.seed("C02.c", F_TM, "            functools.partial(self.outgoing_requests.pop, key, None)\n", "            functools.partial(self.outgoing_requests.pop, key)\n",
       "removal not tolerant: KeyError out of the pipe callbacks once the final response retired the key")
R.seed("C02.c", F_TM, "            functools.partial(self.outgoing_requests.pop, key, None)\n", "            functools.partial(self.outgoing_requests.pop, (msg.token, msg.remote), None)\n",
       "removal under the unicast key: cancelled multicast requests stay registered")
R.seed("C02.b", F_TM, "            request = self.outgoing_requests[key]\n        except KeyError:", "            request = self.outgoing_requests[key]\n            request.add_response(response, is_last=False)\n        except KeyError:", "delivered twice")
R.seed("C02.d", F_TM, "        msg.token = self.next_token()\n", "        msg.token = msg.token or self.next_token()\n", "a token supplied from outside is kept: not fresh")
R.seed("C02.d", F_TM, "        return self._token.to_bytes(8, \"big\").lstrip(b\"\\0\")", "        return self._token.to_bytes(8, \"big\").strip(b\"\\0\")", "0x01 and 0x0100 give the same token")
R.seed("C02.e", F_TM, "                stoppers.append(\n                    lambda request=request, exception=exception: request.add_exception(\n                        exception\n                    )\n                )",
       "                request.add_exception(exception)", "requests failed while the table is iterated: failing a request pops its entry -> RuntimeError, the remaining requests never fail")
R.seed("C02.d", F_TM, "        self._token = (self._token + 1) % (2**64)", "        self._token = (self._token + 0) % (2**64)", "token never changes")
R.seed("C02.d", F_TM, "        self._token = (self._token + 1) % (2**64)", "        self._token = (self._token + 1) % (2**4)", "16 tokens only")
R.seed("C02.d", F_TM, "        return self._token.to_bytes(8, \"big\").lstrip(b\"\\0\")", "        return self._token.to_bytes(8, \"big\")[:1]", "non-injective rendering")
R.seed("C02.e", F_TM, "            if request_remote == remote:\n                stoppers.append(", "            if True:\n                stoppers.append(", "all remotes failed")
R.seed("C02.e", F_TM, "        if not isinstance(exception, error.NetworkError):\n            cause = exception\n            exception = error.NetworkError(str(exception))\n            exception.__cause__ = cause\n", "", "raw OSError handed to the application")
R.seed("C02.e", F_TM, "                    lambda request=request, exception=exception: request.add_exception(\n                        exception\n                    )", "                    lambda: request.add_exception(\n                        exception\n                    )", "late-binding closure: only the last request is failed")
R.seed("C02.e", F_TM, "                    lambda request=request, exception=exception: request.add_exception(\n                        exception\n                    )", "                    (lambda r: lambda: request.add_exception(exception))(request)",
       "closure factory that ignores its parameter: the closures still refer to the loop variable")
R.seed("C02.e", F_TM, "                    lambda request=request, exception=exception: request.add_exception(\n                        exception\n                    )", "                    functools.partial(lambda exc: request.add_exception(exc), exception)",
       "partial binds the exception only, the request is looked up when the stopper runs")
R.seed("C02.e", F_TM, "        for (_, _r), (_, stopper) in self.incoming_requests.items():\n            if remote == _r:\n                stoppers.append(stopper)", "        stoppers.extend(stopper for (_, stopper) in self.incoming_requests.values())", "incoming requests of all remotes stopped")
R.seed("C02.e", F_TM, "        for (_, _r), (_, stopper) in self.incoming_requests.items():\n            if remote == _r:", "        for (_r, _), (_, stopper) in self.incoming_requests.items():\n            if remote == _r:", "compares the token component with the remote: nothing is ever stopped")
R.seed("C02.f", "aiocoap/protocol.py", "        if self.observation is None:\n            if not first_event.is_last:", "        if self.observation is None:\n            self.response.set_result(first_event.message)\n            if not first_event.is_last:", "second completion")
R.seed("C02.f", "aiocoap/protocol.py", "            self.response.set_exception(first_event.exception)\n            if not isinstance(first_event.exception, error.Error):", "            if not isinstance(first_event.exception, error.Error):", "error event leaves the future pending")
R.seed("C02.h", "aiocoap/transports/udp6.py", "        return self.sockaddr[:-1] == other.sockaddr[:-1]", "        return self.sockaddr[:1] == other.sockaddr[:1]", "port ignored")
R.seed("C02.h", "aiocoap/transports/udp6.py", "        return hash(self.sockaddr[:-1])", "        return hash(self.sockaddr)", "hash and eq disagree")
F_MSG = "aiocoap/message.py"
F_GAI = "aiocoap/util/asyncio/getaddrinfo_addrconfig.py"
F_UDP6 = "aiocoap/transports/udp6.py"
R.seed("C02.k", F_MSG, "        token_length = vttkl & 0x0F\n", "        token_length = vttkl & 0x0F\n        if token_length > 7:\n            raise error.UnparsableMessage(\"Reserved token length\")\n",
       "reserved-length check off by one: datagrams with the legal 8-byte token are dropped before matching")
R.seed("C02.k", F_MSG, "        token_length = vttkl & 0x0F\n", "        token_length = vttkl & 0x07\n", "token length read from three bits: an 8-byte token is parsed as an empty one, the response matches nothing")
R.seed("C02.k", F_MSG, "        msg.token = rawdata[4 : 4 + token_length]\n", "        msg.token = rawdata[4 : 3 + token_length]\n", "last token byte cut off")
R.seed("C02.k", F_MSG, "        msg.remote = remote\n        msg.direction = Direction.INCOMING\n        return msg", "        msg.direction = Direction.INCOMING\n        return msg",
       "parsed message without the remote it came from: (token, remote) never matches")
R.seed("C02.k", F_MSG, "            (vttkl, code, mid) = struct.unpack(\"!BBH\", rawdata[:4])", "            (vttkl, code, mid) = struct.unpack(\"<BBH\", rawdata[:4])", "message ID read little-endian: the Reset for an unmatched CON echoes another ID")
R.seed("C02.l", F_GAI, "    if not yielded:\n", "    if not yielded and not addrinfo:\n", "all candidates filtered out as unroutable: the generator ends, its single-step consumer gets StopAsyncIteration")
R.seed("C02.l", F_UDP6, "        except socket.gaierror:\n            raise error.ResolutionError(\n                \"No address information found for requests to %r\" % host",
       "        except TimeoutError:\n            raise error.ResolutionError(\n                \"No address information found for requests to %r\" % host", "consumer catches another class than the resolver raises")
R.seed("C02.l", F_UDP6, "        except socket.gaierror:\n            raise error.ResolutionError(\n                \"No address information found for requests to %r\" % host",
       "        except socket.gaierror:\n            raise LookupError(\n                \"No address information found for requests to %r\" % host", "resolution failure surfaces as a builtin exception")
R.seed("C02.m", "aiocoap/util/asyncio/recvmsg.py", "            self._protocol.error_received(exc)\n            return\n", "            return\n", "send errors swallowed by the transport")
R.seed("C02.m", F_UDP6, "        self._remote_being_sent_to.set(message.remote)\n", "", "destination never recorded: every send error is dropped as unattributable")
R.seed("C02.m", F_UDP6, "        finally:\n            self._remote_being_sent_to.set(None)\n", "        finally:\n            pass\n", "destination never cleared: a later error is attributed to a stale remote")
F_PIPE = "aiocoap/pipe.py"
R.seed("C02.n", F_PIPE, "                    exc_info=event.exception,\n", "                    exception=event.exception,\n", "F14 reintroduced: Logger.error() takes no `exception` keyword, TypeError into dispatch_error's loop")
R.seed("C02.n", F_PIPE, "                    exc_info=event.exception,\n", "                    exc_info=event.exception,\n                    pipe=self,\n", "another keyword logging does not take")
R.seed("C02.n", F_PIPE, "            return\n\n        for cb, is_interest in self._event_callbacks[:]:\n", "            raise RuntimeError(\"event on a pipe that has ended\")\n\n        for cb, is_interest in self._event_callbacks[:]:\n",
       "the ended arm raises instead of discarding")
F_PROTO = "aiocoap/protocol.py"
_SPAWN_OLD = "        self.loop.create_task(\n            send(),\n            name=\"Request processing of %r\" % result,\n        )\n        return result\n"
R.seed("C02.o", F_PROTO, _SPAWN_OLD, "        self._sending.append(self.loop.create_task(send(), name=\"Request processing of %r\" % result))\n        return result\n\n    def abort_unsent(self):\n        for t in self._sending:\n            t.cancel()\n",
       "the tasks that carry requests are collected and cancelled: a request still looking for its interface never completes")
R.seed("C02.o", F_PROTO, _SPAWN_OLD, "        self._last_send = self.loop.create_task(send(), name=\"Request processing of %r\" % result)\n        return result\n\n    def abort_unsent(self):\n        self._last_send.cancel()\n",
       "the carrying task is kept in an attribute and cancelled from another method")
R.seed("C02.o", F_PROTO, _SPAWN_OLD, "        task = self.loop.create_task(send(), name=\"Request processing of %r\" % result)\n        self.loop.call_later(10, lambda: task.cancel())\n        return result\n",
       "the carrying task is cancelled by a timer: CancelledError passes `except Exception`, the pipe is never failed")
R.seed("C02.d", F_TM, "        # TODO: add proper Token handling\n", "        if not self.outgoing_requests:\n            return b\"\"\n",
       "empty token while nothing is outstanding: sequential requests reuse it, a late response to a retired request matches the next one")

# C02.p / C02.q: the dependencies of the matching rule and of 'completes with a library error at shutdown' (shared
# clauses; tokenmanager.request / process_response stay untouched in every one of these)
_ISMC_OLD = "        return ipaddress.ip_address(self._plainaddress().split(\"%\", 1)[0]).is_multicast"
R.seed("C02.p", F_UDP6, _ISMC_OLD, "        a = ipaddress.ip_address(self._plainaddress().split(\"%\", 1)[0])\n        return a.is_multicast or a.version == 4",
       "every IPv4 destination counts as a group: its requests are filed under (token, None) and answered by whoever knows the token")
R.seed("C02.p", F_UDP6, _ISMC_OLD, "        return self.sockaddr[0].startswith(\"ff\")",
       "group test on the raw text of the socket address: v4-mapped IPv4 groups are filed under the group address, no member's response matches")
_SHUT_OLD = "            request.add_exception(error.LibraryShutdown())\n        self.outgoing_requests = None\n"
R.seed("C02.q", F_TM, "    async def shutdown(self):\n        while self.incoming_requests:", "    async def shutdown(self):\n        await self.token_interface.shutdown()\n        while self.incoming_requests:",
       "lower layers shut down first: a request arriving during the await passes the `is None` guard and is sent into a closed transport")
R.seed("C02.q", F_TM, _SHUT_OLD, "            request.add_exception(error.LibraryShutdown())\n            await self.loop.create_future()\n        self.outgoing_requests = None\n",
       "the drain suspends between two requests while the marker is still unset")
R.seed("C02.q", F_TM, _SHUT_OLD, "            request.add_exception(error.LibraryShutdown())\n        self.outgoing_requests = {}\n",
       "the table is emptied but never marked: requests after shutdown are registered and never complete")
R.seed("C02.q", F_TM, _SHUT_OLD, "            request.add_exception(RuntimeError(\"shutdown\"))\n        self.outgoing_requests = None\n",
       "outstanding requests end with an exception outside the library's error hierarchy")
