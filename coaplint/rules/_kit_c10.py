"""Scenario evaluator for the C10 clauses (helper module of rules/c10.py).

The C10 clauses are statements about *reactions*: "a confirmable response nobody waits for is answered by a
Reset that carries its message ID", "a response that finds an acknowledgement opportunity is sent as ACK under
the stored message ID and the timer is cancelled", "every confirmable request arms one empty-ACK timer and
files it under (remote, token)".  Deciding them on the shape of the code (which `if` dominates which call,
which local holds the key) is what made the rule brittle against helper extraction, guard clauses,
`.get()`/`pop(k, None)`/`del`, conditional expressions, named booleans, bound methods instead of closures ...

This module decides them by running the function in the checker's OWN evaluator: a tree-walking interpreter
over the syntax trees of the analysed program (nothing of the repository is imported, compiled or executed by
Python) on small finite *scenarios*: messages are attribute bags with concrete type symbol / code integer /
distinct individuals for remote, token and message ID; the bookkeeping tables are concrete finite dicts; the
collaborators (event loop, token manager, transport) are opaque individuals whose calls are recorded as effects.
The rule compares the recorded effects and the final table contents with a reference written from the RFC.

It extends the finite-domain interpreter of absdom.py (whose Sym / code_predicates it reuses) by what that one
refuses: locals and tuple assignment, aliases of objects, conditional expressions, dict/list methods in every
spelling, try/except over the checker's own KeyError, for loops over concrete collections, match statements,
nested defs / lambdas / functools.partial / bound methods as first-class values, and calls into methods of the
same class (helpers are evaluated whether or not the engine expanded them).

Everything outside the vocabulary raises Unknown -> AnalysisError (exit 2).  The evaluator never guesses: a
value it knows nothing about (result of an opaque call, attribute nobody set) is a *token*; branching on a
token, or comparing two different tokens, is refused.
"""

import ast

from ..model import AnalysisError, stmt_text, walk_no_nested
from ..rulekit import is_log_call
from ..pat import chain
from ..absdom import Sym, Unknown

NATIVE = (type(None), bool, int, float, str, bytes)


class Obj:
    """A heap individual.  kind: obj | dict | list | handle | func | bound | partial | builtin | module | class |
    excinst | self.  token=True: nothing is known about the value.  lazy=True: reading an attribute nobody set
    yields a (memoised) token instead of a refusal."""

    _n = 0

    def __init__(self, kind, tag, attrs=None, data=None, lazy=False, token=False, methods=None):
        self.kind = kind
        self.tag = tag
        self.attrs = dict(attrs or {})
        self.data = data
        self.lazy = lazy
        self.token = token
        self.methods = dict(methods or {})

    def __repr__(self):
        if self.kind == "dict":
            return "dict%r" % (self.data,)
        if self.kind == "list":
            return "list%r" % (self.data,)
        return "<%s>" % self.tag


def new_dict(d=None, tag="dict"):
    return Obj("dict", tag, data=dict(d or {}))


def new_list(l=None, tag="list"):
    return Obj("list", tag, data=list(l or []))


class Raised(Exception):
    """An exception raised by the interpreted code (class given by qualified or builtin name)."""

    def __init__(self, cls, node=None, value=None):
        Exception.__init__(self, cls)
        self.cls = cls
        self.node = node
        self.value = value


class _Return(Exception):
    def __init__(self, value):
        self.value = value


class _Break(Exception):
    pass


class _Continue(Exception):
    pass


class Frame:
    def __init__(self, module, parent=None, fnode=None):
        self.vars = {}
        self.module = module
        self.parent = parent
        self.fnode = fnode
        self.nonlocals = set()

    def lookup(self, name):
        f = self
        while f is not None:
            if name in f.vars:
                return f, f.vars[name]
            f = f.parent
        return None, None


_MISSING = object()


class Machine:
    """prog: model.Program; cls: ClassInfo of the class whose methods `self.x()` resolves to; self_obj: Obj of
    kind 'self'; consts: {module-level name: value}; preds: absdom.code_predicates(prog);
    stubs: {method name: fn(machine, args, kwargs, node) -> value} for methods that are modelled as effects."""

    def __init__(self, prog, cls, self_obj, consts, preds, stubs=None, max_steps=20000):
        self.prog = prog
        self.cls = cls
        self.self_obj = self_obj
        self.consts = dict(consts)
        self.preds = preds or {}
        self.stubs = dict(stubs or {})
        self.trace = []
        self.executed = set()
        self.steps = 0
        self.max_steps = max_steps
        self.depth = 0
        self.counter = 0
        # allow_async: a coroutine is run to completion as if nothing else were scheduled in between (`await x`
        # evaluates x); only for scenarios whose obligations are about the state after completion
        self.allow_async = False

    # -- helpers ----------------------------------------------------------------------------------------------
    def effect(self, *rec):
        self.trace.append(tuple(rec))

    def fresh(self, tag, token=True):
        self.counter += 1
        return Obj("obj", "%s#%d" % (tag, self.counter), token=token, lazy=token)

    def tick(self, node):
        self.steps += 1
        self.executed.add(id(node))
        if self.steps > self.max_steps:
            raise Unknown("evaluation does not terminate within %d steps" % self.max_steps)

    # -- truth / equality -------------------------------------------------------------------------------------
    def truth(self, v):
        if v is None:
            return False
        if isinstance(v, Sym):
            raise Unknown("truth value of the enum member %s" % v)
        if isinstance(v, (bool, int, float)):
            return bool(v)
        if isinstance(v, (str, bytes, tuple)):
            return len(v) > 0
        if isinstance(v, Obj):
            if v.token:
                raise Unknown("truth value of %r, about which nothing is known," % v)
            if v.kind in ("dict", "list"):
                return len(v.data) > 0
            return True
        raise Unknown("truth value of %r" % (v,))

    def eq(self, a, b, identity=False):
        for x in (a, b):
            if isinstance(x, Obj) and x.token:
                if a is b:
                    return True
                raise Unknown("comparison of %r and %r (nothing is known about the former or the latter)" % (a, b))
        if a is None or b is None:
            return a is b
        if isinstance(a, Sym) or isinstance(b, Sym):
            if isinstance(a, Sym) and isinstance(b, Sym):
                return str(a) == str(b)
            if isinstance(a, Obj) or isinstance(b, Obj):
                return False
            raise Unknown("comparison of the enum member with %r" % ((b if isinstance(a, Sym) else a),))
        if isinstance(a, bool) or isinstance(b, bool):
            if identity:
                return isinstance(a, bool) and isinstance(b, bool) and a == b
            if isinstance(a, (bool, int)) and isinstance(b, (bool, int)):
                return a == b
            return False
        if isinstance(a, Obj) and isinstance(b, Obj):
            if a is b:
                return True
            if identity:
                return False
            if a.kind == b.kind == "list":
                return len(a.data) == len(b.data) and all(self.eq(x, y) for x, y in zip(a.data, b.data))
            if a.kind == b.kind == "dict":
                if len(a.data) != len(b.data):
                    return False
                for k, v in a.data.items():
                    kk = self._find_key(b, k)
                    if kk is _MISSING or not self.eq(v, b.data[kk]):
                        return False
                return True
            return False
        if isinstance(a, Obj) or isinstance(b, Obj):
            return False
        if isinstance(a, tuple) and isinstance(b, tuple):
            return len(a) == len(b) and all(self.eq(x, y, identity) for x, y in zip(a, b))
        if isinstance(a, tuple) or isinstance(b, tuple):
            return False
        return a == b

    def _find_key(self, d, k):
        for kk in d.data:
            try:
                if self.eq(kk, k):
                    return kk
            except Unknown:
                raise
        return _MISSING

    def contains(self, container, item):
        if isinstance(container, tuple):
            return any(self.eq(item, x) for x in container)
        if isinstance(container, Obj) and container.kind == "dict":
            return self._find_key(container, item) is not _MISSING
        if isinstance(container, Obj) and container.kind == "list":
            return any(self.eq(item, x) for x in container.data)
        if isinstance(container, (str, bytes)) and isinstance(item, type(container)):
            return item in container
        raise Unknown("membership in %r" % (container,))

    def iterate(self, v):
        if isinstance(v, tuple):
            return list(v)
        if isinstance(v, Obj) and v.kind == "list":
            return list(v.data)
        if isinstance(v, Obj) and v.kind == "dict":
            return list(v.data.keys())
        raise Unknown("iteration over %r" % (v,))

    # -- names ------------------------------------------------------------------------------------------------
    def lookup_name(self, name, fr, node):
        f, v = fr.lookup(name)
        if f is not None:
            return v
        if name in self.consts:
            return self.consts[name]
        mod = fr.module
        # module-level function / class of the same module
        ms = mod.name
        qn = ms + "." + name
        if qn in self.prog.funcs:
            fi = self.prog.funcs[qn]
            return Obj("func", qn, data={"node": fi.node, "frame": None, "module": fi.module, "defaults": None})
        if qn in self.prog.classes:
            return Obj("class", qn)
        if name in mod.imports:
            tgt = mod.imports[name]
            try:
                tgt = self.prog.canonical(tgt)
            except Exception:
                pass
            if tgt in self.prog.classes:
                return Obj("class", tgt)
            if tgt in self.prog.funcs:
                fi = self.prog.funcs[tgt]
                return Obj("func", tgt, data={"node": fi.node, "frame": None, "module": fi.module, "defaults": None})
            if tgt == "functools.partial":
                return Obj("builtin", "functools.partial", data=_bi_partial)
            return Obj("module", tgt)
        mc = self.module_constant(mod, name)
        if mc is not _MISSING:
            return mc
        if name in _BUILTINS:
            return Obj("builtin", name, data=_BUILTINS[name])
        if name in ("KeyError", "IndexError", "ValueError", "TypeError", "LookupError", "Exception", "AttributeError", "AssertionError", "RuntimeError", "NotImplementedError"):
            return Obj("class", name)
        raise Unknown("name %s" % name)

    def module_constant(self, mod, name):
        """value of a module-level `NAME = <expr>` (assigned exactly once), evaluated in the module's own scope"""
        cache = self.__dict__.setdefault("_modconst", {})
        key = (mod.name, name)
        if key in cache:
            if cache[key] is _MISSING:
                return _MISSING
            if isinstance(cache[key], Unknown):
                raise cache[key]
            return cache[key]
        found = []
        for st in mod.tree.body:
            if isinstance(st, ast.Assign) and any(isinstance(t, ast.Name) and t.id == name for t in st.targets):
                found.append(st.value)
            elif isinstance(st, ast.AnnAssign) and isinstance(st.target, ast.Name) and st.target.id == name and st.value is not None:
                found.append(st.value)
        if len(found) != 1:
            cache[key] = _MISSING
            return _MISSING
        cache[key] = Unknown("module constant %s (recursive definition)" % name)
        try:
            v = self.ev(found[0], Frame(mod))
        except Unknown as u:
            cache[key] = Unknown("module constant %s: %s" % (name, u))
            raise cache[key]
        cache[key] = v
        return v

    def class_constant(self, qn, attr):
        try:
            expr, ci = self.prog.class_attr(qn, attr)
        except Exception:
            return _MISSING
        if expr is None:
            return _MISSING
        return self.ev(expr, Frame(ci.module))

    # -- attribute access -------------------------------------------------------------------------------------
    def getattr(self, v, attr, node=None):
        if isinstance(v, bool) or v is None or isinstance(v, (Sym, tuple, str, bytes, float)):
            raise Unknown("attribute .%s of %r" % (attr, v))
        if isinstance(v, int):
            if attr == "class_" and self.preds.get("class_shift") is not None:
                return v >> self.preds["class_shift"]
            if attr in self.preds and attr != "class_shift":
                return Obj("bound", "code.%s" % attr, data=(v, attr))
            raise Unknown("attribute .%s of the code %d" % (attr, v))
        if not isinstance(v, Obj):
            raise Unknown("attribute .%s of %r" % (attr, v))
        if attr in v.attrs:
            return v.attrs[attr]
        if attr in v.methods:
            return Obj("bound", "%s.%s" % (v.tag, attr), data=(v, attr))
        if v.kind in ("dict", "list", "handle"):
            return Obj("bound", "%s.%s" % (v.tag, attr), data=(v, attr))
        if v.kind in ("module", "class") and attr in self.consts:
            # `Type.CON`, `numbers.CON`: the same constants the bare names denote
            return self.consts[attr]
        if v.kind == "module":
            qn = v.tag + "." + attr
            if qn == "functools.partial":
                return Obj("builtin", qn, data=_bi_partial)
            full = qn
            try:
                full = self.prog.canonical(qn)
            except Exception:
                pass
            if full in self.prog.classes:
                return Obj("class", full)
            if full in self.prog.funcs:
                fi = self.prog.funcs[full]
                return Obj("func", full, data={"node": fi.node, "frame": None, "module": fi.module, "defaults": None})
            if full in self.prog.modules:
                return Obj("module", full)
            raise Unknown("attribute %s" % qn)
        if v.kind == "self":
            if attr in self.stubs:
                return Obj("bound", "self.%s" % attr, data=(v, attr))
            fi = self.prog.lookup_method(self.cls.qn, attr)
            if fi is not None:
                decos = [chain(d) for d in fi.node.decorator_list]
                if "property" in decos:
                    return self.call_funcinfo(fi, [v], {}, node)
                return Obj("bound", "self.%s" % attr, data=(v, attr))
            if attr == "__class__":
                return Obj("class", self.cls.qn)
            cc = self.class_constant(self.cls.qn, attr)
            if cc is not _MISSING:
                return cc
        if v.kind == "class":
            cc = self.class_constant(v.tag, attr)
            if cc is not _MISSING:
                return cc
            raise Unknown("attribute %s.%s" % (v.tag, attr))
        if v.lazy:
            t = Obj("obj", "%s.%s" % (v.tag, attr), token=True, lazy=True)
            v.attrs[attr] = t
            return t
        raise Unknown("attribute .%s of %r" % (attr, v))

    def setattr(self, v, attr, val):
        if not isinstance(v, Obj) or v.kind in ("dict", "list", "handle", "bound", "builtin", "module", "class"):
            raise Unknown("attribute store .%s on %r" % (attr, v))
        v.attrs[attr] = val

    # -- calls ------------------------------------------------------------------------------------------------
    def call_funcinfo(self, fi, args, kwargs, node):
        return self.call_def(fi.node, fi.module, None, None, args, kwargs, node)

    def call_def(self, fnode, module, closure, defaults, args, kwargs, node):
        if isinstance(fnode, ast.AsyncFunctionDef) and not self.allow_async:
            raise Unknown("call of the coroutine function %s" % fnode.name)
        if not isinstance(fnode, ast.Lambda):
            gen = getattr(fnode, "_c10_is_generator", None)
            if gen is None:
                gen = any(isinstance(n, (ast.Yield, ast.YieldFrom)) for n in walk_no_nested(fnode))
                fnode._c10_is_generator = gen
            if gen:
                raise Unknown("call of the generator %s" % fnode.name)
        self.depth += 1
        if self.depth > 30:
            raise Unknown("call depth")
        try:
            fr = Frame(module, closure, fnode)
            self.bind(fnode, fr, defaults, args, kwargs)
            if isinstance(fnode, ast.Lambda):
                return self.ev(fnode.body, fr)
            try:
                self.exec_block(fnode.body, fr)
            except _Return as r:
                return r.value
            return None
        finally:
            self.depth -= 1

    def eval_defaults(self, fnode, fr):
        a = fnode.args
        return ([self.ev(d, fr) for d in a.defaults], [None if d is None else self.ev(d, fr) for d in a.kw_defaults])

    def bind(self, fnode, fr, defaults, args, kwargs):
        a = fnode.args
        if defaults is None:
            # module-level / method definitions: defaults are evaluated in an empty frame of the module
            dfr = Frame(fr.module)
            defaults = self.eval_defaults(fnode, dfr)
        dpos, dkw = defaults
        pos = [x.arg for x in a.posonlyargs + a.args]
        args = list(args)
        kwargs = dict(kwargs)
        name = getattr(fnode, "name", "<lambda>")
        for i, p in enumerate(pos):
            if i < len(args):
                if p in kwargs:
                    raise Unknown("call of %s: argument %s given twice" % (name, p))
                fr.vars[p] = args[i]
            elif p in kwargs:
                fr.vars[p] = kwargs.pop(p)
            else:
                j = i - (len(pos) - len(dpos))
                if j < 0:
                    raise Unknown("call of %s: missing argument %s" % (name, p))
                fr.vars[p] = dpos[j]
        extra = args[len(pos):]
        if a.vararg is not None:
            fr.vars[a.vararg.arg] = tuple(extra)
        elif extra:
            raise Unknown("call of %s: too many positional arguments" % name)
        for idx, k in enumerate(a.kwonlyargs):
            if k.arg in kwargs:
                fr.vars[k.arg] = kwargs.pop(k.arg)
            elif a.kw_defaults[idx] is None:
                raise Unknown("call of %s: missing keyword argument %s" % (name, k.arg))
            else:
                fr.vars[k.arg] = dkw[idx]
        if a.kwarg is not None:
            fr.vars[a.kwarg.arg] = new_dict(kwargs, tag="kwargs")
        elif kwargs:
            raise Unknown("call of %s: unexpected keyword %s" % (name, sorted(kwargs)))

    def call_value(self, fn, args, kwargs, node):
        if not isinstance(fn, Obj):
            raise Unknown("call of %r" % (fn,))
        if fn.kind == "func":
            d = fn.data
            return self.call_def(d["node"], d["module"], d["frame"], d["defaults"], args, kwargs, node)
        if fn.kind == "bound":
            recv, name = fn.data
            if hasattr(fn, "origin"):
                self.executed.add(("called", id(fn.origin)))
            return self.call_attr(recv, name, args, kwargs, node)
        if fn.kind == "partial":
            f, a, kw = fn.data
            k2 = dict(kw)
            k2.update(kwargs)
            return self.call_value(f, list(a) + list(args), k2, node)
        if fn.kind == "builtin":
            return fn.data(self, args, kwargs, node)
        if fn.kind == "class":
            return self.construct(fn.tag, args, kwargs, node)
        raise Unknown("call of %r" % (fn,))

    def construct(self, qn, args, kwargs, node):
        if qn == "aiocoap.message.Message":
            return self.new_message(args, kwargs, node)
        if self.is_exception_class(qn):
            return Obj("excinst", qn, data=tuple(args))
        self.counter += 1
        o = Obj("obj", "%s()#%d" % (qn.split(".")[-1], self.counter), data={"class": qn, "args": tuple(args), "kwargs": dict(kwargs)})
        return o

    def is_exception_class(self, qn):
        try:
            return "BaseException" in self.prog.mro(qn) or qn in ("KeyError", "IndexError", "ValueError", "TypeError", "LookupError", "Exception", "AttributeError", "AssertionError", "RuntimeError", "NotImplementedError")
        except Exception:
            return False

    def new_message(self, args, kwargs, node):
        if args:
            raise Unknown("Message() with positional arguments")
        self.counter += 1
        m = Obj("obj", "Message()#%d" % self.counter, lazy=True,
                attrs={"mtype": None, "mid": None, "code": None, "remote": None, "request": None, "token": b"", "payload": b""})
        m.data = {"class": "aiocoap.message.Message"}
        for k, v in kwargs.items():
            if k in ("mtype", "_mtype", "mid", "_mid", "token", "_token"):
                # Message.__init__: the underscore spelling and the deprecated plain spelling set the same field
                if v is not None or k.lstrip("_") not in ("mtype", "mid"):
                    m.attrs[k.lstrip("_")] = v
            elif k in ("code", "payload", "transport_tuning"):
                m.attrs[k] = v
            elif k == "uri":
                raise Unknown("Message(uri=...)")
            else:
                opt = self.getattr(m, "opt")
                opt.attrs[k] = v
        return m

    def call_attr(self, recv, name, args, kwargs, node):
        if isinstance(recv, int) and not isinstance(recv, bool):
            if name in self.preds and name != "class_shift" and not args and not kwargs:
                return recv in self.preds[name]
            raise Unknown("method .%s() of the code %d" % (name, recv))
        if isinstance(recv, (str, bytes)):
            return self.fresh("%s.%s()" % (type(recv).__name__, name))
        if not isinstance(recv, Obj):
            raise Unknown("method .%s() of %r" % (name, recv))
        if name in recv.attrs:
            return self.call_value(recv.attrs[name], args, kwargs, node)
        if name in recv.methods:
            return recv.methods[name](self, recv, args, kwargs, node)
        if recv.kind == "dict":
            return self.dict_method(recv, name, args, kwargs, node)
        if recv.kind == "list":
            return self.list_method(recv, name, args, kwargs, node)
        if recv.kind == "handle":
            if name == "cancel" and not args and not kwargs:
                recv.attrs["cancelled"] = True
                self.effect("cancel", recv)
                return None
            if name == "cancelled" and not args:
                return bool(recv.attrs.get("cancelled"))
            raise Unknown("method .%s() of a timer handle" % name)
        if recv.kind == "self":
            if name in self.stubs:
                return self.stubs[name](self, list(args), dict(kwargs), node)
            fi = self.prog.lookup_method(self.cls.qn, name)
            if fi is None:
                raise Unknown("method self.%s" % name)
            decos = [chain(d) for d in fi.node.decorator_list]
            if "staticmethod" in decos:
                return self.call_funcinfo(fi, args, kwargs, node)
            if decos and decos != ["staticmethod"]:
                raise Unknown("decorated method self.%s" % name)
            return self.call_funcinfo(fi, [recv] + list(args), kwargs, node)
        if recv.kind in ("obj",) and not recv.token:
            self.effect("other", "%s.%s" % (recv.tag, name), tuple(args), tuple(sorted(kwargs.items(), key=lambda kv: kv[0])))
            return self.fresh("%s.%s()" % (recv.tag, name))
        raise Unknown("method .%s() of %r" % (name, recv))

    def dict_method(self, d, name, args, kwargs, node):
        if kwargs:
            raise Unknown("dict.%s with keywords" % name)
        n = len(args)
        if name == "get" and n in (1, 2):
            k = self._find_key(d, args[0])
            return d.data[k] if k is not _MISSING else (args[1] if n == 2 else None)
        if name == "pop" and n in (1, 2):
            k = self._find_key(d, args[0])
            if k is _MISSING:
                if n == 2:
                    return args[1]
                raise Raised("KeyError", node)
            self.effect("table-remove", d, k)
            return d.data.pop(k)
        if name == "setdefault" and n in (1, 2):
            k = self._find_key(d, args[0])
            if k is _MISSING:
                d.data[args[0]] = args[1] if n == 2 else None
                self.effect("table-store", d, args[0])
                return d.data[args[0]]
            return d.data[k]
        if name == "items" and n == 0:
            return tuple((k, v) for k, v in d.data.items())
        if name == "keys" and n == 0:
            return tuple(d.data.keys())
        if name == "values" and n == 0:
            return tuple(d.data.values())
        if name == "clear" and n == 0:
            for k in list(d.data):
                self.effect("table-remove", d, k)
            d.data.clear()
            return None
        if name == "popitem" and n == 0:
            if not d.data:
                raise Raised("KeyError", node)
            k = list(d.data)[-1]
            self.effect("table-remove", d, k)
            return (k, d.data.pop(k))
        if name == "copy" and n == 0:
            return new_dict(d.data, tag=d.tag + ".copy()")
        if name == "update" and n == 1 and isinstance(args[0], Obj) and args[0].kind == "dict":
            for k, v in args[0].data.items():
                self.dict_set(d, k, v)
            return None
        raise Unknown("dict method .%s/%d" % (name, n))

    def dict_set(self, d, key, val):
        k = self._find_key(d, key)
        if k is _MISSING:
            k = key
        try:
            hash(k)
        except TypeError:
            raise Unknown("unhashable key %r" % (k,))
        d.data[k] = val
        self.effect("table-store", d, k)

    def dict_del(self, d, key, node):
        k = self._find_key(d, key)
        if k is _MISSING:
            raise Raised("KeyError", node)
        self.effect("table-remove", d, k)
        del d.data[k]

    def list_method(self, l, name, args, kwargs, node):
        if kwargs:
            raise Unknown("list.%s with keywords" % name)
        n = len(args)
        if name == "append" and n == 1:
            l.data.append(args[0])
            self.effect("list-add", l, args[0])
            return None
        if name == "appendleft" and n == 1:
            l.data.insert(0, args[0])
            self.effect("list-add", l, args[0])
            return None
        if name == "insert" and n == 2 and isinstance(args[0], int):
            l.data.insert(args[0], args[1])
            self.effect("list-add", l, args[1])
            return None
        if name == "extend" and n == 1:
            for x in self.iterate(args[0]):
                l.data.append(x)
                self.effect("list-add", l, x)
            return None
        if name in ("pop", "popleft") and n <= 1:
            if not l.data:
                raise Raised("IndexError", node)
            i = args[0] if n else (-1 if name == "pop" else 0)
            if not isinstance(i, int) or not (-len(l.data) <= i < len(l.data)):
                raise Raised("IndexError", node)
            return l.data.pop(i)
        if name == "remove" and n == 1:
            for i, x in enumerate(l.data):
                if self.eq(x, args[0]):
                    del l.data[i]
                    return None
            raise Raised("ValueError", node)
        if name == "clear" and n == 0:
            l.data.clear()
            return None
        if name == "copy" and n == 0:
            return new_list(l.data)
        raise Unknown("list method .%s/%d" % (name, n))

    # -- expressions ------------------------------------------------------------------------------------------
    def ev(self, e, fr):
        self.tick(e)
        m = getattr(self, "ev_" + type(e).__name__, None)
        if m is None:
            raise Unknown("expression `%s`" % stmt_text(e, 60))
        return m(e, fr)

    def ev_Constant(self, e, fr):
        return e.value

    def ev_Name(self, e, fr):
        return self.lookup_name(e.id, fr, e)

    def ev_Attribute(self, e, fr):
        v = self.getattr(self.ev(e.value, fr), e.attr, e)
        if isinstance(v, Obj) and v.kind == "bound" and not hasattr(v, "origin"):
            v.origin = e  # where the method value was taken: functools.partial(self.table.pop, key)
        return v

    def ev_Tuple(self, e, fr):
        out = []
        for x in e.elts:
            if isinstance(x, ast.Starred):
                out.extend(self.iterate(self.ev(x.value, fr)))
            else:
                out.append(self.ev(x, fr))
        return tuple(out)

    def ev_List(self, e, fr):
        return new_list(self.ev_Tuple(e, fr))

    def ev_Set(self, e, fr):
        out = []
        for x in self.ev_Tuple(e, fr):
            if not any(self.eq(x, y) for y in out):
                out.append(x)
        return tuple(out)

    def ev_Dict(self, e, fr):
        d = new_dict()
        for k, v in zip(e.keys, e.values):
            if k is None:
                raise Unknown("dict unpacking in a literal")
            d.data[self.ev(k, fr)] = self.ev(v, fr)
        return d

    def ev_JoinedStr(self, e, fr):
        return "<formatted string>"

    def ev_BoolOp(self, e, fr):
        v = None
        for x in e.values:
            v = self.ev(x, fr)
            t = self.truth(v)
            if isinstance(e.op, ast.And) and not t:
                return v
            if isinstance(e.op, ast.Or) and t:
                return v
        return v

    def ev_UnaryOp(self, e, fr):
        v = self.ev(e.operand, fr)
        if isinstance(e.op, ast.Not):
            return not self.truth(v)
        if isinstance(v, (int, float)) and not isinstance(v, bool):
            if isinstance(e.op, ast.USub):
                return -v
            if isinstance(e.op, ast.UAdd):
                return v
            if isinstance(e.op, ast.Invert) and isinstance(v, int):
                return ~v
        raise Unknown("expression `%s`" % stmt_text(e, 60))

    def binop(self, op, l, r, e):
        if isinstance(l, bool) or isinstance(r, bool):
            raise Unknown("arithmetic on booleans in `%s`" % stmt_text(e, 60))
        if isinstance(l, int) and isinstance(r, int):
            if isinstance(op, (ast.LShift, ast.RShift)):
                if not 0 <= r < 64:
                    raise Raised("ValueError", e)
                return l << r if isinstance(op, ast.LShift) else l >> r
            if isinstance(op, (ast.FloorDiv, ast.Mod)):
                if r == 0:
                    raise Raised("ZeroDivisionError", e)
                return l // r if isinstance(op, ast.FloorDiv) else l % r
            table = {ast.BitAnd: lambda: l & r, ast.BitOr: lambda: l | r, ast.BitXor: lambda: l ^ r, ast.Add: lambda: l + r,
                     ast.Sub: lambda: l - r, ast.Mult: lambda: l * r}
            if type(op) in table:
                return table[type(op)]()
            if isinstance(op, ast.Pow) and 0 <= r < 64:
                return l ** r
        if isinstance(l, tuple) and isinstance(r, tuple) and isinstance(op, ast.Add):
            return l + r
        if isinstance(l, Obj) and isinstance(r, Obj) and l.kind == r.kind == "list" and isinstance(op, ast.Add):
            return new_list(l.data + r.data)
        if isinstance(l, (str, bytes)) and isinstance(op, (ast.Mod, ast.Add)):
            return "<formatted string>"
        raise Unknown("expression `%s` over %r and %r" % (stmt_text(e, 60), l, r))

    def ev_BinOp(self, e, fr):
        return self.binop(e.op, self.ev(e.left, fr), self.ev(e.right, fr), e)

    def ev_Compare(self, e, fr):
        left = self.ev(e.left, fr)
        for op, c in zip(e.ops, e.comparators):
            right = self.ev(c, fr)
            if isinstance(op, (ast.Is, ast.IsNot)):
                r = self.eq(left, right, identity=True)
                r = r if isinstance(op, ast.Is) else not r
            elif isinstance(op, (ast.Eq, ast.NotEq)):
                r = self.eq(left, right)
                r = r if isinstance(op, ast.Eq) else not r
            elif isinstance(op, (ast.In, ast.NotIn)):
                r = self.contains(right, left)
                r = r if isinstance(op, ast.In) else not r
            else:
                if not (isinstance(left, (int, float)) and isinstance(right, (int, float)) and not isinstance(left, bool) and not isinstance(right, bool)):
                    raise Unknown("ordering of %r and %r in `%s`" % (left, right, stmt_text(e, 60)))
                r = {ast.Lt: left < right, ast.LtE: left <= right, ast.Gt: left > right, ast.GtE: left >= right}[type(op)]
            if not r:
                return False
            left = right
        return True

    def ev_Await(self, e, fr):
        if not self.allow_async:
            raise Unknown("await")
        return self.ev(e.value, fr)

    def ev_IfExp(self, e, fr):
        return self.ev(e.body, fr) if self.truth(self.ev(e.test, fr)) else self.ev(e.orelse, fr)

    def ev_NamedExpr(self, e, fr):
        v = self.ev(e.value, fr)
        self.assign(e.target, v, fr)
        return v

    def ev_Lambda(self, e, fr):
        return Obj("func", "<lambda>", data={"node": e, "frame": fr, "module": fr.module, "defaults": self.eval_defaults(e, fr)})

    def ev_Subscript(self, e, fr):
        v = self.ev(e.value, fr)
        if isinstance(e.slice, ast.Slice):
            b = [None if x is None else self.ev(x, fr) for x in (e.slice.lower, e.slice.upper, e.slice.step)]
            if any(x is not None and (not isinstance(x, int) or isinstance(x, bool)) for x in b):
                raise Unknown("slice `%s`" % stmt_text(e, 60))
            if isinstance(v, tuple):
                return v[slice(*b)]
            if isinstance(v, Obj) and v.kind == "list":
                return new_list(v.data[slice(*b)])
            raise Unknown("slice `%s`" % stmt_text(e, 60))
        k = self.ev(e.slice, fr)
        return self.getitem(v, k, e)

    def getitem(self, v, k, node):
        if isinstance(v, tuple) or (isinstance(v, Obj) and v.kind == "list"):
            seq = v if isinstance(v, tuple) else v.data
            if not isinstance(k, int) or isinstance(k, bool):
                raise Unknown("index %r" % (k,))
            if not -len(seq) <= k < len(seq):
                raise Raised("IndexError", node)
            return seq[k]
        if isinstance(v, Obj) and v.kind == "dict":
            kk = self._find_key(v, k)
            if kk is _MISSING:
                raise Raised("KeyError", node)
            return v.data[kk]
        raise Unknown("subscript of %r" % (v,))

    def comprehension(self, e, fr, emit):
        # comprehensions have their own scope for the iteration variables
        inner = Frame(fr.module, fr, fr.fnode)

        def rec(i):
            if i == len(e.generators):
                emit(inner)
                return
            g = e.generators[i]
            if g.is_async:
                raise Unknown("async comprehension")
            for x in self.iterate(self.ev(g.iter, inner if i else fr)):
                self.assign(g.target, x, inner)
                if all(self.truth(self.ev(c, inner)) for c in g.ifs):
                    rec(i + 1)
        rec(0)

    def ev_ListComp(self, e, fr):
        out = []
        self.comprehension(e, fr, lambda f: out.append(self.ev(e.elt, f)))
        return new_list(out)

    def ev_GeneratorExp(self, e, fr):
        out = []
        self.comprehension(e, fr, lambda f: out.append(self.ev(e.elt, f)))
        return tuple(out)

    def ev_SetComp(self, e, fr):
        out = []
        self.comprehension(e, fr, lambda f: out.append(self.ev(e.elt, f)))
        res = []
        for x in out:
            if not any(self.eq(x, y) for y in res):
                res.append(x)
        return tuple(res)

    def ev_DictComp(self, e, fr):
        d = new_dict()
        self.comprehension(e, fr, lambda f: d.data.__setitem__(self.ev(e.key, f), self.ev(e.value, f)))
        return d

    def ev_Call(self, e, fr):
        if is_log_call(e):
            return None
        args = []
        for a in e.args:
            if isinstance(a, ast.Starred):
                args.extend(self.iterate(self.ev(a.value, fr)))
            else:
                args.append(self.ev(a, fr))
        kwargs = {}
        for k in e.keywords:
            if k.arg is None:
                v = self.ev(k.value, fr)
                if not (isinstance(v, Obj) and v.kind == "dict" and all(isinstance(x, str) for x in v.data)):
                    raise Unknown("** argument in `%s`" % stmt_text(e, 60))
                kwargs.update(v.data)
            else:
                kwargs[k.arg] = self.ev(k.value, fr)
        f = e.func
        if isinstance(f, ast.Attribute):
            recv = self.ev(f.value, fr)
            if isinstance(recv, Obj) and recv.kind in ("module", "class"):
                return self.call_value(self.getattr(recv, f.attr, f), args, kwargs, e)
            return self.call_attr(recv, f.attr, args, kwargs, e)
        return self.call_value(self.ev(f, fr), args, kwargs, e)

    # -- statements -------------------------------------------------------------------------------------------
    def exec_block(self, body, fr):
        for st in body:
            self.exec(st, fr)

    def exec(self, st, fr):
        self.tick(st)
        m = getattr(self, "ex_" + type(st).__name__, None)
        if m is None:
            raise Unknown("statement `%s`" % stmt_text(st, 60))
        return m(st, fr)

    def ex_Pass(self, st, fr):
        pass

    def ex_Assert(self, st, fr):
        pass  # an assert is never a guard

    def ex_Expr(self, st, fr):
        if isinstance(st.value, ast.Constant):
            return
        self.ev(st.value, fr)

    def ex_Return(self, st, fr):
        raise _Return(self.ev(st.value, fr) if st.value is not None else None)

    def ex_Break(self, st, fr):
        raise _Break()

    def ex_Continue(self, st, fr):
        raise _Continue()

    def ex_If(self, st, fr):
        if self.truth(self.ev(st.test, fr)):
            self.exec_block(st.body, fr)
        else:
            self.exec_block(st.orelse, fr)

    def ex_While(self, st, fr):
        rounds = 0
        while self.truth(self.ev(st.test, fr)):
            rounds += 1
            if rounds > 64:
                raise Unknown("loop `%s` does not terminate" % stmt_text(st, 40))
            try:
                self.exec_block(st.body, fr)
            except _Break:
                return
            except _Continue:
                continue
        self.exec_block(st.orelse, fr)

    def ex_For(self, st, fr):
        for x in self.iterate(self.ev(st.iter, fr)):
            self.assign(st.target, x, fr)
            try:
                self.exec_block(st.body, fr)
            except _Break:
                return
            except _Continue:
                continue
        self.exec_block(st.orelse, fr)

    def ex_FunctionDef(self, st, fr):
        if st.decorator_list:
            raise Unknown("decorated nested function %s" % st.name)
        fr.vars[st.name] = Obj("func", st.name, data={"node": st, "frame": fr, "module": fr.module, "defaults": self.eval_defaults(st, fr)})

    def ex_Assign(self, st, fr):
        v = self.ev(st.value, fr)
        for t in st.targets:
            self.assign(t, v, fr)

    def ex_AnnAssign(self, st, fr):
        if st.value is not None:
            self.assign(st.target, self.ev(st.value, fr), fr)

    def ex_AugAssign(self, st, fr):
        t = st.target
        if isinstance(t, ast.Name):
            cur = self.lookup_name(t.id, fr, t)
        elif isinstance(t, ast.Attribute):
            cur = self.getattr(self.ev(t.value, fr), t.attr, t)
        else:
            cur = self.ev(ast.Subscript(value=t.value, slice=t.slice, ctx=ast.Load()), fr)
        r = self.ev(st.value, fr)
        if isinstance(cur, Obj) and cur.kind == "list" and isinstance(st.op, ast.Add):
            self.list_method(cur, "extend", [r], {}, st)
            return
        self.assign(t, self.binop(st.op, cur, r, st), fr)

    def assign(self, t, v, fr):
        if isinstance(t, ast.Name):
            if t.id in fr.nonlocals:
                f, _ = fr.parent.lookup(t.id)
                f.vars[t.id] = v
            else:
                fr.vars[t.id] = v
        elif isinstance(t, ast.Attribute):
            self.setattr(self.ev(t.value, fr), t.attr, v)
        elif isinstance(t, ast.Subscript):
            c = self.ev(t.value, fr)
            k = self.ev(t.slice, fr)
            if isinstance(c, Obj) and c.kind == "dict":
                self.dict_set(c, k, v)
            elif isinstance(c, Obj) and c.kind == "list" and isinstance(k, int) and -len(c.data) <= k < len(c.data):
                c.data[k] = v
            else:
                raise Unknown("subscript store on %r" % (c,))
        elif isinstance(t, (ast.Tuple, ast.List)):
            if any(isinstance(x, ast.Starred) for x in t.elts):
                raise Unknown("starred assignment target")
            if isinstance(v, Obj) and v.token:
                raise Unknown("unpacking of %r, about which nothing is known," % v)
            seq = self.iterate(v)
            if len(seq) != len(t.elts):
                raise Raised("ValueError", t)
            for x, y in zip(t.elts, seq):
                self.assign(x, y, fr)
        else:
            raise Unknown("assignment target `%s`" % stmt_text(t, 40))

    def ex_Delete(self, st, fr):
        for t in st.targets:
            if isinstance(t, ast.Name):
                f, _ = fr.lookup(t.id)
                if f is not fr:
                    raise Unknown("del %s" % t.id)
                del fr.vars[t.id]
            elif isinstance(t, ast.Subscript):
                c = self.ev(t.value, fr)
                k = self.ev(t.slice, fr)
                if isinstance(c, Obj) and c.kind == "dict":
                    self.dict_del(c, k, st)
                elif isinstance(c, Obj) and c.kind == "list" and isinstance(k, int) and -len(c.data) <= k < len(c.data):
                    del c.data[k]
                else:
                    raise Unknown("del on %r" % (c,))
            else:
                raise Unknown("`%s`" % stmt_text(st, 40))

    def exc_class_of(self, e, fr):
        """qualified / builtin name of the class named (or instantiated) by a raise operand or handler type"""
        if isinstance(e, ast.Call):
            e = e.func
        c = chain(e)
        if c is None:
            raise Unknown("exception class `%s`" % stmt_text(e, 40))
        f, v = fr.lookup(c.split(".")[0])
        if f is not None:
            v = self.ev(e, fr)
            if isinstance(v, Obj) and v.kind in ("class", "excinst"):
                return v.tag
            raise Unknown("raise of %r" % (v,))
        q = self.prog.resolve_in_module(fr.module, c)
        try:
            q = self.prog.canonical(q)
        except Exception:
            pass
        return q

    def ex_Raise(self, st, fr):
        if st.exc is None:
            cur = getattr(fr, "handling", None)
            f = fr
            while cur is None and f is not None:
                cur = getattr(f, "handling", None)
                f = f.parent
            if cur is None:
                raise Unknown("bare raise outside a handler")
            raise cur
        raise Raised(self.exc_class_of(st.exc, fr), st)

    def exc_matches(self, raised, handler_qn):
        if raised == handler_qn:
            return True
        try:
            return handler_qn in self.prog.mro(raised)
        except Exception:
            return False

    def ex_Try(self, st, fr):
        try:
            try:
                self.exec_block(st.body, fr)
            except Raised as r:
                for h in st.handlers:
                    types = []
                    if h.type is None:
                        ok = True
                    else:
                        tl = h.type.elts if isinstance(h.type, ast.Tuple) else [h.type]
                        types = [self.exc_class_of(t, fr) for t in tl]
                        ok = any(self.exc_matches(r.cls, t) for t in types)
                    if ok:
                        if h.name:
                            fr.vars[h.name] = Obj("excinst", r.cls)
                        prev = getattr(fr, "handling", None)
                        fr.handling = r
                        try:
                            self.exec_block(h.body, fr)
                        finally:
                            fr.handling = prev
                        break
                else:
                    raise
            else:
                self.exec_block(st.orelse, fr)
        finally:
            if st.finalbody:
                self.exec_block(st.finalbody, fr)

    def ex_With(self, st, fr):
        # only `with contextlib.suppress(E, ...):` -- the same as try/except E: pass
        if len(st.items) != 1 or st.items[0].optional_vars is not None:
            raise Unknown("statement `%s`" % stmt_text(st, 60))
        ce = st.items[0].context_expr
        q = None
        if isinstance(ce, ast.Call) and not ce.keywords and chain(ce.func):
            q = self.prog.resolve_in_module(fr.module, chain(ce.func))
        if q != "contextlib.suppress":
            raise Unknown("statement `%s`" % stmt_text(st, 60))
        types = [self.exc_class_of(t, fr) for t in ce.args]
        try:
            self.exec_block(st.body, fr)
        except Raised as r:
            if not any(self.exc_matches(r.cls, t) for t in types):
                raise

    def ex_Match(self, st, fr):
        subj = self.ev(st.subject, fr)
        for case in st.cases:
            binds = {}
            if self.match_pattern(case.pattern, subj, fr, binds):
                for k, v in binds.items():
                    fr.vars[k] = v
                if case.guard is not None and not self.truth(self.ev(case.guard, fr)):
                    continue
                self.exec_block(case.body, fr)
                return

    def match_pattern(self, p, subj, fr, binds):
        if isinstance(p, ast.MatchSingleton):
            return self.eq(subj, p.value, identity=True)
        if isinstance(p, ast.MatchValue):
            return self.eq(subj, self.ev(p.value, fr))
        if isinstance(p, ast.MatchAs):
            if p.pattern is not None and not self.match_pattern(p.pattern, subj, fr, binds):
                return False
            if p.name:
                binds[p.name] = subj
            return True
        if isinstance(p, ast.MatchOr):
            return any(self.match_pattern(x, subj, fr, binds) for x in p.patterns)
        raise Unknown("match pattern `%s`" % stmt_text(p, 40))

    def ex_Global(self, st, fr):
        raise Unknown("global statement")

    def ex_Nonlocal(self, st, fr):
        for n in st.names:
            f, _ = (fr.parent.lookup(n) if fr.parent is not None else (None, None))
            if f is None:
                raise Unknown("nonlocal %s without a binding" % n)
            fr.nonlocals.add(n)

    # -- entry ------------------------------------------------------------------------------------------------
    def run(self, fi, args, kwargs=None):
        """-> ('return', value) | ('raise', class name).  Unknown -> AnalysisError with the function named."""
        try:
            try:
                v = self.call_funcinfo(fi, args, kwargs or {}, fi.node)
                return ("return", v)
            except Raised as r:
                return ("raise", r.cls)
        except Unknown as u:
            raise AnalysisError("evaluation of %s: %s is outside the evaluator's vocabulary" % (fi.short, u))
        except RecursionError:
            raise AnalysisError("evaluation of %s: recursion" % fi.short)

    def invoke(self, fn, args, kwargs=None, what="callback"):
        try:
            try:
                return ("return", self.call_value(fn, list(args), kwargs or {}, None))
            except Raised as r:
                return ("raise", r.cls)
        except Unknown as u:
            raise AnalysisError("evaluation of the %s: %s is outside the evaluator's vocabulary" % (what, u))


# -- builtins ---------------------------------------------------------------------------------------------------

def _bi_partial(m, args, kwargs, node):
    if not args:
        raise Unknown("functools.partial()")
    return Obj("partial", "partial", data=(args[0], tuple(args[1:]), dict(kwargs)))


def _bi_len(m, args, kwargs, node):
    (v,) = args
    if isinstance(v, (tuple, str, bytes)):
        return len(v)
    if isinstance(v, Obj) and v.kind in ("dict", "list"):
        return len(v.data)
    raise Unknown("len(%r)" % (v,))


def _bi_bool(m, args, kwargs, node):
    return m.truth(args[0]) if args else False


def _bi_any(m, args, kwargs, node):
    return any(m.truth(x) for x in m.iterate(args[0]))


def _bi_all(m, args, kwargs, node):
    return all(m.truth(x) for x in m.iterate(args[0]))


def _bi_tuple(m, args, kwargs, node):
    return tuple(m.iterate(args[0])) if args else ()


def _bi_list(m, args, kwargs, node):
    return new_list(m.iterate(args[0]) if args else [])


def _bi_dict(m, args, kwargs, node):
    if args:
        if isinstance(args[0], Obj) and args[0].kind == "dict":
            d = new_dict(args[0].data)
        else:
            d = new_dict()
            for kv in m.iterate(args[0]):
                k, v = m.iterate(kv)
                d.data[k] = v
    else:
        d = new_dict()
    d.data.update(kwargs)
    return d


def _bi_type(m, args, kwargs, node):
    (v,) = args
    if isinstance(v, Obj) and v.kind == "self":
        return Obj("class", m.cls.qn)
    if isinstance(v, Obj) and isinstance(v.data, dict) and "class" in v.data:
        return Obj("class", v.data["class"])
    raise Unknown("type(%r)" % (v,))


def _bi_reversed(m, args, kwargs, node):
    return tuple(reversed(m.iterate(args[0])))


def _bi_sorted(m, args, kwargs, node):
    raise Unknown("sorted()")


def _bi_enumerate(m, args, kwargs, node):
    start = args[1] if len(args) > 1 else kwargs.get("start", 0)
    return tuple((i + start, x) for i, x in enumerate(m.iterate(args[0])))


def _bi_zip(m, args, kwargs, node):
    return tuple(zip(*[m.iterate(a) for a in args]))


def _bi_set(m, args, kwargs, node):
    out = []
    for x in (m.iterate(args[0]) if args else []):
        if not any(m.eq(x, y) for y in out):
            out.append(x)
    return tuple(out)


def _bi_range(m, args, kwargs, node):
    if not args or len(args) > 3 or any(not isinstance(a, int) or isinstance(a, bool) for a in args):
        raise Unknown("range%r" % (tuple(args),))
    r = range(*args)
    if len(r) > 4096:
        raise Unknown("range%r" % (tuple(args),))
    return tuple(r)


def _bi_getattr(m, args, kwargs, node):
    if len(args) not in (2, 3) or not isinstance(args[1], str) or not isinstance(args[0], Obj):
        raise Unknown("getattr%r" % (tuple(args),))
    o, name = args[0], args[1]
    if len(args) == 3 and name not in o.attrs and name not in o.methods and o.kind == "obj" and not o.lazy:
        return args[2]
    return m.getattr(o, name, node)


def _bi_str(m, args, kwargs, node):
    return "<string>"


def _bi_int(m, args, kwargs, node):
    if len(args) == 1 and isinstance(args[0], int):
        return int(args[0])
    raise Unknown("int%r" % (tuple(args),))


def _bi_minmax(which):
    def f(m, args, kwargs, node):
        vals = m.iterate(args[0]) if len(args) == 1 else list(args)
        if kwargs or not vals or any(not isinstance(x, (int, float)) or isinstance(x, bool) for x in vals):
            raise Unknown("%s%r" % (which.__name__, tuple(args)))
        return which(vals)
    return f


_BUILTINS = {
    "set": _bi_set, "frozenset": _bi_set, "range": _bi_range, "getattr": _bi_getattr, "str": _bi_str, "repr": _bi_str, "int": _bi_int,
    "min": _bi_minmax(min), "max": _bi_minmax(max),
    "len": _bi_len, "bool": _bi_bool, "any": _bi_any, "all": _bi_all, "tuple": _bi_tuple, "list": _bi_list, "dict": _bi_dict,
    "type": _bi_type, "reversed": _bi_reversed, "enumerate": _bi_enumerate, "zip": _bi_zip,
}
