"""Scenario evaluator for the C10 clauses (helper module of rules/c10.py).

The C10 clauses are statements about *reactions*: "a confirmable response nobody waits for is answered by a
Reset that carries its message ID", "a response that finds an acknowledgement opportunity is sent as ACK under
the stored message ID and the timer is cancelled", "every confirmable request arms one empty-ACK timer and
files it under (remote, token)".  Deciding them on the shape of the code (which `if` dominates which call,
which local holds the key) is what made the rule brittle against helper extraction, guard clauses,
`.get()`/`pop(k, None)`/`del`, conditional expressions, named booleans, bound methods instead of closures ...

This module decides them by running the function in the checker's OWN evaluator: a tree-walking interpreter
over the syntax trees of the analysed program (nothing of the repository is imported, compiled or executed by
Python) on small finite *scenarios*: messages are attribute bags with concrete type symbol / code integer /
distinct individuals for remote, token and message ID; the bookkeeping tables are concrete finite dicts; the
collaborators (event loop, token manager, transport) are opaque individuals whose calls are recorded as effects.
The rule compares the recorded effects and the final table contents with a reference written from the RFC.

It extends the finite-domain interpreter of absdom.py (whose Sym / code_predicates it reuses) by what that one
refuses: locals and tuple assignment, aliases of objects, conditional expressions, dict/list methods in every
spelling, try/except over the checker's own KeyError, for loops over concrete collections, match statements,
nested defs / lambdas / functools.partial / bound methods as first-class values, and calls into methods of the
same class (helpers are evaluated whether or not the engine expanded them).

Classes of the analysed program: `Message(...)` is NOT modelled -- the analysed Message.__init__ is evaluated on a
fresh attribute bag, which thereby becomes an *instance* (methods such as .copy(), properties and class-level
defaults of its class are evaluated on it); an object of a class without any constructor (TransportTuning()) is an
instance made of its class-level defaults; every other constructor call yields an opaque individual that remembers
class and arguments.  Enums: `Type(x)` / `Type.CON` / `Direction.OUTGOING` follow the members listed in the class
body (closed enums: symbols, with the integer value deciding truthiness -- CON = 0 is falsy; open-ended integer enums
such as Code: the integers themselves).  warnings.warn is transparent like a log call, copy.copy / copy.deepcopy
duplicate attribute bags and containers, setattr / hasattr / getattr work on attribute bags.

Everything outside the vocabulary raises Unknown -> AnalysisError (exit 2).  The evaluator never guesses: a
value it knows nothing about (result of an opaque call, attribute nobody set) is a *token*; branching on a
token, or comparing two different tokens, is refused.
"""

import ast

from ..model import AnalysisError, stmt_text, walk_no_nested
from ..rulekit import is_log_call
from ..pat import chain
from ..absdom import Sym, Unknown

NATIVE = (type(None), bool, int, float, str, bytes)
MESSAGE = "aiocoap.message.Message"
OPTIONS = "aiocoap.options.Options"
TYPE = "aiocoap.numbers.types.Type"
_ENUM_BASES = {"enum.Enum", "enum.IntEnum", "enum.Flag", "enum.IntFlag", "enum.StrEnum"}


class Obj:
    """A heap individual.  kind: obj | dict | list | handle | func | bound | partial | builtin | module | class |
    excinst | self.  token=True: nothing is known about the value.  lazy=True: reading an attribute nobody set
    yields a (memoised) token instead of a refusal."""

    _n = 0

    def __init__(self, kind, tag, attrs=None, data=None, lazy=False, token=False, methods=None):
        self.kind = kind
        self.tag = tag
        self.attrs = dict(attrs or {})
        self.data = data
        self.lazy = lazy
        self.token = token
        self.methods = dict(methods or {})

    def __repr__(self):
        if self.kind == "dict":
            return "dict%r" % (self.data,)
        if self.kind == "list":
            return "list%r" % (self.data,)
        return "<%s>" % self.tag


def new_dict(d=None, tag="dict"):
    return Obj("dict", tag, data=dict(d or {}))


def new_list(l=None, tag="list"):
    return Obj("list", tag, data=list(l or []))


class Raised(Exception):
    """An exception raised by the interpreted code (class given by qualified or builtin name)."""

    def __init__(self, cls, node=None, value=None):
        Exception.__init__(self, cls)
        self.cls = cls
        self.node = node
        self.value = value


class _Return(Exception):
    def __init__(self, value):
        self.value = value


class _Break(Exception):
    pass


class _Continue(Exception):
    pass


class Frame:
    def __init__(self, module, parent=None, fnode=None):
        self.vars = {}
        self.module = module
        self.parent = parent
        self.fnode = fnode
        self.nonlocals = set()

    def lookup(self, name):
        f = self
        while f is not None:
            if name in f.vars:
                return f, f.vars[name]
            f = f.parent
        return None, None


_MISSING = object()


class Machine:
    """prog: model.Program; cls: ClassInfo of the class whose methods `self.x()` resolves to; self_obj: Obj of
    kind 'self'; consts: {module-level name: value}; preds: absdom.code_predicates(prog);
    stubs: {method name: fn(machine, args, kwargs, node) -> value} for methods that are modelled as effects."""

    def __init__(self, prog, cls, self_obj, consts, preds, stubs=None, max_steps=20000):
        self.prog = prog
        self.cls = cls
        self.self_obj = self_obj
        self.consts = dict(consts)
        self.preds = preds or {}
        self.stubs = dict(stubs or {})
        self.trace = []
        self.executed = set()
        self.steps = 0
        self.max_steps = max_steps
        self.depth = 0
        self.counter = 0
        # allow_async: a coroutine is run to completion as if nothing else were scheduled in between (`await x`
        # evaluates x); only for scenarios whose obligations are about the state after completion
        self.allow_async = False
        # opaque_readers: see call_value / reads_only (only for scenarios whose obligations are about fields of objects)
        self.opaque_readers = False
        # instance_stubs: {method name: fn(machine, receiver, args, kwargs, node)} -- methods of instances of program
        # classes (Message objects) that a scenario models as part of its world instead of evaluating them
        self.instance_stubs = {}

    # -- helpers ----------------------------------------------------------------------------------------------
    def effect(self, *rec):
        self.trace.append(tuple(rec))

    def fresh(self, tag, token=True):
        self.counter += 1
        return Obj("obj", "%s#%d" % (tag, self.counter), token=token, lazy=token)

    def tick(self, node):
        self.steps += 1
        self.executed.add(id(node))
        if self.steps > self.max_steps:
            raise Unknown("evaluation does not terminate within %d steps" % self.max_steps)

    # -- truth / equality -------------------------------------------------------------------------------------
    def truth(self, v):
        if v is None:
            return False
        if isinstance(v, Sym):
            # a member of the (closed) IntEnum Type is an integer: CON = 0 is falsy, the others are truthy
            iv = self.type_member_value(v)
            if iv is None:
                raise Unknown("truth value of the enum member %s" % v)
            return bool(iv)
        if isinstance(v, (bool, int, float)):
            return bool(v)
        if isinstance(v, (str, bytes, tuple)):
            return len(v) > 0
        if isinstance(v, Obj):
            if v.token:
                raise Unknown("truth value of %r, about which nothing is known," % v)
            if v.kind in ("dict", "list"):
                return len(v.data) > 0
            return True
        raise Unknown("truth value of %r" % (v,))

    def eq(self, a, b, identity=False):
        for x in (a, b):
            if isinstance(x, Obj) and x.token:
                if a is b:
                    return True
                raise Unknown("comparison of %r and %r (nothing is known about the former or the latter)" % (a, b))
        if a is None or b is None:
            return a is b
        if isinstance(a, Sym) or isinstance(b, Sym):
            if isinstance(a, Sym) and isinstance(b, Sym):
                return str(a) == str(b)
            if isinstance(a, Obj) or isinstance(b, Obj):
                return False
            raise Unknown("comparison of the enum member with %r" % ((b if isinstance(a, Sym) else a),))
        if isinstance(a, bool) or isinstance(b, bool):
            if identity:
                return isinstance(a, bool) and isinstance(b, bool) and a == b
            if isinstance(a, (bool, int)) and isinstance(b, (bool, int)):
                return a == b
            return False
        if isinstance(a, Obj) and isinstance(b, Obj):
            if a is b:
                return True
            if identity:
                return False
            if a.kind == b.kind == "list":
                return len(a.data) == len(b.data) and all(self.eq(x, y) for x, y in zip(a.data, b.data))
            if a.kind == b.kind == "dict":
                if len(a.data) != len(b.data):
                    return False
                for k, v in a.data.items():
                    kk = self._find_key(b, k)
                    if kk is _MISSING or not self.eq(v, b.data[kk]):
                        return False
                return True
            return False
        if isinstance(a, Obj) or isinstance(b, Obj):
            return False
        if isinstance(a, tuple) and isinstance(b, tuple):
            return len(a) == len(b) and all(self.eq(x, y, identity) for x, y in zip(a, b))
        if isinstance(a, tuple) or isinstance(b, tuple):
            return False
        return a == b

    def _find_key(self, d, k):
        for kk in d.data:
            try:
                if self.eq(kk, k):
                    return kk
            except Unknown:
                raise
        return _MISSING

    def contains(self, container, item):
        if isinstance(container, tuple):
            return any(self.eq(item, x) for x in container)
        if isinstance(container, Obj) and container.kind == "dict":
            return self._find_key(container, item) is not _MISSING
        if isinstance(container, Obj) and container.kind == "list":
            return any(self.eq(item, x) for x in container.data)
        if isinstance(container, (str, bytes)) and isinstance(item, type(container)):
            return item in container
        raise Unknown("membership in %r" % (container,))

    def iterate(self, v):
        if isinstance(v, tuple):
            return list(v)
        if isinstance(v, Obj) and v.kind == "list":
            return list(v.data)
        if isinstance(v, Obj) and v.kind == "dict":
            return list(v.data.keys())
        raise Unknown("iteration over %r" % (v,))

    # -- names ------------------------------------------------------------------------------------------------
    def lookup_name(self, name, fr, node):
        f, v = fr.lookup(name)
        if f is not None:
            return v
        if name in self.consts:
            return self.consts[name]
        mod = fr.module
        # module-level function / class of the same module
        ms = mod.name
        qn = ms + "." + name
        if qn in self.prog.funcs:
            fi = self.prog.funcs[qn]
            return Obj("func", qn, data={"node": fi.node, "frame": None, "module": fi.module, "defaults": None})
        if qn in self.prog.classes:
            return Obj("class", qn)
        if name in mod.imports:
            tgt = mod.imports[name]
            try:
                tgt = self.prog.canonical(tgt)
            except Exception:
                pass
            if tgt in self.prog.classes:
                return Obj("class", tgt)
            if tgt in self.prog.funcs:
                fi = self.prog.funcs[tgt]
                return Obj("func", tgt, data={"node": fi.node, "frame": None, "module": fi.module, "defaults": None})
            if tgt == "functools.partial":
                return Obj("builtin", "functools.partial", data=_bi_partial)
            if tgt in _EXTERNALS:
                return Obj("builtin", tgt, data=_EXTERNALS[tgt])
            return Obj("module", tgt)
        mc = self.module_constant(mod, name)
        if mc is not _MISSING:
            return mc
        if name in _BUILTINS:
            return Obj("builtin", name, data=_BUILTINS[name])
        if name in ("KeyError", "IndexError", "ValueError", "TypeError", "LookupError", "Exception", "AttributeError", "AssertionError", "RuntimeError", "NotImplementedError"):
            return Obj("class", name)
        raise Unknown("name %s" % name)

    def module_constant(self, mod, name):
        """value of a module-level `NAME = <expr>` (assigned exactly once), evaluated in the module's own scope"""
        cache = self.__dict__.setdefault("_modconst", {})
        key = (mod.name, name)
        if key in cache:
            if cache[key] is _MISSING:
                return _MISSING
            if isinstance(cache[key], Unknown):
                raise cache[key]
            return cache[key]
        found = []
        for st in mod.tree.body:
            if isinstance(st, ast.Assign) and any(isinstance(t, ast.Name) and t.id == name for t in st.targets):
                found.append(st.value)
            elif isinstance(st, ast.AnnAssign) and isinstance(st.target, ast.Name) and st.target.id == name and st.value is not None:
                found.append(st.value)
        if len(found) != 1:
            cache[key] = _MISSING
            return _MISSING
        e0 = found[0]
        if (isinstance(e0, ast.Call) and isinstance(e0.func, ast.Name) and e0.func.id == "object" and not e0.args and not e0.keywords
                and not any(isinstance(n, ast.Name) and n.id == "object" and isinstance(n.ctx, ast.Store) for n in ast.walk(mod.tree))):
            # a sentinel `NAME = object()`: one individual, identical to itself and to nothing else, without
            # attributes (the cache keeps it the same individual for the whole evaluation)
            cache[key] = Obj("obj", "%s.%s" % (mod.name, name), token=False)
            return cache[key]
        cache[key] = Unknown("module constant %s (recursive definition)" % name)
        try:
            v = self.ev(found[0], Frame(mod))
        except Unknown as u:
            cache[key] = Unknown("module constant %s: %s" % (name, u))
            raise cache[key]
        cache[key] = v
        return v

    def class_constant(self, qn, attr):
        try:
            expr, ci = self.prog.class_attr(qn, attr)
        except Exception:
            return _MISSING
        if expr is None:
            return _MISSING
        return self.ev(expr, Frame(ci.module))

    # -- attribute access -------------------------------------------------------------------------------------
    def getattr(self, v, attr, node=None):
        if isinstance(v, bool) or v is None or isinstance(v, (Sym, tuple, str, bytes, float)):
            raise Unknown("attribute .%s of %r" % (attr, v))
        if isinstance(v, int):
            if attr == "class_" and self.preds.get("class_shift") is not None:
                return v >> self.preds["class_shift"]
            if attr in self.preds and attr != "class_shift":
                return Obj("bound", "code.%s" % attr, data=(v, attr))
            raise Unknown("attribute .%s of the code %d" % (attr, v))
        if not isinstance(v, Obj):
            raise Unknown("attribute .%s of %r" % (attr, v))
        if attr in v.attrs:
            return v.attrs[attr]
        if attr in v.methods:
            return Obj("bound", "%s.%s" % (v.tag, attr), data=(v, attr))
        if v.kind in ("dict", "list", "handle"):
            return Obj("bound", "%s.%s" % (v.tag, attr), data=(v, attr))
        if v.kind in ("module", "class") and attr in self.consts:
            # `Type.CON`, `numbers.CON`: the same constants the bare names denote
            return self.consts[attr]
        if v.kind == "module":
            qn = v.tag + "." + attr
            if qn == "functools.partial":
                return Obj("builtin", qn, data=_bi_partial)
            if qn in _EXTERNALS:
                return Obj("builtin", qn, data=_EXTERNALS[qn])
            full = qn
            try:
                full = self.prog.canonical(qn)
            except Exception:
                pass
            if full in self.prog.classes:
                return Obj("class", full)
            if full in self.prog.funcs:
                fi = self.prog.funcs[full]
                return Obj("func", full, data={"node": fi.node, "frame": None, "module": fi.module, "defaults": None})
            if full in self.prog.modules:
                return Obj("module", full)
            raise Unknown("attribute %s" % qn)
        if v.kind == "self":
            if attr in self.stubs:
                return Obj("bound", "self.%s" % attr, data=(v, attr))
            fi = self.prog.lookup_method(self.cls.qn, attr)
            if fi is not None:
                decos = [chain(d) for d in fi.node.decorator_list]
                if "property" in decos:
                    return self.call_funcinfo(fi, [v], {}, node)
                return Obj("bound", "self.%s" % attr, data=(v, attr))
            if attr == "__class__":
                return Obj("class", self.cls.qn)
            cc = self.class_constant(self.cls.qn, attr)
            if cc is not _MISSING:
                return cc
        if v.kind == "class":
            em = self.enum_member(v.tag, attr)
            if em is not _MISSING:
                return em
            cc = self.class_constant(v.tag, attr)
            if cc is not _MISSING:
                return cc
            raise Unknown("attribute %s.%s" % (v.tag, attr))
        iq = self.instance_class(v)
        if iq is not None:
            # an instance of a class of the analysed program (a Message built by the analysed __init__, an object of
            # a class without a constructor of its own): methods, properties and class-level defaults of its class
            fi = self.prog.lookup_method(iq, attr)
            if fi is not None:
                decos = [chain(d) for d in fi.node.decorator_list]
                if decos == ["property"]:
                    return self.call_funcinfo(fi, [v], {}, node)
                if decos == ["staticmethod"]:
                    return Obj("func", fi.qn, data={"node": fi.node, "frame": None, "module": fi.module, "defaults": None})
                if decos == ["classmethod"]:
                    f = Obj("func", fi.qn, data={"node": fi.node, "frame": None, "module": fi.module, "defaults": None})
                    return Obj("partial", "partial", data=(f, (Obj("class", iq),), {}))
                if decos:
                    raise Unknown("decorated method %s.%s" % (iq, attr))
                return Obj("bound", "%s.%s" % (v.tag, attr), data=(v, attr))
            if attr == "__class__":
                return Obj("class", iq)
            cc = self.class_constant(iq, attr)
            if cc is not _MISSING:
                return cc
        if v.lazy:
            t = Obj("obj", "%s.%s" % (v.tag, attr), token=True, lazy=True)
            v.attrs[attr] = t
            return t
        raise Unknown("attribute .%s of %r" % (attr, v))

    def setattr(self, v, attr, val):
        if not isinstance(v, Obj) or v.kind in ("dict", "list", "handle", "bound", "builtin", "module", "class"):
            raise Unknown("attribute store .%s on %r" % (attr, v))
        v.attrs[attr] = val

    # -- calls ------------------------------------------------------------------------------------------------
    def call_funcinfo(self, fi, args, kwargs, node):
        return self.call_def(fi.node, fi.module, None, None, args, kwargs, node)

    def call_def(self, fnode, module, closure, defaults, args, kwargs, node):
        if isinstance(fnode, ast.AsyncFunctionDef) and not self.allow_async:
            raise Unknown("call of the coroutine function %s" % fnode.name)
        if not isinstance(fnode, ast.Lambda):
            gen = getattr(fnode, "_c10_is_generator", None)
            if gen is None:
                gen = any(isinstance(n, (ast.Yield, ast.YieldFrom)) for n in walk_no_nested(fnode))
                fnode._c10_is_generator = gen
            if gen:
                raise Unknown("call of the generator %s" % fnode.name)
        self.depth += 1
        if self.depth > 30:
            raise Unknown("call depth")
        try:
            fr = Frame(module, closure, fnode)
            self.bind(fnode, fr, defaults, args, kwargs)
            if isinstance(fnode, ast.Lambda):
                return self.ev(fnode.body, fr)
            try:
                self.exec_block(fnode.body, fr)
            except _Return as r:
                return r.value
            return None
        finally:
            self.depth -= 1

    def eval_defaults(self, fnode, fr):
        a = fnode.args
        return ([self.ev(d, fr) for d in a.defaults], [None if d is None else self.ev(d, fr) for d in a.kw_defaults])

    def bind(self, fnode, fr, defaults, args, kwargs):
        a = fnode.args
        if defaults is None:
            # module-level / method definitions: defaults are evaluated in an empty frame of the module
            dfr = Frame(fr.module)
            defaults = self.eval_defaults(fnode, dfr)
        dpos, dkw = defaults
        pos = [x.arg for x in a.posonlyargs + a.args]
        args = list(args)
        kwargs = dict(kwargs)
        name = getattr(fnode, "name", "<lambda>")
        for i, p in enumerate(pos):
            if i < len(args):
                if p in kwargs:
                    raise Unknown("call of %s: argument %s given twice" % (name, p))
                fr.vars[p] = args[i]
            elif p in kwargs:
                fr.vars[p] = kwargs.pop(p)
            else:
                j = i - (len(pos) - len(dpos))
                if j < 0:
                    raise Unknown("call of %s: missing argument %s" % (name, p))
                fr.vars[p] = dpos[j]
        extra = args[len(pos):]
        if a.vararg is not None:
            fr.vars[a.vararg.arg] = tuple(extra)
        elif extra:
            raise Unknown("call of %s: too many positional arguments" % name)
        for idx, k in enumerate(a.kwonlyargs):
            if k.arg in kwargs:
                fr.vars[k.arg] = kwargs.pop(k.arg)
            elif a.kw_defaults[idx] is None:
                raise Unknown("call of %s: missing keyword argument %s" % (name, k.arg))
            else:
                fr.vars[k.arg] = dkw[idx]
        if a.kwarg is not None:
            fr.vars[a.kwarg.arg] = new_dict(kwargs, tag="kwargs")
        elif kwargs:
            raise Unknown("call of %s: unexpected keyword %s" % (name, sorted(kwargs)))

    def call_value(self, fn, args, kwargs, node):
        if not isinstance(fn, Obj):
            raise Unknown("call of %r" % (fn,))
        if fn.kind == "func":
            d = fn.data
            if not self.opaque_readers or d["frame"] is not None:
                return self.call_def(d["node"], d["module"], d["frame"], d["defaults"], args, kwargs, node)
            try:
                return self.call_def(d["node"], d["module"], d["frame"], d["defaults"], args, kwargs, node)
            except Unknown as u:
                # a module-level function outside the vocabulary that provably cannot write a field of the objects it
                # is handed (frame rule): the world in which it returns normally, its result an unknown value
                if not reads_only(d["node"], args, kwargs):
                    raise
                self.effect("opaque", fn.tag, str(u))
                return self.fresh("%s()" % fn.tag)
        if fn.kind == "bound":
            recv, name = fn.data
            if hasattr(fn, "origin"):
                self.executed.add(("called", id(fn.origin)))
            return self.call_attr(recv, name, args, kwargs, node)
        if fn.kind == "partial":
            f, a, kw = fn.data
            k2 = dict(kw)
            k2.update(kwargs)
            return self.call_value(f, list(a) + list(args), k2, node)
        if fn.kind == "builtin":
            return fn.data(self, args, kwargs, node)
        if fn.kind == "class":
            return self.construct(fn.tag, args, kwargs, node)
        raise Unknown("call of %r" % (fn,))

    def construct(self, qn, args, kwargs, node):
        if qn == MESSAGE or (qn in self.prog.classes and MESSAGE in self.prog.mro(qn)):
            return self.new_message(args, kwargs, node, qn)
        if self.is_exception_class(qn):
            return Obj("excinst", qn, data=tuple(args))
        if self.is_enum(qn):
            return self.enum_call(qn, args, kwargs, node)
        self.counter += 1
        o = Obj("obj", "%s()#%d" % (qn.split(".")[-1], self.counter), data={"class": qn, "args": tuple(args), "kwargs": dict(kwargs)})
        if qn in self.prog.classes and not args and not kwargs and self.prog.lookup_method(qn, "__init__") is None and self.prog.lookup_method(qn, "__new__") is None \
                and all(b in self.prog.classes for b in self.prog.mro(qn)):
            # no constructor anywhere in its (fully known) ancestry: the instance is its class-level defaults (TransportTuning())
            o.data["instance"] = True
        if qn == OPTIONS:
            # a fresh option container: what an option nobody has set reads as is not modelled (an unknown value)
            o.lazy = True
        return o

    # -- classes of the analysed program --------------------------------------------------------------------------
    def instance_class(self, v):
        if isinstance(v, Obj) and v.kind == "obj" and not v.token and isinstance(v.data, dict) and v.data.get("instance") and v.data.get("class") in self.prog.classes:
            return v.data["class"]
        return None

    def is_enum(self, qn):
        if qn not in self.prog.classes:
            return False
        return any(b in _ENUM_BASES for b in self.prog.mro(qn))

    def is_extensible_enum(self, qn):
        return any(b.split(".")[-1] == "ExtensibleIntEnum" for b in self.prog.mro(qn))

    def enum_members(self, qn):
        """{member name: integer value or None} of an enum class of the analysed program (own body only: enums
        with members cannot be subclassed)"""
        cache = self.__dict__.setdefault("_enum_members", {})
        if qn not in cache:
            out = {}
            ci = self.prog.classes[qn]
            for st in ci.node.body:
                if isinstance(st, ast.Assign) and len(st.targets) == 1 and isinstance(st.targets[0], ast.Name) and not st.targets[0].id.startswith("_"):
                    val = st.value
                    out[st.targets[0].id] = val.value if isinstance(val, ast.Constant) and isinstance(val.value, int) and not isinstance(val.value, bool) else None
            cache[qn] = out
        return cache[qn]

    def member_value(self, qn, name):
        """how this evaluator writes the member `name` of the enum qn: codes and other open-ended integer enums are
        their integers, members of closed enums are symbols (the symbols of the message types are shared with the
        bare names CON, NON, ACK, RST the rule passes in)"""
        members = self.enum_members(qn)
        if self.is_extensible_enum(qn):
            if members[name] is None:
                raise Unknown("value of %s.%s" % (qn, name))
            return members[name]
        if qn == TYPE:
            c = self.consts.get(name)
            return c if isinstance(c, Sym) else Sym(name)
        return Sym("%s.%s" % (qn.split(".")[-1], name))

    def enum_member(self, qn, attr):
        if not self.is_enum(qn) or attr not in self.enum_members(qn):
            return _MISSING
        return self.member_value(qn, attr)

    def type_member_value(self, sym):
        """integer value of a message type symbol, from numbers/types.py; None for any other symbol"""
        if TYPE not in self.prog.classes:
            return None
        return self.enum_members(TYPE).get(str(sym))

    def enum_call(self, qn, args, kwargs, node):
        """Enum(value): the member with that value (a member is its own value); ValueError if there is none.  Open-ended
        integer enums (Code, OptionNumber) accept every integer."""
        if kwargs or len(args) != 1:
            raise Unknown("%s%r" % (qn.split(".")[-1], tuple(args)))
        x = args[0]
        if isinstance(x, Obj) and x.token:
            raise Unknown("%s(%r), about which nothing is known," % (qn.split(".")[-1], x))
        members = self.enum_members(qn)
        ext = self.is_extensible_enum(qn)
        if isinstance(x, int) and not isinstance(x, bool):
            if ext:
                return x
            for name, val in members.items():
                if val is not None and val == x:
                    return self.member_value(qn, name)
            if any(v is None for v in members.values()):
                raise Unknown("%s(%r): members without a literal value" % (qn.split(".")[-1], x))
            raise Raised("ValueError", node)
        if ext:
            raise Unknown("%s(%r)" % (qn.split(".")[-1], x))
        if isinstance(x, Sym):
            if any(self.member_value(qn, name) == x for name in members):
                return x
            raise Raised("ValueError", node)
        # None, a string, an object that is not a member: `... is not a valid Type`
        raise Raised("ValueError", node)

    def is_exception_class(self, qn):
        try:
            return "BaseException" in self.prog.mro(qn) or qn in ("KeyError", "IndexError", "ValueError", "TypeError", "LookupError", "Exception", "AttributeError", "AssertionError", "RuntimeError", "NotImplementedError")
        except Exception:
            return False

    def new_message(self, args, kwargs, node, qn=None):
        """Message(...): the constructor of the analysed program is evaluated (which keyword ends up in which field,
        and for which values, is part of what the clauses decide -- a message ID of 0, the type CON = 0, the code
        EMPTY = 0 and the empty token are all falsy)"""
        qn = qn or MESSAGE
        if qn not in self.prog.classes:
            raise Unknown("class %s" % qn)
        init = self.prog.lookup_method(qn, "__init__")
        if init is None:
            raise Unknown("%s.__init__" % qn)
        self.counter += 1
        m = Obj("obj", "Message()#%d" % self.counter, lazy=True)
        m.data = {"class": qn, "instance": True}
        self.call_def(init.node, init.module, None, None, [m] + list(args), dict(kwargs), node)
        return m

    def call_attr(self, recv, name, args, kwargs, node):
        if isinstance(recv, int) and not isinstance(recv, bool):
            if name in self.preds and name != "class_shift" and not args and not kwargs:
                return recv in self.preds[name]
            raise Unknown("method .%s() of the code %d" % (name, recv))
        if isinstance(recv, (str, bytes)):
            return self.fresh("%s.%s()" % (type(recv).__name__, name))
        if not isinstance(recv, Obj):
            raise Unknown("method .%s() of %r" % (name, recv))
        if name in recv.attrs:
            return self.call_value(recv.attrs[name], args, kwargs, node)
        if name in recv.methods:
            return recv.methods[name](self, recv, args, kwargs, node)
        if recv.kind == "dict":
            return self.dict_method(recv, name, args, kwargs, node)
        if recv.kind == "list":
            return self.list_method(recv, name, args, kwargs, node)
        if recv.kind == "handle":
            if name == "cancel" and not args and not kwargs:
                recv.attrs["cancelled"] = True
                self.effect("cancel", recv)
                return None
            if name == "cancelled" and not args:
                return bool(recv.attrs.get("cancelled"))
            raise Unknown("method .%s() of a timer handle" % name)
        if recv.kind == "self":
            if name in self.stubs:
                return self.stubs[name](self, list(args), dict(kwargs), node)
            fi = self.prog.lookup_method(self.cls.qn, name)
            if fi is None:
                raise Unknown("method self.%s" % name)
            decos = [chain(d) for d in fi.node.decorator_list]
            if "staticmethod" in decos:
                return self.call_funcinfo(fi, args, kwargs, node)
            if decos and decos != ["staticmethod"]:
                raise Unknown("decorated method self.%s" % name)
            return self.call_funcinfo(fi, [recv] + list(args), kwargs, node)
        iq = self.instance_class(recv)
        if iq is not None:
            if name in self.instance_stubs:
                return self.instance_stubs[name](self, recv, list(args), dict(kwargs), node)
            fi = self.prog.lookup_method(iq, name)
            if fi is not None:
                decos = [chain(d) for d in fi.node.decorator_list]
                if decos == ["staticmethod"]:
                    return self.call_funcinfo(fi, args, kwargs, node)
                if decos == ["classmethod"]:
                    return self.call_funcinfo(fi, [Obj("class", iq)] + list(args), kwargs, node)
                if decos:
                    raise Unknown("decorated method %s.%s" % (iq, name))
                return self.call_funcinfo(fi, [recv] + list(args), kwargs, node)
            raise Unknown("method .%s() of %r" % (name, recv))
        if recv.kind in ("obj",) and not recv.token:
            self.effect("other", "%s.%s" % (recv.tag, name), tuple(args), tuple(sorted(kwargs.items(), key=lambda kv: kv[0])))
            return self.fresh("%s.%s()" % (recv.tag, name))
        raise Unknown("method .%s() of %r" % (name, recv))

    def dict_method(self, d, name, args, kwargs, node):
        if kwargs:
            raise Unknown("dict.%s with keywords" % name)
        n = len(args)
        if name == "get" and n in (1, 2):
            k = self._find_key(d, args[0])
            return d.data[k] if k is not _MISSING else (args[1] if n == 2 else None)
        if name == "pop" and n in (1, 2):
            k = self._find_key(d, args[0])
            if k is _MISSING:
                if n == 2:
                    return args[1]
                raise Raised("KeyError", node)
            self.effect("table-remove", d, k)
            return d.data.pop(k)
        if name == "setdefault" and n in (1, 2):
            k = self._find_key(d, args[0])
            if k is _MISSING:
                d.data[args[0]] = args[1] if n == 2 else None
                self.effect("table-store", d, args[0])
                return d.data[args[0]]
            return d.data[k]
        if name == "items" and n == 0:
            return tuple((k, v) for k, v in d.data.items())
        if name == "keys" and n == 0:
            return tuple(d.data.keys())
        if name == "values" and n == 0:
            return tuple(d.data.values())
        if name == "clear" and n == 0:
            for k in list(d.data):
                self.effect("table-remove", d, k)
            d.data.clear()
            return None
        if name == "popitem" and n == 0:
            if not d.data:
                raise Raised("KeyError", node)
            k = list(d.data)[-1]
            self.effect("table-remove", d, k)
            return (k, d.data.pop(k))
        if name == "copy" and n == 0:
            return new_dict(d.data, tag=d.tag + ".copy()")
        if name == "update" and n == 1 and isinstance(args[0], Obj) and args[0].kind == "dict":
            for k, v in args[0].data.items():
                self.dict_set(d, k, v)
            return None
        raise Unknown("dict method .%s/%d" % (name, n))

    def dict_set(self, d, key, val):
        k = self._find_key(d, key)
        if k is _MISSING:
            k = key
        try:
            hash(k)
        except TypeError:
            raise Unknown("unhashable key %r" % (k,))
        d.data[k] = val
        self.effect("table-store", d, k)

    def dict_del(self, d, key, node):
        k = self._find_key(d, key)
        if k is _MISSING:
            raise Raised("KeyError", node)
        self.effect("table-remove", d, k)
        del d.data[k]

    def list_method(self, l, name, args, kwargs, node):
        if kwargs:
            raise Unknown("list.%s with keywords" % name)
        n = len(args)
        if name == "append" and n == 1:
            l.data.append(args[0])
            self.effect("list-add", l, args[0])
            return None
        if name == "appendleft" and n == 1:
            l.data.insert(0, args[0])
            self.effect("list-add", l, args[0])
            return None
        if name == "insert" and n == 2 and isinstance(args[0], int):
            l.data.insert(args[0], args[1])
            self.effect("list-add", l, args[1])
            return None
        if name == "extend" and n == 1:
            for x in self.iterate(args[0]):
                l.data.append(x)
                self.effect("list-add", l, x)
            return None
        if name in ("pop", "popleft") and n <= 1:
            if not l.data:
                raise Raised("IndexError", node)
            i = args[0] if n else (-1 if name == "pop" else 0)
            if not isinstance(i, int) or not (-len(l.data) <= i < len(l.data)):
                raise Raised("IndexError", node)
            return l.data.pop(i)
        if name == "remove" and n == 1:
            for i, x in enumerate(l.data):
                if self.eq(x, args[0]):
                    del l.data[i]
                    return None
            raise Raised("ValueError", node)
        if name == "clear" and n == 0:
            l.data.clear()
            return None
        if name == "copy" and n == 0:
            return new_list(l.data)
        raise Unknown("list method .%s/%d" % (name, n))

    # -- expressions ------------------------------------------------------------------------------------------
    def ev(self, e, fr):
        self.tick(e)
        m = getattr(self, "ev_" + type(e).__name__, None)
        if m is None:
            raise Unknown("expression `%s`" % stmt_text(e, 60))
        return m(e, fr)

    def ev_Constant(self, e, fr):
        return e.value

    def ev_Name(self, e, fr):
        return self.lookup_name(e.id, fr, e)

    def ev_Attribute(self, e, fr):
        v = self.getattr(self.ev(e.value, fr), e.attr, e)
        if isinstance(v, Obj) and v.kind == "bound" and not hasattr(v, "origin"):
            v.origin = e  # where the method value was taken: functools.partial(self.table.pop, key)
        return v

    def ev_Tuple(self, e, fr):
        out = []
        for x in e.elts:
            if isinstance(x, ast.Starred):
                out.extend(self.iterate(self.ev(x.value, fr)))
            else:
                out.append(self.ev(x, fr))
        return tuple(out)

    def ev_List(self, e, fr):
        return new_list(self.ev_Tuple(e, fr))

    def ev_Set(self, e, fr):
        out = []
        for x in self.ev_Tuple(e, fr):
            if not any(self.eq(x, y) for y in out):
                out.append(x)
        return tuple(out)

    def ev_Dict(self, e, fr):
        d = new_dict()
        for k, v in zip(e.keys, e.values):
            if k is None:
                raise Unknown("dict unpacking in a literal")
            d.data[self.ev(k, fr)] = self.ev(v, fr)
        return d

    def ev_JoinedStr(self, e, fr):
        return "<formatted string>"

    def ev_BoolOp(self, e, fr):
        v = None
        for x in e.values:
            v = self.ev(x, fr)
            t = self.truth(v)
            if isinstance(e.op, ast.And) and not t:
                return v
            if isinstance(e.op, ast.Or) and t:
                return v
        return v

    def ev_UnaryOp(self, e, fr):
        v = self.ev(e.operand, fr)
        if isinstance(e.op, ast.Not):
            return not self.truth(v)
        if isinstance(v, (int, float)) and not isinstance(v, bool):
            if isinstance(e.op, ast.USub):
                return -v
            if isinstance(e.op, ast.UAdd):
                return v
            if isinstance(e.op, ast.Invert) and isinstance(v, int):
                return ~v
        raise Unknown("expression `%s`" % stmt_text(e, 60))

    def binop(self, op, l, r, e):
        if isinstance(l, bool) or isinstance(r, bool):
            raise Unknown("arithmetic on booleans in `%s`" % stmt_text(e, 60))
        if isinstance(l, int) and isinstance(r, int):
            if isinstance(op, (ast.LShift, ast.RShift)):
                if not 0 <= r < 64:
                    raise Raised("ValueError", e)
                return l << r if isinstance(op, ast.LShift) else l >> r
            if isinstance(op, (ast.FloorDiv, ast.Mod)):
                if r == 0:
                    raise Raised("ZeroDivisionError", e)
                return l // r if isinstance(op, ast.FloorDiv) else l % r
            table = {ast.BitAnd: lambda: l & r, ast.BitOr: lambda: l | r, ast.BitXor: lambda: l ^ r, ast.Add: lambda: l + r,
                     ast.Sub: lambda: l - r, ast.Mult: lambda: l * r}
            if type(op) in table:
                return table[type(op)]()
            if isinstance(op, ast.Pow) and 0 <= r < 64:
                return l ** r
        if isinstance(l, tuple) and isinstance(r, tuple) and isinstance(op, ast.Add):
            return l + r
        if isinstance(l, Obj) and isinstance(r, Obj) and l.kind == r.kind == "list" and isinstance(op, ast.Add):
            return new_list(l.data + r.data)
        if isinstance(l, (str, bytes)) and isinstance(op, (ast.Mod, ast.Add)):
            return "<formatted string>"
        raise Unknown("expression `%s` over %r and %r" % (stmt_text(e, 60), l, r))

    def ev_BinOp(self, e, fr):
        return self.binop(e.op, self.ev(e.left, fr), self.ev(e.right, fr), e)

    def ev_Compare(self, e, fr):
        left = self.ev(e.left, fr)
        for op, c in zip(e.ops, e.comparators):
            right = self.ev(c, fr)
            if isinstance(op, (ast.Is, ast.IsNot)):
                r = self.eq(left, right, identity=True)
                r = r if isinstance(op, ast.Is) else not r
            elif isinstance(op, (ast.Eq, ast.NotEq)):
                r = self.eq(left, right)
                r = r if isinstance(op, ast.Eq) else not r
            elif isinstance(op, (ast.In, ast.NotIn)):
                r = self.contains(right, left)
                r = r if isinstance(op, ast.In) else not r
            else:
                if not (isinstance(left, (int, float)) and isinstance(right, (int, float)) and not isinstance(left, bool) and not isinstance(right, bool)):
                    raise Unknown("ordering of %r and %r in `%s`" % (left, right, stmt_text(e, 60)))
                r = {ast.Lt: left < right, ast.LtE: left <= right, ast.Gt: left > right, ast.GtE: left >= right}[type(op)]
            if not r:
                return False
            left = right
        return True

    def ev_Await(self, e, fr):
        if not self.allow_async:
            raise Unknown("await")
        return self.ev(e.value, fr)

    def ev_IfExp(self, e, fr):
        return self.ev(e.body, fr) if self.truth(self.ev(e.test, fr)) else self.ev(e.orelse, fr)

    def ev_NamedExpr(self, e, fr):
        v = self.ev(e.value, fr)
        self.assign(e.target, v, fr)
        return v

    def ev_Lambda(self, e, fr):
        return Obj("func", "<lambda>", data={"node": e, "frame": fr, "module": fr.module, "defaults": self.eval_defaults(e, fr)})

    def ev_Subscript(self, e, fr):
        v = self.ev(e.value, fr)
        if isinstance(e.slice, ast.Slice):
            b = [None if x is None else self.ev(x, fr) for x in (e.slice.lower, e.slice.upper, e.slice.step)]
            if any(x is not None and (not isinstance(x, int) or isinstance(x, bool)) for x in b):
                raise Unknown("slice `%s`" % stmt_text(e, 60))
            if isinstance(v, tuple):
                return v[slice(*b)]
            if isinstance(v, Obj) and v.kind == "list":
                return new_list(v.data[slice(*b)])
            raise Unknown("slice `%s`" % stmt_text(e, 60))
        k = self.ev(e.slice, fr)
        return self.getitem(v, k, e)

    def getitem(self, v, k, node):
        if isinstance(v, tuple) or (isinstance(v, Obj) and v.kind == "list"):
            seq = v if isinstance(v, tuple) else v.data
            if not isinstance(k, int) or isinstance(k, bool):
                raise Unknown("index %r" % (k,))
            if not -len(seq) <= k < len(seq):
                raise Raised("IndexError", node)
            return seq[k]
        if isinstance(v, Obj) and v.kind == "dict":
            kk = self._find_key(v, k)
            if kk is _MISSING:
                raise Raised("KeyError", node)
            return v.data[kk]
        raise Unknown("subscript of %r" % (v,))

    def comprehension(self, e, fr, emit):
        # comprehensions have their own scope for the iteration variables
        inner = Frame(fr.module, fr, fr.fnode)

        def rec(i):
            if i == len(e.generators):
                emit(inner)
                return
            g = e.generators[i]
            if g.is_async:
                raise Unknown("async comprehension")
            for x in self.iterate(self.ev(g.iter, inner if i else fr)):
                self.assign(g.target, x, inner)
                if all(self.truth(self.ev(c, inner)) for c in g.ifs):
                    rec(i + 1)
        rec(0)

    def ev_ListComp(self, e, fr):
        out = []
        self.comprehension(e, fr, lambda f: out.append(self.ev(e.elt, f)))
        return new_list(out)

    def ev_GeneratorExp(self, e, fr):
        out = []
        self.comprehension(e, fr, lambda f: out.append(self.ev(e.elt, f)))
        return tuple(out)

    def ev_SetComp(self, e, fr):
        out = []
        self.comprehension(e, fr, lambda f: out.append(self.ev(e.elt, f)))
        res = []
        for x in out:
            if not any(self.eq(x, y) for y in res):
                res.append(x)
        return tuple(res)

    def ev_DictComp(self, e, fr):
        d = new_dict()
        self.comprehension(e, fr, lambda f: d.data.__setitem__(self.ev(e.key, f), self.ev(e.value, f)))
        return d

    def is_warn_call(self, e, fr):
        """warnings.warn(...) under whatever name the module imported it: transparent like a log call"""
        c = chain(e.func)
        if c is None:
            return False
        f, _ = fr.lookup(c.split(".")[0])
        if f is not None:
            return False
        try:
            return self.prog.resolve_in_module(fr.module, c) == "warnings.warn"
        except Exception:
            return False

    def ev_Call(self, e, fr):
        if is_log_call(e) or self.is_warn_call(e, fr):
            return None
        args = []
        for a in e.args:
            if isinstance(a, ast.Starred):
                args.extend(self.iterate(self.ev(a.value, fr)))
            else:
                args.append(self.ev(a, fr))
        kwargs = {}
        for k in e.keywords:
            if k.arg is None:
                v = self.ev(k.value, fr)
                if not (isinstance(v, Obj) and v.kind == "dict" and all(isinstance(x, str) for x in v.data)):
                    raise Unknown("** argument in `%s`" % stmt_text(e, 60))
                kwargs.update(v.data)
            else:
                kwargs[k.arg] = self.ev(k.value, fr)
        f = e.func
        if isinstance(f, ast.Attribute):
            recv = self.ev(f.value, fr)
            if isinstance(recv, Obj) and recv.kind in ("module", "class"):
                return self.call_value(self.getattr(recv, f.attr, f), args, kwargs, e)
            return self.call_attr(recv, f.attr, args, kwargs, e)
        return self.call_value(self.ev(f, fr), args, kwargs, e)

    # -- statements -------------------------------------------------------------------------------------------
    def exec_block(self, body, fr):
        for st in body:
            self.exec(st, fr)

    def exec(self, st, fr):
        self.tick(st)
        m = getattr(self, "ex_" + type(st).__name__, None)
        if m is None:
            raise Unknown("statement `%s`" % stmt_text(st, 60))
        return m(st, fr)

    def ex_Pass(self, st, fr):
        pass

    def ex_Assert(self, st, fr):
        pass  # an assert is never a guard

    def ex_Expr(self, st, fr):
        if isinstance(st.value, ast.Constant):
            return
        self.ev(st.value, fr)

    def ex_Return(self, st, fr):
        raise _Return(self.ev(st.value, fr) if st.value is not None else None)

    def ex_Break(self, st, fr):
        raise _Break()

    def ex_Continue(self, st, fr):
        raise _Continue()

    def ex_If(self, st, fr):
        if self.truth(self.ev(st.test, fr)):
            self.exec_block(st.body, fr)
        else:
            self.exec_block(st.orelse, fr)

    def ex_While(self, st, fr):
        rounds = 0
        while self.truth(self.ev(st.test, fr)):
            rounds += 1
            if rounds > 64:
                raise Unknown("loop `%s` does not terminate" % stmt_text(st, 40))
            try:
                self.exec_block(st.body, fr)
            except _Break:
                return
            except _Continue:
                continue
        self.exec_block(st.orelse, fr)

    def ex_For(self, st, fr):
        for x in self.iterate(self.ev(st.iter, fr)):
            self.assign(st.target, x, fr)
            try:
                self.exec_block(st.body, fr)
            except _Break:
                return
            except _Continue:
                continue
        self.exec_block(st.orelse, fr)

    def ex_FunctionDef(self, st, fr):
        if st.decorator_list:
            raise Unknown("decorated nested function %s" % st.name)
        fr.vars[st.name] = Obj("func", st.name, data={"node": st, "frame": fr, "module": fr.module, "defaults": self.eval_defaults(st, fr)})

    def ex_Assign(self, st, fr):
        v = self.ev(st.value, fr)
        for t in st.targets:
            self.assign(t, v, fr)

    def ex_AnnAssign(self, st, fr):
        if st.value is not None:
            self.assign(st.target, self.ev(st.value, fr), fr)

    def ex_AugAssign(self, st, fr):
        t = st.target
        if isinstance(t, ast.Name):
            cur = self.lookup_name(t.id, fr, t)
        elif isinstance(t, ast.Attribute):
            cur = self.getattr(self.ev(t.value, fr), t.attr, t)
        else:
            cur = self.ev(ast.Subscript(value=t.value, slice=t.slice, ctx=ast.Load()), fr)
        r = self.ev(st.value, fr)
        if isinstance(cur, Obj) and cur.kind == "list" and isinstance(st.op, ast.Add):
            self.list_method(cur, "extend", [r], {}, st)
            return
        self.assign(t, self.binop(st.op, cur, r, st), fr)

    def assign(self, t, v, fr):
        if isinstance(t, ast.Name):
            if t.id in fr.nonlocals:
                f, _ = fr.parent.lookup(t.id)
                f.vars[t.id] = v
            else:
                fr.vars[t.id] = v
        elif isinstance(t, ast.Attribute):
            self.setattr(self.ev(t.value, fr), t.attr, v)
        elif isinstance(t, ast.Subscript):
            c = self.ev(t.value, fr)
            k = self.ev(t.slice, fr)
            if isinstance(c, Obj) and c.kind == "dict":
                self.dict_set(c, k, v)
            elif isinstance(c, Obj) and c.kind == "list" and isinstance(k, int) and -len(c.data) <= k < len(c.data):
                c.data[k] = v
            else:
                raise Unknown("subscript store on %r" % (c,))
        elif isinstance(t, (ast.Tuple, ast.List)):
            if any(isinstance(x, ast.Starred) for x in t.elts):
                raise Unknown("starred assignment target")
            if isinstance(v, Obj) and v.token:
                raise Unknown("unpacking of %r, about which nothing is known," % v)
            seq = self.iterate(v)
            if len(seq) != len(t.elts):
                raise Raised("ValueError", t)
            for x, y in zip(t.elts, seq):
                self.assign(x, y, fr)
        else:
            raise Unknown("assignment target `%s`" % stmt_text(t, 40))

    def ex_Delete(self, st, fr):
        for t in st.targets:
            if isinstance(t, ast.Name):
                f, _ = fr.lookup(t.id)
                if f is not fr:
                    raise Unknown("del %s" % t.id)
                del fr.vars[t.id]
            elif isinstance(t, ast.Subscript):
                c = self.ev(t.value, fr)
                k = self.ev(t.slice, fr)
                if isinstance(c, Obj) and c.kind == "dict":
                    self.dict_del(c, k, st)
                elif isinstance(c, Obj) and c.kind == "list" and isinstance(k, int) and -len(c.data) <= k < len(c.data):
                    del c.data[k]
                else:
                    raise Unknown("del on %r" % (c,))
            else:
                raise Unknown("`%s`" % stmt_text(st, 40))

    def exc_class_of(self, e, fr):
        """qualified / builtin name of the class named (or instantiated) by a raise operand or handler type"""
        if isinstance(e, ast.Call):
            e = e.func
        c = chain(e)
        if c is None:
            raise Unknown("exception class `%s`" % stmt_text(e, 40))
        f, v = fr.lookup(c.split(".")[0])
        if f is not None:
            v = self.ev(e, fr)
            if isinstance(v, Obj) and v.kind in ("class", "excinst"):
                return v.tag
            raise Unknown("raise of %r" % (v,))
        q = self.prog.resolve_in_module(fr.module, c)
        try:
            q = self.prog.canonical(q)
        except Exception:
            pass
        return q

    def ex_Raise(self, st, fr):
        if st.exc is None:
            cur = getattr(fr, "handling", None)
            f = fr
            while cur is None and f is not None:
                cur = getattr(f, "handling", None)
                f = f.parent
            if cur is None:
                raise Unknown("bare raise outside a handler")
            raise cur
        raise Raised(self.exc_class_of(st.exc, fr), st)

    def exc_matches(self, raised, handler_qn):
        if raised == handler_qn:
            return True
        try:
            return handler_qn in self.prog.mro(raised)
        except Exception:
            return False

    def ex_Try(self, st, fr):
        try:
            try:
                self.exec_block(st.body, fr)
            except Raised as r:
                for h in st.handlers:
                    types = []
                    if h.type is None:
                        ok = True
                    else:
                        tl = h.type.elts if isinstance(h.type, ast.Tuple) else [h.type]
                        types = [self.exc_class_of(t, fr) for t in tl]
                        ok = any(self.exc_matches(r.cls, t) for t in types)
                    if ok:
                        if h.name:
                            fr.vars[h.name] = Obj("excinst", r.cls)
                        prev = getattr(fr, "handling", None)
                        fr.handling = r
                        try:
                            self.exec_block(h.body, fr)
                        finally:
                            fr.handling = prev
                        break
                else:
                    raise
            else:
                self.exec_block(st.orelse, fr)
        finally:
            if st.finalbody:
                self.exec_block(st.finalbody, fr)

    def ex_With(self, st, fr):
        # only `with contextlib.suppress(E, ...):` -- the same as try/except E: pass
        if len(st.items) != 1 or st.items[0].optional_vars is not None:
            raise Unknown("statement `%s`" % stmt_text(st, 60))
        ce = st.items[0].context_expr
        q = None
        if isinstance(ce, ast.Call) and not ce.keywords and chain(ce.func):
            q = self.prog.resolve_in_module(fr.module, chain(ce.func))
        if q != "contextlib.suppress":
            raise Unknown("statement `%s`" % stmt_text(st, 60))
        types = [self.exc_class_of(t, fr) for t in ce.args]
        try:
            self.exec_block(st.body, fr)
        except Raised as r:
            if not any(self.exc_matches(r.cls, t) for t in types):
                raise

    def ex_Match(self, st, fr):
        subj = self.ev(st.subject, fr)
        for case in st.cases:
            binds = {}
            if self.match_pattern(case.pattern, subj, fr, binds):
                for k, v in binds.items():
                    fr.vars[k] = v
                if case.guard is not None and not self.truth(self.ev(case.guard, fr)):
                    continue
                self.exec_block(case.body, fr)
                return

    def match_pattern(self, p, subj, fr, binds):
        if isinstance(p, ast.MatchSingleton):
            return self.eq(subj, p.value, identity=True)
        if isinstance(p, ast.MatchValue):
            return self.eq(subj, self.ev(p.value, fr))
        if isinstance(p, ast.MatchAs):
            if p.pattern is not None and not self.match_pattern(p.pattern, subj, fr, binds):
                return False
            if p.name:
                binds[p.name] = subj
            return True
        if isinstance(p, ast.MatchOr):
            return any(self.match_pattern(x, subj, fr, binds) for x in p.patterns)
        raise Unknown("match pattern `%s`" % stmt_text(p, 40))

    def ex_Global(self, st, fr):
        raise Unknown("global statement")

    def ex_Nonlocal(self, st, fr):
        for n in st.names:
            f, _ = (fr.parent.lookup(n) if fr.parent is not None else (None, None))
            if f is None:
                raise Unknown("nonlocal %s without a binding" % n)
            fr.nonlocals.add(n)

    # -- entry ------------------------------------------------------------------------------------------------
    def run(self, fi, args, kwargs=None):
        """-> ('return', value) | ('raise', class name).  Unknown -> AnalysisError with the function named."""
        try:
            try:
                v = self.call_funcinfo(fi, args, kwargs or {}, fi.node)
                return ("return", v)
            except Raised as r:
                return ("raise", r.cls)
        except Unknown as u:
            raise AnalysisError("evaluation of %s: %s is outside the evaluator's vocabulary" % (fi.short, u))
        except RecursionError:
            raise AnalysisError("evaluation of %s: recursion" % fi.short)

    def invoke(self, fn, args, kwargs=None, what="callback"):
        try:
            try:
                return ("return", self.call_value(fn, list(args), kwargs or {}, None))
            except Raised as r:
                return ("raise", r.cls)
        except Unknown as u:
            raise AnalysisError("evaluation of the %s: %s is outside the evaluator's vocabulary" % (what, u))


def reads_only(fnode, args, kwargs):
    """True if the function `fnode`, called with these values, cannot store into an attribute of any heap individual
    it is handed: every parameter bound to one occurs only as the base of a plain attribute *read* that is not itself
    called (`request.opt...`, never `request.x = ..`, `del request.x`, `request.method()`, `f(request)`,
    `alias = request`, `return request`, `request.__dict__`), in the function and in everything nested in it."""
    if isinstance(fnode, (ast.AsyncFunctionDef, ast.Lambda)):
        return False
    a = fnode.args
    if a.vararg is not None or a.kwarg is not None:
        return False
    names = [x.arg for x in a.posonlyargs + a.args]
    bound = dict(zip(names, args))
    for k, v in kwargs.items():
        bound[k] = v

    def immutable(v):
        if isinstance(v, tuple):
            return all(immutable(x) for x in v)
        return not isinstance(v, Obj) or v.kind in ("class", "module", "builtin")
    watched = {x.arg for x in a.posonlyargs + a.args + a.kwonlyargs if x.arg not in bound or not immutable(bound[x.arg])}
    parent = {}
    for p in ast.walk(fnode):
        for c in ast.iter_child_nodes(p):
            parent[id(c)] = p
    for n in ast.walk(fnode):
        if isinstance(n, (ast.Global, ast.Nonlocal, ast.Yield, ast.YieldFrom, ast.Await)):
            return False
        if isinstance(n, ast.Name) and n.id in watched:
            if isinstance(n.ctx, ast.Store):
                continue  # rebinding the local name does nothing to the object
            p = parent.get(id(n))
            if not (isinstance(p, ast.Attribute) and p.value is n and isinstance(p.ctx, ast.Load)) or p.attr.startswith("__"):
                return False
            pp = parent.get(id(p))
            if isinstance(pp, ast.Call) and pp.func is p:
                return False
    return True


# -- builtins ---------------------------------------------------------------------------------------------------

def _bi_partial(m, args, kwargs, node):
    if not args:
        raise Unknown("functools.partial()")
    return Obj("partial", "partial", data=(args[0], tuple(args[1:]), dict(kwargs)))


def _bi_len(m, args, kwargs, node):
    (v,) = args
    if isinstance(v, (tuple, str, bytes)):
        return len(v)
    if isinstance(v, Obj) and v.kind in ("dict", "list"):
        return len(v.data)
    raise Unknown("len(%r)" % (v,))


def _bi_bool(m, args, kwargs, node):
    return m.truth(args[0]) if args else False


def _bi_any(m, args, kwargs, node):
    return any(m.truth(x) for x in m.iterate(args[0]))


def _bi_all(m, args, kwargs, node):
    return all(m.truth(x) for x in m.iterate(args[0]))


def _bi_tuple(m, args, kwargs, node):
    return tuple(m.iterate(args[0])) if args else ()


def _bi_list(m, args, kwargs, node):
    return new_list(m.iterate(args[0]) if args else [])


def _bi_dict(m, args, kwargs, node):
    if args:
        if isinstance(args[0], Obj) and args[0].kind == "dict":
            d = new_dict(args[0].data)
        else:
            d = new_dict()
            for kv in m.iterate(args[0]):
                k, v = m.iterate(kv)
                d.data[k] = v
    else:
        d = new_dict()
    d.data.update(kwargs)
    return d


def _bi_type(m, args, kwargs, node):
    (v,) = args
    if isinstance(v, Obj) and v.kind == "self":
        return Obj("class", m.cls.qn)
    if isinstance(v, Obj) and isinstance(v.data, dict) and "class" in v.data:
        return Obj("class", v.data["class"])
    raise Unknown("type(%r)" % (v,))


def _bi_reversed(m, args, kwargs, node):
    return tuple(reversed(m.iterate(args[0])))


def _bi_sorted(m, args, kwargs, node):
    raise Unknown("sorted()")


def _bi_enumerate(m, args, kwargs, node):
    start = args[1] if len(args) > 1 else kwargs.get("start", 0)
    return tuple((i + start, x) for i, x in enumerate(m.iterate(args[0])))


def _bi_zip(m, args, kwargs, node):
    return tuple(zip(*[m.iterate(a) for a in args]))


def _bi_set(m, args, kwargs, node):
    out = []
    for x in (m.iterate(args[0]) if args else []):
        if not any(m.eq(x, y) for y in out):
            out.append(x)
    return tuple(out)


def _bi_range(m, args, kwargs, node):
    if not args or len(args) > 3 or any(not isinstance(a, int) or isinstance(a, bool) for a in args):
        raise Unknown("range%r" % (tuple(args),))
    r = range(*args)
    if len(r) > 4096:
        raise Unknown("range%r" % (tuple(args),))
    return tuple(r)


def _bi_getattr(m, args, kwargs, node):
    if len(args) not in (2, 3) or not isinstance(args[1], str) or not isinstance(args[0], Obj):
        raise Unknown("getattr%r" % (tuple(args),))
    o, name = args[0], args[1]
    if len(args) == 3 and name not in o.attrs and name not in o.methods and o.kind == "obj" and not o.lazy:
        return args[2]
    return m.getattr(o, name, node)


def _bi_str(m, args, kwargs, node):
    return "<string>"


def _bi_int(m, args, kwargs, node):
    if len(args) == 1 and isinstance(args[0], int):
        return int(args[0])
    raise Unknown("int%r" % (tuple(args),))


def _bi_minmax(which):
    def f(m, args, kwargs, node):
        vals = m.iterate(args[0]) if len(args) == 1 else list(args)
        if kwargs or not vals or any(not isinstance(x, (int, float)) or isinstance(x, bool) for x in vals):
            raise Unknown("%s%r" % (which.__name__, tuple(args)))
        return which(vals)
    return f


def _bi_setattr(m, args, kwargs, node):
    if kwargs or len(args) != 3 or not isinstance(args[1], str):
        raise Unknown("setattr%r" % (tuple(args),))
    m.setattr(args[0], args[1], args[2])
    return None


def _bi_hasattr(m, args, kwargs, node):
    if kwargs or len(args) != 2 or not isinstance(args[1], str) or not isinstance(args[0], Obj) or args[0].token:
        raise Unknown("hasattr%r" % (tuple(args),))
    o, name = args
    if name in o.attrs or name in o.methods:
        return True
    if o.lazy:
        raise Unknown("hasattr(%r, %r): nothing is known about that attribute" % (o, name))
    iq = m.instance_class(o)
    if iq is not None:
        return m.prog.lookup_method(iq, name) is not None or m.prog.class_attr(iq, name)[0] is not None
    if o.kind == "obj" and not isinstance(o.data, dict):
        return False
    raise Unknown("hasattr(%r, %r)" % (o, name))


def _deepcopy(m, v, memo, deep=True):
    """copy.deepcopy / copy.copy of a value of this evaluator: containers and attribute bags are duplicated,
    immutable values, callables, classes and values about which nothing is known are shared"""
    if isinstance(v, tuple):
        return tuple(_deepcopy(m, x, memo, deep) for x in v) if deep else v
    if not isinstance(v, Obj) or v.token or v.kind not in ("obj", "dict", "list"):
        return v
    if id(v) in memo:
        return memo[id(v)]
    m.counter += 1
    new = Obj(v.kind, "copy#%d(%s)" % (m.counter, v.tag), lazy=v.lazy, methods=v.methods)
    memo[id(v)] = new
    new.data = dict(v.data) if isinstance(v.data, dict) and v.kind == "obj" else v.data
    sub = (lambda x: _deepcopy(m, x, memo, True)) if deep else (lambda x: x)
    if v.kind == "dict":
        new.data = {sub(k): sub(x) for k, x in v.data.items()}
    elif v.kind == "list":
        new.data = [sub(x) for x in v.data]
    new.attrs = {k: sub(x) for k, x in v.attrs.items()}
    return new


def _ext_deepcopy(m, args, kwargs, node):
    if kwargs or len(args) != 1:
        raise Unknown("copy.deepcopy%r" % (tuple(args),))
    return _deepcopy(m, args[0], {}, True)


def _ext_copy(m, args, kwargs, node):
    if kwargs or len(args) != 1:
        raise Unknown("copy.copy%r" % (tuple(args),))
    return _deepcopy(m, args[0], {}, False)


_EXTERNALS = {"warnings.warn": lambda m, args, kwargs, node: None, "copy.deepcopy": _ext_deepcopy, "copy.copy": _ext_copy}


_BUILTINS = {
    "setattr": _bi_setattr, "hasattr": _bi_hasattr,
    "set": _bi_set, "frozenset": _bi_set, "range": _bi_range, "getattr": _bi_getattr, "str": _bi_str, "repr": _bi_str, "int": _bi_int,
    "min": _bi_minmax(min), "max": _bi_minmax(max),
    "len": _bi_len, "bool": _bi_bool, "any": _bi_any, "all": _bi_all, "tuple": _bi_tuple, "list": _bi_list, "dict": _bi_dict,
    "type": _bi_type, "reversed": _bi_reversed, "enumerate": _bi_enumerate, "zip": _bi_zip,
}


# -- concrete address evaluation (C10.i) ------------------------------------------------------------------------
#
# "Is this address a multicast address" is a statement about what UDP6EndpointAddress.is_multicast /
# .is_multicast_locally COMPUTE, not about how they are spelled (split vs partition, a temporary for the address
# object, a helper that unpacks the pktinfo, a conditional expression in _strip_v4mapped ...).  AddrMachine runs the
# properties on representative concrete addresses.  It extends the scenario evaluator by
#   * exact strings and bytes (methods, + and %, f-strings, indexing and slicing, str()/int()/bytes()),
#   * the checker's own model of the standard-library pieces the address code leans on: `ipaddress` (address and
#     network objects), `struct` (Struct / pack / unpack / unpack_from), `socket.if_indextoname` / inet_pton /
#     inet_ntop.  The model states the semantics the verdict depends on explicitly instead of inheriting them from
#     the interpreter the checker happens to run under: IPv6Address.is_multicast is "in ff00::/8", and only from
#     Python 3.13 on additionally "or the embedded IPv4 address is multicast" (`mapped_aware`); the text of a
#     v4-mapped IPv6Address is `::ffff:e000:1bb` before 3.13 and `::ffff:224.0.1.187` from 3.13 on.
# Nothing of the analysed repository is imported or executed; the host's ipaddress module is used only to parse and
# print address literals, the host's struct module only on a format string that passes a whitelist.

import ipaddress as _host_ip
import re as _re
import struct as _host_struct

_BUILTIN_PARENTS = {
    "ipaddress.AddressValueError": "ValueError", "ipaddress.NetmaskValueError": "ValueError", "ValueError": "Exception", "UnicodeError": "ValueError",
    "UnicodeDecodeError": "UnicodeError", "UnicodeEncodeError": "UnicodeError",
    "struct.error": "Exception", "socket.gaierror": "OSError", "socket.herror": "OSError", "socket.timeout": "OSError", "socket.error": "OSError", "OSError": "Exception",
    "IOError": "OSError", "EnvironmentError": "OSError",
    "TypeError": "Exception", "KeyError": "LookupError", "IndexError": "LookupError", "LookupError": "Exception", "AttributeError": "Exception",
    "NameError": "Exception", "AssertionError": "Exception", "RuntimeError": "Exception", "NotImplementedError": "RuntimeError", "ZeroDivisionError": "ArithmeticError",
    "ArithmeticError": "Exception", "OverflowError": "ArithmeticError", "Exception": "BaseException",
}
_EXC_ALIASES = {"socket.error": "OSError", "IOError": "OSError", "EnvironmentError": "OSError", "socket.timeout": "TimeoutError"}

_STR_METHODS = {
    "split", "rsplit", "partition", "rpartition", "strip", "lstrip", "rstrip", "startswith", "endswith", "lower", "upper", "find", "rfind", "index",
    "rindex", "count", "replace", "removeprefix", "removesuffix", "join", "format", "encode", "decode", "isdigit", "isdecimal", "isalnum", "isalpha",
    "splitlines", "zfill", "hex", "casefold", "title", "ljust", "rjust", "center", "expandtabs",
}
_STRUCT_FMT = _re.compile(r"^[@=<>!]?(?:\s*\d{0,3}[xcbB?hHiIlLqQnNsp])+\s*$")


def ip_is_multicast(version, value, mapped_aware=False):
    """the reference AND the library model.  IPv4: 224.0.0.0/4.  IPv6: ff00::/8; an IPv4-mapped address
    (::ffff:a.b.c.d) is in ::/8, so the library calls it multicast only where it looks through the mapping (3.13+)."""
    if version == 4:
        return (value >> 28) == 0xE
    if mapped_aware and (value >> 32) == 0xFFFF:
        return ((value & 0xFFFFFFFF) >> 28) == 0xE
    return (value >> 120) == 0xFF


def reference_is_multicast(version, value):
    """what the property calls a multicast address: an IPv6 group, an IPv4 group, or an IPv4 group in its
    v4-mapped IPv6 spelling (what a dual-stack socket reports for 224.0.1.187)"""
    return ip_is_multicast(version, value, mapped_aware=True)


class AddrMachine(Machine):
    """if_names: {interface index: name} known to socket.if_indextoname (any other index raises OSError);
    mapped_aware: model the ipaddress module of Python >= 3.13."""

    def __init__(self, prog, cls, self_obj, consts=None, preds=None, stubs=None, if_names=None, mapped_aware=False, max_steps=20000):
        Machine.__init__(self, prog, cls, self_obj, consts or {}, preds or {}, stubs, max_steps)
        self.if_names = dict(if_names or {})
        self.mapped_aware = mapped_aware

    # -- values ---------------------------------------------------------------------------------------------
    def native(self, v, what):
        """v as a Python value made of str/bytes/int/bool/None/tuple/list only"""
        if isinstance(v, NATIVE):
            return v
        if isinstance(v, tuple):
            return tuple(self.native(x, what) for x in v)
        if isinstance(v, Obj) and v.kind == "list":
            return [self.native(x, what) for x in v.data]
        raise Unknown("%s over %r" % (what, v))

    def wrap(self, v):
        if isinstance(v, list):
            return new_list([self.wrap(x) for x in v])
        if isinstance(v, tuple):
            return tuple(self.wrap(x) for x in v)
        return v

    def text_of(self, v, what="str()"):
        if isinstance(v, Obj) and isinstance(v.data, dict) and "text" in v.data:
            return v.data["text"]
        if isinstance(v, bool) or v is None or isinstance(v, (int, str)):
            return str(v)
        if isinstance(v, bytes):
            return str(v)
        raise Unknown("%s of %r" % (what, v))

    def ip_obj(self, host):
        """heap individual for an address parsed by the host's ipaddress module (used as a parser only)"""
        version, value = host.version, int(host)
        scope = getattr(host, "scope_id", None)
        attrs = {"version": version, "packed": host.packed, "max_prefixlen": 32 if version == 4 else 128,
                 "is_multicast": ip_is_multicast(version, value, self.mapped_aware)}
        if version == 4:
            text = str(_host_ip.IPv4Address(value))
            attrs["compressed"] = text
            attrs["exploded"] = text
        else:
            mapped = None
            if (value >> 32) == 0xFFFF:
                mapped = self.ip_obj(_host_ip.IPv4Address(value & 0xFFFFFFFF))
                text = "::ffff:" + mapped.data["text"] if self.mapped_aware else "::ffff:%x:%x" % ((value >> 16) & 0xFFFF, value & 0xFFFF)
            else:
                text = _host_ip.IPv6Address(value).compressed
            if scope:
                text += "%" + scope
            attrs.update({"ipv4_mapped": mapped, "scope_id": scope, "compressed": text,
                          "exploded": _host_ip.IPv6Address(value).exploded + ("%" + scope if scope else "")})
        self.counter += 1
        o = Obj("obj", "IPv%dAddress(%s)" % (version, text), attrs=attrs, data={"ip": (version, value, scope), "text": text})
        return o

    def make_ip(self, which, args, kwargs, node):
        if kwargs or len(args) != 1:
            raise Unknown("ipaddress.%s%r" % (which, tuple(args)))
        a = args[0]
        if isinstance(a, Obj) and isinstance(a.data, dict) and "ip" in a.data:
            if which == "ip_address":
                raise Raised("ValueError", node)  # ip_address() of an address object: 'does not appear to be an IPv4 or IPv6 address'
            a = a.data["text"]  # the constructors fall back to str(address)
        if isinstance(a, bool) or not isinstance(a, (str, bytes, int)):
            raise Unknown("ipaddress.%s(%r)" % (which, a))
        try:
            host = getattr(_host_ip, which)(a)
        except ValueError:
            raise Raised("ValueError" if which == "ip_address" else "ipaddress.AddressValueError", node)
        return self.ip_obj(host)

    def make_net(self, which, args, kwargs, node):
        strict = kwargs.pop("strict", True) if kwargs else True
        if kwargs or not 1 <= len(args) <= 2 or not isinstance(args[0], str):
            raise Unknown("ipaddress.%s%r" % (which, tuple(args)))
        if len(args) == 2:
            strict = args[1]
        try:
            host = getattr(_host_ip, which)(args[0], strict=bool(strict))
        except ValueError:
            raise Raised("ValueError", node)
        return Obj("obj", "%s(%s)" % (which, host), data={"net": (host.version, int(host.network_address), host.prefixlen), "text": str(host)},
                   attrs={"version": host.version, "prefixlen": host.prefixlen, "network_address": self.ip_obj(host.network_address)})

    def make_struct(self, fmt):
        if isinstance(fmt, bytes):
            fmt = fmt.decode("ascii", "replace")
        if not isinstance(fmt, str) or not _STRUCT_FMT.match(fmt):
            raise Unknown("struct format %r" % (fmt,))
        return Obj("obj", "Struct(%r)" % fmt, data={"struct": fmt}, attrs={"size": _host_struct.calcsize(fmt), "format": fmt},
                   methods={"unpack": _struct_method("unpack"), "unpack_from": _struct_method("unpack_from"), "pack": _struct_method("pack")})

    def struct_op(self, op, fmt, args, kwargs, node):
        if not isinstance(fmt, str) or not _STRUCT_FMT.match(fmt):
            raise Unknown("struct format %r" % (fmt,))
        if op == "unpack_from" and "offset" in kwargs:
            args = list(args) + [kwargs.pop("offset")]
        if kwargs:
            raise Unknown("struct.%s with keywords" % op)
        vals = [self.native(a, "struct.%s" % op) for a in args]
        if op != "pack" and vals and vals[0] is None:
            raise Raised("TypeError", node)
        try:
            return getattr(_host_struct, op)(fmt, *vals)
        except _host_struct.error:
            raise Raised("struct.error", node)
        except TypeError:
            raise Raised("TypeError", node)

    # -- equality / membership / truth -----------------------------------------------------------------------
    def eq(self, a, b, identity=False):
        if not identity and isinstance(a, Obj) and isinstance(b, Obj) and isinstance(a.data, dict) and isinstance(b.data, dict):
            for key in ("ip", "net"):
                if key in a.data and key in b.data:
                    return a.data[key] == b.data[key]
        return Machine.eq(self, a, b, identity)

    def contains(self, container, item):
        if isinstance(container, Obj) and isinstance(container.data, dict) and "net" in container.data:
            if not (isinstance(item, Obj) and isinstance(item.data, dict) and "ip" in item.data):
                raise Unknown("membership of %r in %r" % (item, container))
            version, base, plen = container.data["net"]
            iv, value, _scope = item.data["ip"]
            bits = 32 if version == 4 else 128
            # an address of the other family is never in the network
            if iv != version:
                return False
            return plen == 0 or (value >> (bits - plen)) == (base >> (bits - plen))
        return Machine.contains(self, container, item)

    def iterate(self, v):
        if isinstance(v, (str, bytes)):
            return list(v)
        return Machine.iterate(self, v)

    # -- names, attributes, calls ----------------------------------------------------------------------------
    def lookup_name(self, name, fr, node):
        try:
            v = Machine.lookup_name(self, name, fr, node)
        except Unknown:
            if name in _ADDR_BUILTINS:
                return Obj("builtin", name, data=_ADDR_BUILTINS[name])
            raise
        if isinstance(v, Obj) and v.kind == "builtin" and v.tag == name and name in _ADDR_BUILTINS:
            return Obj("builtin", name, data=_ADDR_BUILTINS[name])
        if isinstance(v, Obj) and v.kind == "module":
            ext = self.external(v.tag)
            if ext is not _MISSING:
                return ext
        return v

    def external(self, qn):
        """value of a standard-library name the model covers, else _MISSING"""
        if qn in _ADDR_EXTERNALS:
            return Obj("builtin", qn, data=_ADDR_EXTERNALS[qn])
        if qn in ("socket.AF_INET6", "socket.AF_INET"):
            return Sym(qn.split(".")[-1])
        if qn in _BUILTIN_PARENTS and "." in qn:
            return Obj("class", qn)
        return _MISSING

    def getattr(self, v, attr, node=None):
        if isinstance(v, (str, bytes)):
            if attr in _STR_METHODS:
                return Obj("bound", "%s.%s" % (type(v).__name__, attr), data=(v, attr))
            raise Unknown("attribute .%s of %r" % (attr, v))
        if isinstance(v, Obj):
            if v.kind == "module":
                ext = self.external(v.tag + "." + attr)
                if ext is not _MISSING:
                    return ext
            if v.kind in ("class", "self") and attr not in v.attrs:
                qn = v.tag if v.kind == "class" else self.cls.qn
                fi = self.prog.lookup_method(qn, attr) if qn in self.prog.classes else None
                if fi is not None:
                    decos = [chain(d) for d in fi.node.decorator_list]
                    if v.kind == "self" and len(decos) == 1 and decos[0] in ("functools.cached_property", "cached_property"):
                        # evaluated on first access, then an instance attribute
                        val = self.call_funcinfo(fi, [v], {}, node)
                        v.attrs[attr] = val
                        return val
                    if decos == ["staticmethod"] or (v.kind == "class" and not decos):
                        # Class.method: the plain function (self is passed explicitly); static methods the same from an instance
                        return Obj("func", fi.qn, data={"node": fi.node, "frame": None, "module": fi.module, "defaults": None})
                    if decos == ["classmethod"]:
                        f = Obj("func", fi.qn, data={"node": fi.node, "frame": None, "module": fi.module, "defaults": None})
                        return Obj("partial", "partial", data=(f, (Obj("class", qn),), {}))
        return Machine.getattr(self, v, attr, node)

    def call_value(self, fn, args, kwargs, node):
        if isinstance(fn, Obj) and fn.kind == "class" and fn.tag in _BUILTIN_PARENTS:
            return Obj("excinst", fn.tag, data=tuple(args))
        return Machine.call_value(self, fn, args, kwargs, node)

    def call_attr(self, recv, name, args, kwargs, node):
        if isinstance(recv, (str, bytes)):
            return self.str_method(recv, name, args, kwargs, node)
        if isinstance(recv, Obj) and recv.kind == "self" and name not in recv.attrs and name not in recv.methods and name not in self.stubs:
            fi = self.prog.lookup_method(self.cls.qn, name)
            if fi is not None and [chain(d) for d in fi.node.decorator_list] == ["classmethod"]:
                return self.call_funcinfo(fi, [Obj("class", self.cls.qn)] + list(args), kwargs, node)
        if isinstance(recv, Obj) and recv.kind == "obj" and not recv.token and isinstance(recv.data, dict) and ("ip" in recv.data or "net" in recv.data or "struct" in recv.data) \
                and name not in recv.attrs and name not in recv.methods:
            raise Unknown("method .%s() of %r" % (name, recv))
        return Machine.call_attr(self, recv, name, args, kwargs, node)

    def str_method(self, s, name, args, kwargs, node):
        if name not in _STR_METHODS or (isinstance(s, bytes) and name in ("format", "encode")) or (isinstance(s, str) and name in ("decode", "hex")):
            raise Unknown("method %s.%s()" % (type(s).__name__, name))
        if name == "join":
            if kwargs or len(args) != 1:
                raise Unknown("join%r" % (tuple(args),))
            parts = [self.native(x, "join") for x in self.iterate(args[0])]
            if not all(isinstance(p, type(s)) for p in parts):
                raise Raised("TypeError", node)
            return s.join(parts)
        if name == "format":
            a = [self.text_of(x, "format()") if isinstance(x, Obj) else self.native(x, "format()") for x in args]
            kw = {k: (self.text_of(x, "format()") if isinstance(x, Obj) else self.native(x, "format()")) for k, x in kwargs.items()}
            try:
                return s.format(*a, **kw)
            except (IndexError, KeyError, ValueError, TypeError) as e:
                raise Raised(type(e).__name__, node)
        a = [self.native(x, "%s.%s()" % (type(s).__name__, name)) for x in args]
        kw = {k: self.native(x, "%s.%s()" % (type(s).__name__, name)) for k, x in kwargs.items()}
        try:
            return self.wrap(getattr(s, name)(*a, **kw))
        except (ValueError, TypeError, UnicodeError, LookupError) as e:
            cls = type(e).__name__
            raise Raised(cls if cls in _BUILTIN_PARENTS else "ValueError" if isinstance(e, ValueError) else "Exception", node)

    # -- expressions ----------------------------------------------------------------------------------------
    def binop(self, op, l, r, e):
        for t in (str, bytes):
            if isinstance(l, t):
                if isinstance(op, ast.Add):
                    if isinstance(r, t):
                        return l + r
                    if isinstance(r, NATIVE) or isinstance(r, (tuple, Obj)) and not (isinstance(r, Obj) and r.token):
                        raise Raised("TypeError", e)
                if isinstance(op, ast.Mult) and isinstance(r, int) and not isinstance(r, bool) and 0 <= r <= 64:
                    return l * r
                if isinstance(op, ast.Mod):
                    vals = tuple(self.fmt_arg(x) for x in r) if isinstance(r, tuple) else (self.fmt_arg(r),)
                    try:
                        return l % vals
                    except (TypeError, ValueError) as x:
                        raise Raised(type(x).__name__, e)
                raise Unknown("expression `%s` over %r and %r" % (stmt_text(e, 60), l, r))
        if isinstance(l, int) and not isinstance(l, bool) and isinstance(r, (str, bytes)) and isinstance(op, ast.Mult) and 0 <= l <= 64:
            return l * r
        return Machine.binop(self, op, l, r, e)

    def fmt_arg(self, v):
        if isinstance(v, Obj):
            return _Text(self.text_of(v, "%-formatting"))
        return self.native(v, "%-formatting")

    def ev_JoinedStr(self, e, fr):
        out = []
        for part in e.values:
            if isinstance(part, ast.Constant):
                out.append(str(part.value))
                continue
            v = self.ev(part.value, fr)
            spec = ""
            if part.format_spec is not None:
                spec = self.ev_JoinedStr(part.format_spec, fr)
            if part.conversion in (115, 114, 97) or isinstance(v, Obj):  # !s !r !a
                if part.conversion in (114, 97) and not isinstance(v, NATIVE):
                    raise Unknown("repr() of %r in an f-string" % (v,))
                v = self.text_of(v, "formatting") if part.conversion != 114 else repr(v)
            elif not isinstance(v, NATIVE):
                raise Unknown("formatting of %r" % (v,))
            try:
                out.append(format(v, spec))
            except (ValueError, TypeError) as x:
                raise Raised(type(x).__name__, e)
        return "".join(out)

    def ev_Subscript(self, e, fr):
        if isinstance(e.slice, ast.Slice):
            v = self.ev(e.value, fr)
            b = [None if x is None else self.ev(x, fr) for x in (e.slice.lower, e.slice.upper, e.slice.step)]
            if any(x is not None and (not isinstance(x, int) or isinstance(x, bool)) for x in b) or b[2] == 0:
                raise Unknown("slice `%s`" % stmt_text(e, 60))
            if isinstance(v, (str, bytes, tuple)):
                return v[slice(*b)]
            if isinstance(v, Obj) and v.kind == "list":
                return new_list(v.data[slice(*b)])
            raise Unknown("slice `%s`" % stmt_text(e, 60))
        return Machine.ev_Subscript(self, e, fr)

    def getitem(self, v, k, node):
        if isinstance(v, (str, bytes)):
            if not isinstance(k, int) or isinstance(k, bool):
                raise Raised("TypeError", node)
            if not -len(v) <= k < len(v):
                raise Raised("IndexError", node)
            return v[k]
        return Machine.getitem(self, v, k, node)

    def ev_Compare(self, e, fr):
        # ordering of two strings / two byte strings is exact here
        if len(e.ops) == 1 and isinstance(e.ops[0], (ast.Lt, ast.LtE, ast.Gt, ast.GtE)):
            l, r = self.ev(e.left, fr), self.ev(e.comparators[0], fr)
            for t in (str, bytes):
                if isinstance(l, t) and isinstance(r, t):
                    return {ast.Lt: l < r, ast.LtE: l <= r, ast.Gt: l > r, ast.GtE: l >= r}[type(e.ops[0])]
            if isinstance(l, (int, float)) and isinstance(r, (int, float)) and not isinstance(l, bool) and not isinstance(r, bool):
                return {ast.Lt: l < r, ast.LtE: l <= r, ast.Gt: l > r, ast.GtE: l >= r}[type(e.ops[0])]
            raise Unknown("ordering of %r and %r in `%s`" % (l, r, stmt_text(e, 60)))
        return Machine.ev_Compare(self, e, fr)

    # -- statements -----------------------------------------------------------------------------------------
    def assign(self, t, v, fr):
        if isinstance(t, (ast.Tuple, ast.List)) and sum(isinstance(x, ast.Starred) for x in t.elts) == 1:
            if isinstance(v, Obj) and v.token:
                raise Unknown("unpacking of %r, about which nothing is known," % v)
            seq = self.iterate(v)
            i = [isinstance(x, ast.Starred) for x in t.elts].index(True)
            after = len(t.elts) - i - 1
            if len(seq) < len(t.elts) - 1:
                raise Raised("ValueError", t)
            for x, y in zip(t.elts[:i], seq[:i]):
                self.assign(x, y, fr)
            self.assign(t.elts[i].value, new_list(seq[i:len(seq) - after]), fr)
            for x, y in zip(t.elts[i + 1:], seq[len(seq) - after:] if after else []):
                self.assign(x, y, fr)
            return
        Machine.assign(self, t, v, fr)

    def exc_class_of(self, e, fr):
        q = Machine.exc_class_of(self, e, fr)
        return _EXC_ALIASES.get(q, q)

    def exc_matches(self, raised, handler_qn):
        c = raised
        seen = 0
        while c is not None and seen < 16:
            if c == handler_qn:
                return True
            c = _BUILTIN_PARENTS.get(c)
            seen += 1
        return Machine.exc_matches(self, raised, handler_qn)


class _Text(str):
    """str() of a modelled object inside %-formatting (`%s` and `%r` both see the text; %d refuses it as Python does)"""


def _struct_method(op):
    def call(m, recv, args, kwargs, node):
        return m.wrap(m.struct_op(op, recv.data["struct"], args, dict(kwargs), node))
    return call


def _ext_struct(op):
    def call(m, args, kwargs, node):
        if not args:
            raise Unknown("struct.%s()" % op)
        fmt = args[0].decode("ascii", "replace") if isinstance(args[0], bytes) else args[0]
        return m.wrap(m.struct_op(op, fmt, args[1:], dict(kwargs), node))
    return call


def _ext_ip(which):
    return lambda m, args, kwargs, node: m.make_ip(which, args, dict(kwargs), node)


def _ext_net(which):
    return lambda m, args, kwargs, node: m.make_net(which, args, dict(kwargs), node)


def _ext_if_indextoname(m, args, kwargs, node):
    if kwargs or len(args) != 1:
        raise Unknown("socket.if_indextoname%r" % (tuple(args),))
    i = args[0]
    if isinstance(i, bool) or not isinstance(i, int):
        raise Raised("TypeError", node)
    if i in m.if_names:
        return m.if_names[i]
    raise Raised("OSError", node)


def _ext_if_nametoindex(m, args, kwargs, node):
    if kwargs or len(args) != 1 or not isinstance(args[0], str):
        raise Unknown("socket.if_nametoindex%r" % (tuple(args),))
    for i, n in m.if_names.items():
        if n == args[0]:
            return i
    raise Raised("OSError", node)


def _family(m, v, what):
    if isinstance(v, Sym) and str(v) in ("AF_INET", "AF_INET6"):
        return 4 if str(v) == "AF_INET" else 6
    raise Unknown("%s with the address family %r" % (what, v))


def _ext_inet_pton(m, args, kwargs, node):
    if kwargs or len(args) != 2:
        raise Unknown("socket.inet_pton%r" % (tuple(args),))
    fam = _family(m, args[0], "inet_pton")
    if not isinstance(args[1], str):
        raise Raised("TypeError", node)
    try:
        host = (_host_ip.IPv4Address if fam == 4 else _host_ip.IPv6Address)(args[1])
    except ValueError:
        raise Raised("OSError", node)
    if getattr(host, "scope_id", None):
        raise Raised("OSError", node)  # inet_pton does not take a zone
    return host.packed


def _ext_inet_ntop(m, args, kwargs, node):
    if kwargs or len(args) != 2:
        raise Unknown("socket.inet_ntop%r" % (tuple(args),))
    fam = _family(m, args[0], "inet_ntop")
    if not isinstance(args[1], bytes):
        raise Raised("TypeError", node)
    if len(args[1]) != (4 if fam == 4 else 16):
        raise Raised("ValueError", node)
    if fam == 4:
        return str(_host_ip.IPv4Address(args[1]))
    value = int.from_bytes(args[1], "big")
    if (value >> 32) == 0xFFFF:
        return "::ffff:" + str(_host_ip.IPv4Address(value & 0xFFFFFFFF))  # the C library prints mapped addresses dotted
    return _host_ip.IPv6Address(value).compressed


def _ext_struct_ctor(m, args, kwargs, node):
    if kwargs or len(args) != 1:
        raise Unknown("struct.Struct%r" % (tuple(args),))
    return m.make_struct(args[0])


def _ext_calcsize(m, args, kwargs, node):
    if kwargs or len(args) != 1 or not isinstance(args[0], str) or not _STRUCT_FMT.match(args[0]):
        raise Unknown("struct.calcsize%r" % (tuple(args),))
    return _host_struct.calcsize(args[0])


_ADDR_EXTERNALS = {
    "ipaddress.ip_address": _ext_ip("ip_address"), "ipaddress.IPv6Address": _ext_ip("IPv6Address"), "ipaddress.IPv4Address": _ext_ip("IPv4Address"),
    "ipaddress.ip_network": _ext_net("ip_network"), "ipaddress.IPv6Network": _ext_net("IPv6Network"), "ipaddress.IPv4Network": _ext_net("IPv4Network"),
    "socket.if_indextoname": _ext_if_indextoname, "socket.if_nametoindex": _ext_if_nametoindex,
    "socket.inet_pton": _ext_inet_pton, "socket.inet_ntop": _ext_inet_ntop,
    "struct.Struct": _ext_struct_ctor, "struct.unpack": _ext_struct("unpack"), "struct.unpack_from": _ext_struct("unpack_from"),
    "struct.pack": _ext_struct("pack"), "struct.calcsize": _ext_calcsize,
}


def _abi_str(m, args, kwargs, node):
    if kwargs or len(args) > 1:
        if len(args) in (2, 3) and isinstance(args[0], bytes) and all(isinstance(a, str) for a in args[1:]) and not kwargs:
            try:
                return str(*args)
            except (UnicodeError, LookupError):
                raise Raised("ValueError", node)
        raise Unknown("str%r" % (tuple(args),))
    return m.text_of(args[0]) if args else ""


def _abi_repr(m, args, kwargs, node):
    (v,) = args
    if isinstance(v, NATIVE):
        return repr(v)
    raise Unknown("repr(%r)" % (v,))


def _abi_int(m, args, kwargs, node):
    if kwargs or not 1 <= len(args) <= 2:
        raise Unknown("int%r" % (tuple(args),))
    v = args[0]
    if isinstance(v, Obj) and isinstance(v.data, dict) and "ip" in v.data and len(args) == 1:
        return v.data["ip"][1]
    if isinstance(v, (int, str, bytes)) and all(isinstance(a, int) and not isinstance(a, bool) for a in args[1:]):
        try:
            return int(*args)
        except (ValueError, TypeError) as x:
            raise Raised(type(x).__name__, node)
    raise Unknown("int%r" % (tuple(args),))


def _abi_bytes(m, args, kwargs, node):
    if kwargs or len(args) != 1:
        raise Unknown("bytes%r" % (tuple(args),))
    v = args[0]
    if isinstance(v, bytes):
        return v
    if isinstance(v, Obj) and isinstance(v.data, dict) and "ip" in v.data:
        return v.attrs["packed"]
    if isinstance(v, (tuple, Obj)):
        vals = m.native(v if isinstance(v, tuple) else v, "bytes()")
        try:
            return bytes(vals)
        except (ValueError, TypeError) as x:
            raise Raised(type(x).__name__, node)
    raise Unknown("bytes(%r)" % (v,))


def _abi_isinstance(m, args, kwargs, node):
    if kwargs or len(args) != 2:
        raise Unknown("isinstance%r" % (tuple(args),))
    v, classes = args
    names = []
    for c in (classes if isinstance(classes, tuple) else (classes,)):
        if isinstance(c, Obj) and c.kind == "builtin" and c.tag in ("str", "bytes", "int", "bool", "tuple", "list", "dict", "ipaddress.IPv6Address", "ipaddress.IPv4Address"):
            names.append(c.tag)
        else:
            raise Unknown("isinstance(.., %r)" % (c,))
    if isinstance(v, Obj) and v.token:
        raise Unknown("isinstance(%r, ..), about which nothing is known," % (v,))
    kind = None
    if isinstance(v, bool):
        kind = ("bool", "int")
    elif isinstance(v, NATIVE) and v is not None:
        kind = (type(v).__name__,)
    elif isinstance(v, tuple):
        kind = ("tuple",)
    elif isinstance(v, Obj) and v.kind in ("list", "dict"):
        kind = (v.kind,)
    elif isinstance(v, Obj) and isinstance(v.data, dict) and "ip" in v.data:
        kind = ("ipaddress.IPv%dAddress" % v.data["ip"][0],)
    elif v is None:
        kind = ()
    else:
        raise Unknown("isinstance(%r, ..)" % (v,))
    return any(k in names for k in kind)


_ADDR_BUILTINS = {"str": _abi_str, "repr": _abi_repr, "int": _abi_int, "bytes": _abi_bytes, "isinstance": _abi_isinstance}
