"""C08 Observe server: rising numbers, cancellation final, no leak."""

import ast

from ..rulekit import *
from ..cfg import CFG
from ..norm import Normalizer, Poly

R = Rules(
    "C08",
    explanation=(
        "Structural clauses of the server side of RFC 7641 decided on the syntax trees of interfaces.py, "
        "resource.py, protocol.py, tokenmanager.py, messagemanager.py and pipe.py: the Observe counter of "
        "ObservableResource._render_to_pipe (initial value on the first response, path-independent advance "
        "of at least one per notification, the value stored on the object that is sent), the cancellation "
        "callback on every exit after registration and at most once per path, the bookkeeping of "
        "resource.ObservableResource (object added = object removed, count update after both, no foreign "
        "writer), the termination condition of the notification loop as a boolean normal form, and the "
        "termination wiring: a new request on the same (token, remote) stops the old pipe, the stopper is "
        "handed to the message layer as message-error monitor and threaded unchanged down to "
        "_active_exchanges where a Reset fires it, dispatch_error and shutdown call the stored stoppers, "
        "loss of interest reaches task.cancel through error_to_message and run_driving_pipe, and "
        "ServerObservation.trigger / the loop form a lossy latest-value hand-over without an await between "
        "reading and re-arming.  Paper step: with these premises the Observe values of one registration are "
        "strictly increasing, every exit of the render task runs the callback once, and each listed "
        "termination cause cancels the task.  Eventual transmission under every schedule is not decided."
    ),
    rule_text="dominance / must-pass rules on per-function CFGs, reaching definitions of locals, polynomial and boolean normal forms, field-writer enumeration, class resolution through imports",
)

OBS = "interfaces.ObservableResource._render_to_pipe"
TM = "tokenmanager.TokenManager."
MM = "messagemanager.MessageManager."


# ---------------------------------------------------------------------------
# local helpers (kept in this module on purpose: rule modules are independent)


def _rn(cfg, astnode):
    """reachable CFG nodes of the statement containing astnode"""
    return [i for i in cfg.locate(astnode) if cfg.is_reachable(i)]


def _n1(ctx, cfg, astnode, what):
    ids = _rn(cfg, astnode)
    ctx.need(bool(ids), "%s is not reachable in the CFG" % what)
    return ids[0]


def _kw(call, name, pos=None):
    for k in call.keywords:
        if k.arg == name:
            return k.value
    if pos is not None and len(call.args) > pos and not any(isinstance(a, ast.Starred) for a in call.args):
        return call.args[pos]
    return None


def _enclosing_loop(cfg, node):
    p = cfg.parent.get(id(node))
    child = node
    while p is not None and not isinstance(p, (ast.FunctionDef, ast.AsyncFunctionDef, ast.Lambda)):
        if isinstance(p, (ast.While, ast.For, ast.AsyncFor)) and any(child is s for s in p.body):
            return p
        child = p
        p = cfg.parent.get(id(p))
    return None


def _inside(root, node):
    return any(n is node for n in ast.walk(root))


def _path_in_target(t, name):
    if isinstance(t, ast.Name):
        return () if t.id == name else None
    if isinstance(t, (ast.Tuple, ast.List)):
        for i, e in enumerate(t.elts):
            if isinstance(e, ast.Starred):
                continue
            p = _path_in_target(e, name)
            if p is not None:
                return (i,) + p
    return None


def _bound(w, name):
    """(value expression, index path) a write statement binds to `name`."""
    if isinstance(w, ast.Assign):
        for t in w.targets:
            p = _path_in_target(t, name)
            if p is not None:
                return w.value, p
    if isinstance(w, ast.AnnAssign) and isinstance(w.target, ast.Name) and w.target.id == name:
        return w.value, ()
    return None, None


def _write_nodes(cfg, fnode, name):
    out = []
    for w in writes_to_name(fnode, name):
        for nid in cfg.locate(w):
            if cfg.is_reachable(nid):
                out.append((nid, w))
    return out


def _reaching(cfg, fnode, name, at):
    """(writes that can be the latest binding of `name` on arrival at node
    `at`, whether the binding at function entry can still be live there)."""
    ws = _write_nodes(cfg, fnode, name)
    ids = {nid for nid, _ in ws}
    out = []
    for nid, w in ws:
        if at in cfg.reach({nid}, avoid=ids - {nid, at}):
            out.append((nid, w))
    entry_live = at in cfg.reach({cfg.entry}, avoid=ids - {at}, include_src=True)
    return out, entry_live


def _value_at(cfg, fnode, e, at, depth=4):
    """Follow a local name to (value expression, index path) of its unique
    reaching binding: the name denotes value[path...]; literal tuples on the
    right-hand side of a parallel assignment are indexed away."""
    while depth and isinstance(e, ast.Name):
        ws, entry_live = _reaching(cfg, fnode, e.id, at)
        if len(ws) != 1 or entry_live:
            break
        v, p = _bound(ws[0][1], e.id)
        if v is None:
            break
        while p and isinstance(v, (ast.Tuple, ast.List)) and len(v.elts) > p[0] and not any(isinstance(x, ast.Starred) for x in v.elts):
            v, p = v.elts[p[0]], p[1:]
        at = ws[0][0]
        depth -= 1
        if p:
            v2, p2 = _value_at(cfg, fnode, v, at, depth)
            return v2, p2 + p
        e = v
    return e, ()

def _assigned_to(n, pred):
    """values a statement assigns to the targets satisfying pred (parallel
    assignment aware); None for a value the rule cannot pair up"""
    out = []
    if isinstance(n, ast.Assign):
        for t in n.targets:
            if pred(t):
                out.append(n.value)
            elif isinstance(t, (ast.Tuple, ast.List)):
                for i, el in enumerate(t.elts):
                    if pred(el):
                        if isinstance(n.value, (ast.Tuple, ast.List)) and len(n.value.elts) == len(t.elts):
                            out.append(n.value.elts[i])
                        else:
                            out.append(None)
    elif isinstance(n, ast.AnnAssign) and pred(n.target):
        out.append(n.value)
    elif isinstance(n, ast.AugAssign) and pred(n.target):
        out.append(None)
    return out


def _strip_not(e, truth=True):
    while isinstance(e, ast.UnaryOp) and isinstance(e.op, ast.Not):
        e = e.operand
        truth = not truth
    return e, truth


def _truth_nodes(cfg, L, truth):
    """branch pseudo-nodes on which expression L is known to be `truth`."""
    L, truth = _strip_not(L, truth)
    out = set()
    for n in cfg.nodes:
        if n.kind in ("T", "F") and cfg.is_reachable(n.id) and n.ast is not None and same(n.ast, L):
            if (n.kind == "T") == truth:
                out.add(n.id)
    return out


def _closure_ref(fnode, used, outer):
    """Does Name `used` inside nested fnode denote the enclosing `outer`
    (default-argument capture `x=outer`, or a free variable)?"""
    a = fnode.args
    allargs = a.posonlyargs + a.args
    defaults = [None] * (len(allargs) - len(a.defaults)) + list(a.defaults)
    for arg, d in list(zip(allargs, defaults)) + list(zip(a.kwonlyargs, a.kw_defaults)):
        if arg.arg == used:
            return isinstance(d, ast.Name) and d.id == outer
    if isinstance(fnode, ast.Lambda):
        return used == outer
    return used == outer and not writes_to_name(fnode, used)


def _nested_callable(fnode, e):
    """nested def (by name) or lambda an expression denotes inside fnode"""
    if isinstance(e, ast.Lambda):
        return e
    if isinstance(e, ast.Name):
        defs = [n for n in walk_no_nested(fnode) if isinstance(n, (ast.FunctionDef, ast.AsyncFunctionDef)) and n.name == e.id and n is not fnode]
        if len(defs) == 1 and not [w for w in writes_to_name(fnode, e.id)]:
            return defs[0]
    return None


def _cls_of(ctx, fi, e):
    c = chain(e)
    return ctx.prog.resolve_in_module(fi.module, c) if c else None


class _Add:
    def __init__(self, cfg, call, nid):
        self.call = call
        self.nid = nid
        self.resp = _kw(call, "response", 0)
        self.last = _kw(call, "is_last", 1)
        if self.last is None:
            self.kind = "nonfinal"
        elif isinstance(self.last, ast.Constant):
            self.kind = "final" if self.last.value else "nonfinal"
        else:
            self.kind = "var"
        self.loop = _enclosing_loop(cfg, call)


class _Obs:
    pass


def _obs_parts(ctx):
    P = _Obs()
    fi = P.fi = ctx.prog.func(OBS)
    p = params(fi)
    ctx.need(len(p) == 1, "%s signature changed" % OBS)
    P.pipe = p[0]
    ctx.need(not writes_to_name(fi.node, P.pipe), "the pipe parameter is rebound")
    cfg = P.cfg = cfg_of(fi)
    cands = []
    for n in walk_no_nested(fi.node):
        if isinstance(n, ast.Assign) and len(n.targets) == 1 and isinstance(n.targets[0], ast.Name) and isinstance(n.value, ast.Call):
            if _cls_of(ctx, fi, n.value.func) == "aiocoap.protocol.ServerObservation":
                cands.append(n)
    ctx.need(len(cands) == 1, "expected exactly one ServerObservation() local, found %d" % len(cands))
    P.so = cands[0].targets[0].id
    ctx.need(len(writes_to_name(fi.node, P.so)) == 1, "the ServerObservation local is rebound")
    regs = [c for c, b in find("self.add_observation($*a)", fi.node) if any(isinstance(x, ast.Name) and x.id == P.so for x in b["a"])]
    ctx.need(len(regs) == 1, "expected one add_observation(..., %s) call, found %d" % (P.so, len(regs)))
    P.reg = regs[0]
    P.O = _n1(ctx, cfg, P.reg, "add_observation call")
    P.after_reg = [d for d, lab in cfg.succ[P.O] if lab != "exc"]
    P.adds = []
    for c, _ in find("%s.add_response($*a, $**k)" % P.pipe, fi.node):
        for nid in _rn(cfg, c):
            if cfg.dominates(P.O, nid):
                P.adds.append(_Add(cfg, c, nid))
    ctx.floor("add_response sites after registration", len(P.adds), 3)
    P.loops = []
    for A in P.adds:
        if A.loop is not None and not any(A.loop is l for l in P.loops):
            P.loops.append(A.loop)
    ctx.need(len(P.loops) == 1, "expected one notification loop, found %d" % len(P.loops))
    P.loop = P.loops[0]
    P.head = _n1(ctx, cfg, P.loop, "notification loop")
    return P


def _in_iter(P, src):
    """nodes reachable from src inside the same loop iteration"""
    return P.cfg.reach({src}, avoid={P.head})


def _witness(cfg, starts, through, to, skip=()):
    """a statement from which `to` is entered without passing `through`"""
    r = cfg.reach(set(starts), avoid=set(through), skip_labels=skip, include_src=True)
    for n in sorted(r):
        if any(d == to and lab not in skip for d, lab in cfg.succ[n]) and cfg.nodes[n].ast is not None:
            return cfg.nodes[n].ast
    return None


# ---------------------------------------------------------------------------
# C08.a


def _observe_stores(P):
    out = []
    for n in walk_no_nested(P.fi.node):
        if isinstance(n, (ast.Assign, ast.AugAssign, ast.AnnAssign)):
            tgts = n.targets if isinstance(n, ast.Assign) else [n.target]
            for t in tgts:
                if isinstance(t, ast.Attribute) and t.attr == "observe" and isinstance(t.value, ast.Attribute) and t.value.attr == "opt":
                    out.append((n, t))
    return out


def _effect(w, name):
    """polynomial of the new value of `name` over its old value, or None"""
    N = Normalizer()
    try:
        if isinstance(w, ast.AugAssign) and isinstance(w.target, ast.Name) and w.target.id == name:
            return N.poly(ast.BinOp(left=ast.Name(id=name, ctx=ast.Load()), op=w.op, right=w.value))
        v, p = _bound(w, name)
        if v is not None and p == ():
            return N.poly(v)
    except norm.NormError:
        return None
    return None


@R.clause("C08.a", "Observe counter: first value = initial counter value, every later notification stores a value at least one above the previous one, path-independent advance, no other store to the counter")
def a(ctx):
    P = _obs_parts(ctx)
    fi, cfg = P.fi, P.cfg
    nonfinal = [A for A in P.adds if A.kind != "final"]
    first = [A for A in nonfinal if A.loop is None]
    inloop = [A for A in nonfinal if A.loop is not None]
    ctx.floor("initial responses that keep the observation open", len(first), 1)
    ctx.floor("notification sites in the loop", len(inloop), 1)
    stores = _observe_stores(P)
    for n, t in stores:
        ctx.need(isinstance(n, ast.Assign) and isinstance(t.value.value, ast.Name), "Observe option store outside the rule's vocabulary: %s" % stmt_text(n))
    fstores = [(n, t) for n, t in stores if _enclosing_loop(cfg, n) is None]
    lstores = [(n, t) for n, t in stores if _enclosing_loop(cfg, n) is P.loop]
    if not ctx.ob("the notification loop stores an Observe value", len(lstores) >= 1, fi, inloop[0].call):
        return
    ctx.ob("exactly one Observe store in the notification loop", len(lstores) == 1, fi, lstores[-1][0], detail="%d stores" % len(lstores))
    S, St = lstores[0]
    s = _n1(ctx, cfg, S, "Observe store")
    # the counter: the only re-assigned local the stored value depends on
    cnames = [nm for nm in sorted(names_in(S.value)) if writes_to_name(fi.node, nm)]
    ctx.need(len(cnames) == 1, "cannot identify the Observe counter in %s" % stmt_text(S))
    c = cnames[0]
    ws = _write_nodes(cfg, fi.node, c)
    init = [(nid, w) for nid, w in ws if _enclosing_loop(cfg, w) is None]
    inl = [(nid, w) for nid, w in ws if _enclosing_loop(cfg, w) is P.loop]
    other = [(nid, w) for nid, w in ws if (nid, w) not in init and (nid, w) not in inl]
    ok_init = len(init) == 1 and cfg.dominates(init[0][0], P.head)
    ctx.ob("the counter is initialised exactly once, before the loop", ok_init and not other, fi, (init[-1][1] if init else S), detail="%d initialisations, %d foreign stores" % (len(init), len(other)))
    if not ok_init:
        return
    ip = _effect(init[0][1], c)
    iv = ip.const_value() if ip is not None else None
    ctx.ob("the initial counter value is a constant in [0, 2**23)", iv is not None and iv.denominator == 1 and 0 <= iv < 2 ** 23, fi, init[0][1], detail="initial value %r" % (ip,))
    if iv is None:
        return
    # first response(s)
    for A in first:
        ctx.need(isinstance(A.resp, ast.Name), "first response argument is not a local")
        r = A.resp.id
        dom = [(n, t) for n, t in fstores if t.value.value.id == r and any(cfg.dominates(x, A.nid) for x in _rn(cfg, n))]
        if not ctx.ob("the initial response of an accepted observation carries an Observe value", len(dom) >= 1, fi, A.call):
            continue
        n, t = dom[-1]
        nn = _n1(ctx, cfg, n, "first Observe store")
        rebinding = [w for x, w in _write_nodes(cfg, fi.node, r) if x in cfg.reach({nn}) and A.nid in cfg.reach({x})]
        ctx.ob("the object carrying the first Observe value is the one sent", not rebinding, fi, A.call)
        try:
            fv = Normalizer(penv={c: ip}).poly(n.value).const_value()
        except norm.NormError:
            fv = None
        P.first_value = fv
        ctx.ob("the first Observe value equals the counter's initial value", fv is not None and fv == iv, fi, n, detail="first value %r, counter starts at %r" % (fv, iv))
    # in-loop advance: writes before the store (dominating it) and after it (on every path to the next iteration)
    pre, post, loose = [], [], []
    for nid, w in inl:
        if nid in cfg.reach({nid}, avoid={P.head}):
            loose.append(w)  # inner loop
        elif cfg.dominates(nid, s):
            pre.append((nid, w))
        elif cfg.dominates(s, nid) and cfg.must_pass(s, {nid}, to=P.head):
            post.append((nid, w))
        else:
            loose.append(w)
    ctx.ob("the counter advances path-independently (every in-loop store to it lies on all notification paths)", not loose, fi, loose[0] if loose else S)
    if loose:
        return
    def total(seq):
        d = Poly.const(0)
        for nid, w in seq:
            e = _effect(w, c)
            ctx.need(e is not None and (e - Poly.atom(c)).const_value() is not None, "counter update outside the rule's vocabulary: %s" % stmt_text(w))
            d = d + (e - Poly.atom(c))
        return d.const_value()
    dpre, dpost = total(pre), total(post)
    try:
        stored = Normalizer(penv={c: Poly.atom(c) + Poly.const(dpre)}).poly(S.value) - Poly.atom(c)
    except norm.NormError:
        stored = None
    ctx.need(stored is not None and stored.const_value() is not None, "stored Observe value is not counter + constant: %s" % stmt_text(S))
    p = stored.const_value()
    e = dpre + dpost
    ctx.ob("each notification's Observe value exceeds the previous notification's (advance per iteration >= 1)", e >= 1, fi, (pre + post)[0][1] if (pre + post) else S, detail="advance per notification: %s" % e)
    fv0 = getattr(P, "first_value", None)
    fv0 = iv if fv0 is None else fv0
    ctx.ob("the first notification's Observe value exceeds the one on the initial response", iv + p >= fv0 + 1, fi, S, detail="first notification carries %s, initial response %s" % (iv + p, fv0))
    # the store is on every non-final path to the notification, on the object that is sent
    for A in inloop:
        ctx.need(isinstance(A.resp, ast.Name), "notification argument is not a local")
        ctx.ob("the Observe value is stored on the object that is sent", A.resp.id == St.value.value.id, fi, A.call)
        rebinding = [w for x, w in _write_nodes(cfg, fi.node, A.resp.id) if x in _in_iter(P, s) and A.nid in _in_iter(P, x)]
        ctx.ob("the notification object is not replaced between the Observe store and the transmission", not rebinding, fi, A.call)
        if A.kind == "nonfinal":
            ok = cfg.dominates(s, A.nid)
        else:
            final_side = _truth_nodes(cfg, A.last, True)
            ctx.need(_stable_flag(P, A, final_side), "the is_last flag of %s is re-assigned between its tests and its use" % stmt_text(A.call))
            ok = A.nid not in cfg.reach({P.head}, avoid={s} | final_side)
        ctx.ob("every non-final notification is preceded, in its iteration, by the counter advance and the Observe store", ok, fi, A.call)


def _stable_flag(P, A, nodes):
    """the tests in `nodes` and the use at A see the same binding of the flag"""
    if not isinstance(_strip_not(A.last)[0], ast.Name):
        return False
    name = _strip_not(A.last)[0].id
    ref, live = _reaching(P.cfg, P.fi.node, name, A.nid)
    if len(ref) != 1 or live:
        return False
    for t in nodes:
        r2, l2 = _reaching(P.cfg, P.fi.node, name, t)
        if l2 or [x for x, _ in r2] != [ref[0][0]]:
            return False
    return True


# ---------------------------------------------------------------------------
# C08.b


@R.clause("C08.b", "the cancellation callback runs on every exit after registration (return, exception, task cancellation) and at most once per path, never without registration")
def b(ctx):
    P = _obs_parts(ctx)
    fi, cfg = P.fi, P.cfg
    calls = [c for c, _ in find("%s._cancellation_callback()" % P.so, fi.node)]
    ctx.floor("cancellation callback call sites", len(calls), 1)
    Cn = set()
    for c in calls:
        Cn |= set(_rn(cfg, c))
    ctx.need(bool(Cn), "cancellation callback unreachable")
    # a path on which the observation is known to be declined needs (and has) no callback
    declined = _truth_nodes(cfg, ast.parse("%s._accepted" % P.so, mode="eval").body, False)
    w = _witness(cfg, P.after_reg, Cn | declined, cfg.exit)
    ctx.ob("every return after the registration passes the cancellation callback", w is None, fi, w if w is not None else calls[0],
           detail=None if w is None else "normal exit reached without the callback")
    w = _witness(cfg, P.after_reg, Cn | declined, cfg.rexit)
    ctx.ob("every exception after the registration (including cancellation at an await) passes the cancellation callback", w is None, fi, w if w is not None else calls[0],
           detail=None if w is None else "exception exit reached without the callback")
    for c in calls:
        ids = _rn(cfg, c)
        ctx.ob("the cancellation callback runs at most once on any path", not any(cfg.reach({i}) & Cn for i in ids), fi, c)
        ctx.ob("the cancellation callback is only reachable after the observation was offered to the resource", all(cfg.dominates(P.O, i) for i in ids), fi, c)
    # accept() is what binds the callback
    af = ctx.prog.func("protocol.ServerObservation.accept")
    ap = params(af)
    ctx.need(len(ap) == 1, "ServerObservation.accept signature changed")
    st = [n for k, n in stores_to(af.node, "self._cancellation_callback") if k == "assign"]
    ctx.floor("stores of _cancellation_callback in accept", len(st), 1)
    for n in st:
        ctx.ob("accept() installs the callback it was given", isinstance(n, ast.Assign) and isinstance(n.value, ast.Name) and n.value.id == ap[0] and not writes_to_name(af.node, ap[0]), af, n)
    acc = [n for k, n in stores_to(af.node, "self._accepted") if k == "assign"]
    ctx.ob("accept() marks the observation accepted", any(isinstance(n, ast.Assign) and isinstance(n.value, ast.Constant) and n.value.value is True for n in acc), af, af.node, construct="ServerObservation.accept")
    writers = {}
    for f2 in ctx.prog.funcs.values():
        if f2.module is af.module or f2.module is fi.module:
            for k, n in stores_to_any(f2.node, "_cancellation_callback"):
                writers.setdefault(f2.short, []).append(n)
    foreign = [(f, n) for f, ns in writers.items() for n in ns if f not in (af.short, "protocol.ServerObservation.__init__")]
    ctx.ob("accept() is the only writer of _cancellation_callback (besides a default in the constructor)", not foreign, ctx.prog.func(foreign[0][0]) if foreign else af, foreign[0][1] if foreign else af.node,
           construct=None if foreign else "ServerObservation.accept")


# ---------------------------------------------------------------------------
# C08.c


def _fi_of_node(prog, node):
    for f in prog.funcs.values():
        if f.node is node:
            return f
    return None


@R.clause("C08.c", "resource.ObservableResource: the object added to _observations is the one the accept() callback removes; both paths report len(_observations) afterwards; no foreign writer; updated_state triggers every member")
def c(ctx):
    prog = ctx.prog
    fi = prog.func("resource.ObservableResource.add_observation")
    p = params(fi)
    ctx.need(len(p) == 2, "add_observation signature changed")
    so = p[1]
    ctx.need(not writes_to_name(fi.node, so), "the serverobservation parameter is rebound")
    cfg = cfg_of(fi)
    adds = [n for k, n in stores_to(fi.node, "self._observations", nested=False) if k == "add"]
    ctx.floor("insertions into _observations", len(adds), 1)
    ctx.ob("exactly one insertion into _observations per registration", len(adds) == 1, fi, adds[-1], detail="%d insertions" % len(adds))
    for ad in adds:
        ctx.ob("the inserted object is the ServerObservation handed in", len(ad.args) == 1 and isinstance(ad.args[0], ast.Name) and ad.args[0].id == so, fi, ad)
    accepts = [(c, b) for c, b in find("%s.accept($cb)" % so, fi.node)]
    ctx.floor("accept() calls", len(accepts), 1)
    an = set()
    for c_, _ in accepts:
        an |= set(_rn(cfg, c_))
    ctx.ob("every registration that was inserted is accepted with a cancellation callback", cfg.must_pass(cfg.entry, an), fi, accepts[0][0])
    COUNT = "self.update_observation_count(len(self._observations))"
    upd = [c_ for c_, _ in find(COUNT, fi.node)]
    un = set()
    for c_ in upd:
        un |= set(_rn(cfg, c_))
    for ad in adds:
        a_id = _n1(ctx, cfg, ad, "insertion")
        ctx.ob("after the insertion every normal path reports len(_observations) to update_observation_count", bool(un) and all(cfg.must_pass(d, un) for d, lab in cfg.succ[a_id] if lab != "exc"), fi, ad)
    for call, b in accepts:
        cb = _nested_callable(fi.node, b["cb"])
        ctx.need(cb is not None, "accept() callback is not a nested def or lambda: %s" % stmt_text(call))
        rem = [(k, n) for k, n in stores_to(cb, "self._observations", nested=False) if k in ("remove", "discard")]
        if not ctx.ob("the cancellation callback removes an entry from _observations", len(rem) == 1, fi, cb, construct="callback of " + stmt_text(call), detail="%d removals" % len(rem)):
            continue
        rn = rem[0][1]
        arg = rn.args[0] if len(rn.args) == 1 else None
        ctx.ob("the callback removes the object that was inserted", isinstance(arg, ast.Name) and _closure_ref(cb, arg.id, so), fi, rn)
        ctx.ob("the callback acts on the same resource instance", _closure_ref(cb, "self", "self"), fi, rn)
        ccfg = CFG(cb)
        r_id = [i for i in ccfg.locate(rn) if ccfg.is_reachable(i)]
        ctx.need(bool(r_id), "removal unreachable in callback")
        cu = set()
        for c_, _ in find(COUNT, cb):
            cu |= {i for i in ccfg.locate(c_) if ccfg.is_reachable(i)}
        ctx.ob("after the removal every normal path reports len(_observations) to update_observation_count",
               bool(cu) and all(ccfg.must_pass(d, cu) for d, lab in ccfg.succ[r_id[0]] if lab != "exc"), fi, rn)
        ctx.ob("the removal is on every path of the callback", ccfg.must_pass(ccfg.entry, set(r_id)), fi, rn)
    # writers of the field inside the class
    ci = prog.cls("resource.ObservableResource")
    allowed = {id(n) for n in adds}
    for call, b in accepts:
        cb = _nested_callable(fi.node, b["cb"])
        if cb is not None:
            allowed |= {id(n) for k, n in stores_to(cb, "self._observations", nested=False) if k in ("remove", "discard")}
    nw = 0
    for f2 in prog.funcs.values():
        if not f2.qn.startswith(ci.qn + "."):
            continue
        for k, n in stores_to(f2.node, "self._observations", nested=False):
            nw += 1
            if f2.name == "__init__" and k == "assign":
                ctx.ob("_observations starts as an empty set", isinstance(n, ast.Assign) and match("set()", n.value) is not None, f2, n)
            elif id(n) not in allowed:
                ctx.ob("no store to _observations outside insertion and callback removal", False, f2, n)
    ctx.floor("stores to _observations in resource.ObservableResource", nw, 3)
    # updated_state
    uf = prog.func("resource.ObservableResource.updated_state")
    up = params(uf)
    ctx.need(len(up) == 1, "updated_state signature changed")
    loops = [n for n in walk_no_nested(uf.node) if isinstance(n, ast.For) and _field_iter(n.iter, "self._observations") is not None]
    ctx.floor("loops over _observations in updated_state", len(loops), 1)
    ucfg = cfg_of(uf)
    for lp in loops:
        ctx.need(isinstance(lp.target, ast.Name), "loop target not a name")
        trig = [c_ for c_, b in find("%s.trigger($*a, $**k)" % lp.target.id, lp)]
        ok = bool(trig)
        for t in trig:
            arg = _kw(t, "response", 0)
            ok = ok and isinstance(arg, ast.Name) and arg.id == up[0] and not writes_to_name(uf.node, up[0])
            tn = _n1(ctx, ucfg, t, "trigger call")
            inner = [e for e, pol, nid in ucfg.guards(tn) if e is not lp and _inside(lp, e)]
            ok = ok and not inner
        ctx.ob("updated_state triggers every registered observation with the given response, unconditionally", ok, uf, lp, construct="for ... in self._observations: trigger")
        ctx.ob("updated_state reaches the loop on every path", ucfg.must_pass(ucfg.entry, set(_rn(ucfg, lp))), uf, lp, construct="for ... in self._observations")


def _field_iter(e, field):
    """('items'|'values'|'keys'|'self', copied?) when e iterates the field"""
    copied = False
    while isinstance(e, ast.Call) and chain(e.func) in ("list", "tuple", "set", "dict", "sorted") and len(e.args) == 1:
        e = e.args[0]
        copied = True
    if isinstance(e, ast.Call) and isinstance(e.func, ast.Attribute) and e.func.attr == "copy" and not e.args:
        e = e.func.value
        copied = True
    if chain(e) == field:
        return ("self", copied)
    if isinstance(e, ast.Call) and isinstance(e.func, ast.Attribute) and e.func.attr in ("items", "values", "keys") and not e.args:
        base = e.func.value
        if isinstance(base, ast.Call) and isinstance(base.func, ast.Attribute) and base.func.attr == "copy":
            base = base.func.value
            copied = True
        if chain(base) == field:
            return (e.func.attr, copied)
    return None


# ---------------------------------------------------------------------------
# C08.d


@R.clause("C08.d", "the observation is kept open only if accepted, not deregistered and successful; in the loop is_last <=> _late_deregister or not code.is_successful(); nothing is sent after a final response and every return is preceded by one")
def d(ctx):
    P = _obs_parts(ctx)
    fi, cfg = P.fi, P.cfg
    first = [A for A in P.adds if A.kind != "final" and A.loop is None]
    inloop = [A for A in P.adds if A.loop is not None]
    ctx.floor("initial responses that keep the observation open", len(first), 1)
    ctx.floor("notification sites in the loop", len(inloop), 1)
    for A in first:
        ctx.need(A.kind == "nonfinal" and isinstance(A.resp, ast.Name) and len(writes_to_name(fi.node, A.resp.id)) == 1, "initial response outside the rule's vocabulary")
        r = A.resp.id
        ctx.ob("the observation is kept open only if the resource accepted it", guarded_by(cfg, A.nid, "%s._accepted" % P.so, True), fi, A.call)
        ctx.ob("the observation is kept open only if it was not deregistered during the first rendering", guarded_by(cfg, A.nid, "%s._early_deregister" % P.so, False), fi, A.call)
        ctx.ob("the observation is kept open only if the first response is successful", guarded_by(cfg, A.nid, "%s.code.is_successful()" % r, True), fi, A.call)
        ctx.ob("notifications start only after the initial response", cfg.dominates(A.nid, P.head), fi, A.call)
    addn = {A.nid for A in P.adds}
    if len(inloop) == 1 and inloop[0].kind != "var":
        ctx.ob("the in-loop notification's is_last flag is the computed termination condition", False, fi, inloop[0].call, detail="constant is_last inside the loop")
        return
    ctx.need(all(A.kind == "var" for A in inloop), "several in-loop add_response sites with constant is_last: shape outside the rule's vocabulary")
    for A in inloop:
        ctx.need(isinstance(A.resp, ast.Name), "notification argument is not a local")
        r = A.resp.id
        fin = _truth_nodes(cfg, A.last, True)
        cont = _truth_nodes(cfg, A.last, False)
        ctx.need(_stable_flag(P, A, fin | cont), "the is_last flag of %s is not a single-binding local" % stmt_text(A.call))
        N = Normalizer(env=norm.local_env(fi.node))
        try:
            got = N.dnf(A.last)
            want = Normalizer().dnf(ast.parse("%s._late_deregister or not %s.code.is_successful()" % (P.so, r), mode="eval").body)
        except norm.NormError as e:
            ctx.need(False, "termination condition cannot be normalised: %s" % e)
        ctx.ob("is_last <=> _late_deregister or not response.code.is_successful()", got == want, fi, A.call,
               detail="normal form %s" % sorted(sorted(map(repr, cj)) for cj in got), construct="is_last of " + stmt_text(A.call))
        # the response tested is the one sent: no rebinding of r between the flag's write and the send
        fw, _ = _reaching(cfg, fi.node, _strip_not(A.last)[0].id, A.nid)
        reb = [w for x, w in _write_nodes(cfg, fi.node, r) if x in _in_iter(P, fw[0][0]) and A.nid in _in_iter(P, x)]
        ctx.ob("the response whose code decides is_last is the response that is sent", not reb, fi, A.call)
        after = cfg.reach({A.nid}, avoid=cont, skip_labels=("exc",))
        ctx.ob("after a final notification the loop is not re-entered", P.head not in after, fi, A.call)
        ctx.ob("after a final notification no further response is added", not (after & addn), fi, A.call)
        ctx.ob("a non-final notification keeps the loop running (no return while is_last is false)", cfg.exit not in cfg.reach({A.nid}, avoid=fin, skip_labels=("exc",)), fi, A.call)
    for A in P.adds:
        if A.kind == "final":
            ctx.ob("after a final response no further response is added", not (cfg.reach({A.nid}, skip_labels=("exc",)) & addn), fi, A.call)
    closing = {A.nid for A in P.adds if A.kind in ("final", "var")}
    w = _witness(cfg, P.after_reg, closing, cfg.exit, skip=("exc",))
    ctx.ob("every return after registration is preceded by a response that can be final", w is None, fi, w if w is not None else P.reg)


# ---------------------------------------------------------------------------
# C08.e  termination wiring


def _is_req_key(cfg, fnode, e, at, req):
    v, p = _value_at(cfg, fnode, e, at)
    b = match("($a, $b)", v) if not p else None
    return b is not None and chain(b["a"]) == req + ".token" and chain(b["b"]) == req + ".remote"


def _entry_reads(fi, field, cfg, key_ok):
    """assignments that read an entry of self.<field> under the request key:
    [(stmt, value call/subscript)]"""
    out = []
    for n in walk_no_nested(fi.node):
        if isinstance(n, ast.Assign):
            v = n.value
            b = match("%s.pop($k, $*d)" % field, v) or match("%s[$k]" % field, v) or match("%s.get($k, $*d)" % field, v)
            if b is not None and key_ok(b["k"], n):
                out.append(n)
    return out


def _e_process_request(ctx):
    prog = ctx.prog
    fi = prog.func(TM + "process_request")
    p = params(fi)
    ctx.need(len(p) == 1 and not writes_to_name(fi.node, p[0]), "process_request signature changed or request rebound")
    req = p[0]
    cfg = cfg_of(fi)
    F = "self.incoming_requests"
    sts = [n for k, n in stores_to(fi.node, F, nested=False) if k == "setitem"]
    ctx.floor("insertions into incoming_requests", len(sts), 1)
    ctx.need(len(sts) == 1 and isinstance(sts[0], ast.Assign) and isinstance(sts[0].targets[0], ast.Subscript), "insertion into incoming_requests outside the rule's vocabulary")
    ST = sts[0]
    st = _n1(ctx, cfg, ST, "insertion")
    ctx.ob("the request is registered under (token, remote)", _is_req_key(cfg, fi.node, ST.targets[0].slice, st, req), fi, ST)
    val = ST.value
    ctx.need(isinstance(val, ast.Tuple) and len(val.elts) == 2, "stored entry is not a pair")
    pv, pp = _value_at(cfg, fi.node, val.elts[0], st)
    ok_pipe = not pp and isinstance(pv, ast.Call) and _cls_of(ctx, fi, pv.func) == "aiocoap.pipe.Pipe" and pv.args and isinstance(pv.args[0], ast.Name) and pv.args[0].id == req
    ctx.ob("the stored pipe is a fresh Pipe around this request", ok_pipe, fi, ST)
    sv, sp = _value_at(cfg, fi.node, val.elts[1], st)
    b = match("$p.on_event($h)", sv) if not sp else None
    handler = _nested_callable(fi.node, b["h"]) if b is not None else None
    same_pipe = False
    if b is not None and isinstance(b["p"], ast.Name) and isinstance(val.elts[0], ast.Name) and b["p"].id == val.elts[0].id:
        r1, _ = _reaching(cfg, fi.node, b["p"].id, _n1(ctx, cfg, sv, "on_event registration"))
        r2, _ = _reaching(cfg, fi.node, b["p"].id, st)
        same_pipe = [x for x, _ in r1] == [x for x, _ in r2] and len(r1) == 1
    ctx.ob("the stored stopper unregisters the event handler of the stored pipe", handler is not None and same_pipe, fi, ST, detail="stopper = %s" % stmt_text(sv))
    # override of an existing request on the same key
    present = set()
    tests = set()
    for n in cfg.nodes:
        if n.kind in ("T", "F") and cfg.is_reachable(n.id) and isinstance(n.ast, ast.Compare) and len(n.ast.ops) == 1 \
                and isinstance(n.ast.ops[0], (ast.In, ast.NotIn)) and chain(n.ast.comparators[0]) == F and _is_req_key(cfg, fi.node, n.ast.left, n.id, req):
            tests.add(n.id)
            if (n.kind == "T") == isinstance(n.ast.ops[0], ast.In):
                present.add(n.id)
    reads = _entry_reads(fi, F, cfg, lambda k, n: _is_req_key(cfg, fi.node, k, _n1(ctx, cfg, n, "entry read"), req))
    stops = set()
    for call in calls_in(fi.node):
        cn = _rn(cfg, call)
        if not cn or call.args or call.keywords:
            continue
        f = call.func
        if isinstance(f, ast.Name):
            ws, live = _reaching(cfg, fi.node, f.id, cn[0])
            if len(ws) == 1 and not live and ws[0][1] in reads and _bound(ws[0][1], f.id)[1] == (1,):
                stops.add(cn[0])
        elif isinstance(f, ast.Subscript) and isinstance(f.slice, ast.Constant) and f.slice.value == 1:
            base, bp = _value_at(cfg, fi.node, f.value, cn[0])
            if any(base is r.value for r in reads) or (match("%s[$k]" % F, base) and _is_req_key(cfg, fi.node, base.slice, cn[0], req)):
                stops.add(cn[0])
    anchor = reads[0] if reads else ST
    ctx.ob("an existing request on the same (token, remote) is detected before the new one is stored", bool(present) and all(cfg.must_pass(cfg.entry, tests, to=st) for _ in (0,)), fi, anchor if present else ST)
    ctx.ob("the stopper of the overridden request is called before the new pipe is stored", bool(stops) and all(cfg.must_pass(t, stops, to=st) for t in present), fi, anchor,
           detail="%d stopper call(s) on the override path" % len(stops))
    # rendering starts only after the bookkeeping is complete
    rend = [c for c, bb in find("self.context.render_to_pipe($x)", fi.node)]
    ctx.floor("render_to_pipe calls in process_request", len(rend), 1)
    for c in rend:
        cn = _n1(ctx, cfg, c, "render_to_pipe call")
        x = c.args[0]
        okx = isinstance(x, ast.Name) and isinstance(val.elts[0], ast.Name) and x.id == val.elts[0].id and [i for i, _ in _reaching(cfg, fi.node, x.id, cn)[0]] == [i for i, _ in _reaching(cfg, fi.node, x.id, st)[0]]
        ctx.ob("rendering is started on the stored pipe, after it was stored", okx and cfg.dominates(st, cn), fi, c)
    ctx.ob("every request that is stored is also rendered", cfg.must_pass(st, {i for c in rend for i in _rn(cfg, c)}), fi, ST)
    # cleanup on interest end
    ends = [(c, bb) for c, bb in find("$p.on_interest_end($f)", fi.node) if isinstance(bb["p"], ast.Name) and isinstance(val.elts[0], ast.Name) and bb["p"].id == val.elts[0].id]
    okc = False
    for c, bb in ends:
        fn = _nested_callable(fi.node, bb["f"])
        if fn is None:
            continue
        for k, n in stores_to(fn, F, nested=False):
            key = None
            if k == "delitem":
                key = n.targets[0].slice
            elif k == "pop" and n.args:
                key = n.args[0]
            if isinstance(key, ast.Name) and _closure_ref(fn, key.id, key.id) and _is_req_key(cfg, fi.node, key, cfg.exit, req):
                okc = True
    ctx.ob("the entry is removed from incoming_requests when interest in the pipe ends", okc, fi, ends[0][0] if ends else ST)
    return fi, cfg, ST, st, val, handler, req


def _e_monitor(ctx, fi, cfg, ST, st, val, handler, req):
    """the event handler hands the stopper to the token interface as message-error monitor"""
    if handler is None:
        return
    sends = [(c, b) for c, b in find("self.token_interface.send_message($*a, $**k)", handler)]
    ctx.floor("send_message calls in the event handler", len(sends), 1)
    for c, b in sends:
        mon = _kw(c, "messageerror_monitor", 1)
        ok = isinstance(mon, ast.Name) and isinstance(val.elts[1], ast.Name) and mon.id == val.elts[1].id and _closure_ref(handler, mon.id, mon.id)
        if ok:
            # closure: the binding live when the handler runs is the one at the end of process_request
            r1, l1 = _reaching(cfg, fi.node, mon.id, cfg.exit)
            r2, _ = _reaching(cfg, fi.node, mon.id, st)
            ok = not l1 and len(r1) == 1 and [x for x, _ in r1] == [x for x, _ in r2]
        ctx.ob("the message-error monitor passed with every response is the stored stopper of this request", ok, fi, c, detail="monitor argument: %s" % (stmt_text(mon) if mon is not None else "missing"))


def _second_of_pop(fi, cfg, field):
    """[(stmt, node id, monitor/first name, second name)] for `(a, b) = self.<field>.pop(k)`"""
    out = []
    for n in walk_no_nested(fi.node):
        if isinstance(n, ast.Assign) and len(n.targets) == 1 and isinstance(n.targets[0], (ast.Tuple, ast.List)) and len(n.targets[0].elts) == 2 \
                and all(isinstance(e, ast.Name) for e in n.targets[0].elts):
            if match("%s.pop($k, $*d)" % field, n.value) is not None or match("%s[$k]" % field, n.value) is not None:
                ids = _rn(cfg, n)
                if ids:
                    out.append((n, ids[0], n.targets[0].elts[0].id, n.targets[0].elts[1].id))
    return out


def _passes_param(ctx, fi, callpat, argpos, kwname, param, what, floor=1):
    calls = [c for c, _ in find(callpat, fi.node)]
    ctx.floor("%s in %s" % (what, fi.short), len(calls), floor)
    for c in calls:
        a = _kw(c, kwname, argpos)
        ctx.ob("%s passes the message-error monitor on unchanged" % fi.short.split(".")[-1], isinstance(a, ast.Name) and a.id == param and not writes_to_name(fi.node, param), fi, c)


def _e_message_layer(ctx):
    prog = ctx.prog
    sm = prog.func(MM + "send_message")
    sp = params(sm)
    ctx.need(len(sp) == 2, "MessageManager.send_message signature changed")
    _passes_param(ctx, sm, "self._send_initially($*a, $**k)", 1, "messageerror_monitor", sp[1], "_send_initially calls")
    apps = [n for k, n in stores_to(sm.node, "self._backlogs", nested=False) if k == "append"]
    ctx.floor("backlog insertions in send_message", len(apps), 1)
    for n in apps:
        t = n.args[0] if n.args else None
        ctx.ob("a backlogged message keeps its message-error monitor", isinstance(t, ast.Tuple) and len(t.elts) == 2 and isinstance(t.elts[1], ast.Name) and t.elts[1].id == sp[1] and not writes_to_name(sm.node, sp[1]), sm, n)
    cb = prog.func(MM + "_continue_backlog")
    ccfg = cfg_of(cb)
    pops = []
    for n in walk_no_nested(cb.node):
        if isinstance(n, ast.Assign) and isinstance(n.targets[0], (ast.Tuple, ast.List)) and len(n.targets[0].elts) == 2 and isinstance(n.value, ast.Call) \
                and isinstance(n.value.func, ast.Attribute) and n.value.func.attr in ("pop", "popleft") and any(n.value is x for k_, x in stores_to(cb.node, "self._backlogs", nested=False) if k_ in ("pop", "popleft")):
            pops.append(n)
    ctx.floor("backlog removals in _continue_backlog", len(pops), 1)
    for n in pops:
        m_, mon = [e.id if isinstance(e, ast.Name) else None for e in n.targets[0].elts]
        nid = _n1(ctx, ccfg, n, "backlog pop")
        sends = [c for c, b in find("self._send_initially($*a, $**k)", cb.node) if _rn(ccfg, c) and ccfg.dominates(nid, _rn(ccfg, c)[0])]
        ok = bool(sends) and all(isinstance(_kw(c, "messageerror_monitor", 1), ast.Name) and _kw(c, "messageerror_monitor", 1).id == mon
                                 and [x for x, _ in _reaching(ccfg, cb.node, mon, _rn(ccfg, c)[0])[0]] == [nid] for c in sends)
        ctx.ob("a message leaving the backlog is sent with the monitor it was queued with", ok, cb, n)
    si = prog.func(MM + "_send_initially")
    ip = params(si)
    ctx.need(len(ip) == 2, "_send_initially signature changed")
    _passes_param(ctx, si, "self._add_exchange($*a, $**k)", 1, "messageerror_monitor", ip[1], "_add_exchange calls")
    ae = prog.func(MM + "_add_exchange")
    ap = params(ae)
    ctx.need(len(ap) == 2, "_add_exchange signature changed")
    ins = [n for k, n in stores_to(ae.node, "self._active_exchanges", nested=False) if k == "setitem"]
    ctx.floor("exchange insertions", len(ins), 1)
    for n in ins:
        v = n.value if isinstance(n, ast.Assign) else None
        ctx.ob("the exchange stores the message-error monitor of the message", isinstance(v, ast.Tuple) and len(v.elts) == 2 and isinstance(v.elts[0], ast.Name) and v.elts[0].id == ap[1] and not writes_to_name(ae.node, ap[1]), ae, n)
    rt = prog.func(MM + "_retransmit")
    rcfg = cfg_of(rt)
    pp = _second_of_pop(rt, rcfg, "self._active_exchanges")
    ctx.floor("exchange pops in _retransmit", len(pp), 1)
    reins = [n for k, n in stores_to(rt.node, "self._active_exchanges", nested=False) if k == "setitem"]
    ctx.floor("exchange re-insertions in _retransmit", len(reins), 1)
    for n in reins:
        v = n.value if isinstance(n, ast.Assign) else None
        nid = _n1(ctx, rcfg, n, "re-insertion")
        ok = isinstance(v, ast.Tuple) and len(v.elts) == 2 and isinstance(v.elts[0], ast.Name)
        if ok:
            ws, live = _reaching(rcfg, rt.node, v.elts[0].id, nid)
            ok = not live and len(ws) == 1 and any(ws[0][1] is q[0] and q[2] == v.elts[0].id for q in pp)
        ctx.ob("a retransmitted exchange keeps its message-error monitor", ok, rt, n)
    rm = prog.func(MM + "_remove_exchange")
    mp = params(rm)
    mcfg = cfg_of(rm)
    pp = _second_of_pop(rm, mcfg, "self._active_exchanges")
    ctx.floor("exchange pops in _remove_exchange", len(pp), 1)
    for n, nid, mon, han in pp:
        fired = []
        for c in calls_in(rm.node):
            if isinstance(c.func, ast.Name) and c.func.id == mon and not c.args and _rn(mcfg, c):
                cn = _rn(mcfg, c)[0]
                if [x for x, _ in _reaching(mcfg, rm.node, mon, cn)[0]] == [nid]:
                    fired.append((c, cn))
        if not ctx.ob("a Reset on a notification fires the stored message-error monitor", bool(fired), rm, n):
            continue
        rst_ok = False
        for c, cn in fired:
            inner = [(e, pol) for e, pol, g in mcfg.guards(cn) if mcfg.dominates(nid, g)]
            alive, others = mtype_values(inner, "%s.mtype" % mp[0], ("CON", "NON", "ACK", "RST"))
            if "RST" in alive and not others:
                rst_ok = True
        ctx.ob("no condition other than the message type stands between a matching Reset and the monitor", rst_ok, rm, fired[0][0])


def _calls_of_name(fnode, name, root=None):
    return [c for c in calls_in(root if root is not None else fnode) if isinstance(c.func, ast.Name) and c.func.id == name and not c.args and not c.keywords]


def _e_dispatch_error(ctx):
    fi = ctx.prog.func(TM + "dispatch_error")
    p = params(fi)
    ctx.need(len(p) == 2, "TokenManager.dispatch_error signature changed")
    remote = p[1]
    ctx.need(not writes_to_name(fi.node, remote), "remote parameter rebound")
    cfg = cfg_of(fi)
    F = "self.incoming_requests"
    loops = [(n, _field_iter(n.iter, F)) for n in walk_no_nested(fi.node) if isinstance(n, ast.For) and _field_iter(n.iter, F) is not None]
    if not loops:
        # no explicit loop (e.g. a comprehension): the shared obligations of C02.e decide the same facts
        # (stoppers collected only for the reported remote's requests, every collected stopper invoked)
        from . import c02
        c02.e(ctx)
        return
    for lp, (mode, copied) in loops:
        ctx.need(mode == "items", "dispatch_error iterates incoming_requests.%s(): outside the rule's vocabulary" % mode)
        names = {}
        for nm in names_in(lp.target):
            names[_path_in_target(lp.target, nm)] = nm
        r, s = names.get((0, 1)), names.get((1, 1))
        ctx.need(r is not None and s is not None, "loop target does not destructure ((token, remote), (pipe, stopper))")
        head = _n1(ctx, cfg, lp, "loop")
        outer = [(e, pol) for e, pol, g in cfg.guards(head)]
        bad = [e for e, pol in outer if not isinstance(e, ast.stmt) and (remote in names_in(e) or p[0] in names_in(e) or not all((chain(x) or "").startswith("self.") for x in ast.walk(e) if isinstance(x, ast.Attribute) and isinstance(x.value, ast.Name)))]
        ctx.ob("the scan over incoming requests is reached for every error outside shutdown", not bad and cfg.must_pass(cfg.entry, {head} | _early_returns(cfg, head)), fi, lp,
               construct="for ... in self.incoming_requests.items()", detail="; ".join(stmt_text(e) for e in bad) or None)
        # collection / direct call sites of the stopper
        uses = []
        for c in calls_in(lp):
            if isinstance(c.func, ast.Name) and c.func.id == s and not c.args:
                uses.append(("call", c, None))
            elif isinstance(c.func, ast.Attribute) and c.func.attr == "append" and len(c.args) == 1 and isinstance(c.args[0], ast.Name) and c.args[0].id == s and isinstance(c.func.value, ast.Name):
                uses.append(("collect", c, c.func.value.id))
        if not ctx.ob("the stopper of a matching incoming request is called or collected", bool(uses), fi, lp, construct="for ... in self.incoming_requests.items()"):
            continue
        for kind, c, lst in uses:
            cn = _n1(ctx, cfg, c, "stopper use")
            inner = [(e, pol) for e, pol, g in cfg.guards(cn) if e is not lp and _inside(lp, e)]
            eq = []
            rest = []
            for e, pol in inner:
                if isinstance(e, ast.Compare) and len(e.ops) == 1 and {chain(e.left), chain(e.comparators[0])} == {remote, r} \
                        and ((isinstance(e.ops[0], ast.Eq) and pol) or (isinstance(e.ops[0], ast.NotEq) and not pol)):
                    eq.append(e)
                else:
                    rest.append(e)
            ctx.ob("requests are selected by equality of their remote with the failing remote, and by nothing else", len(eq) >= 1 and not rest, fi, c,
                   detail="other conditions: %s" % "; ".join(stmt_text(e) for e in rest) if rest else None)
            if kind == "call":
                ctx.ob("stoppers (which modify incoming_requests) are not called while the dict is iterated", copied, fi, c)
            else:
                runs = []
                for l2 in walk_no_nested(fi.node):
                    if isinstance(l2, ast.For) and l2 is not lp and isinstance(l2.iter, ast.Name) and l2.iter.id == lst and isinstance(l2.target, ast.Name):
                        cs = _calls_of_name(fi.node, l2.target.id, l2)
                        for cc in cs:
                            ccn = _rn(cfg, cc)
                            g2 = [e for e, pol, g in cfg.guards(ccn[0]) if e is not l2 and _inside(l2, e)] if ccn else [1]
                            if not g2:
                                runs.append(l2)
                h2 = {i for l2 in runs for i in _rn(cfg, l2)}
                fnode = [n.id for n in cfg.nodes if n.kind == "F" and n.ast is lp and cfg.is_reachable(n.id)]
                ctx.ob("every collected stopper is called after the scan", bool(h2) and all(cfg.must_pass(f, h2) for f in fnode) and not _inside(lp, runs[0]), fi, c)
                ctx.ob("the collecting list is not reset between collection and the calls", all(_enclosing_loop(cfg, w) is None and cfg.dominates(x, head) for x, w in _write_nodes(cfg, fi.node, lst)), fi, c)


def _early_returns(cfg, head):
    """return nodes that are not reachable from head (exits taken before the loop)"""
    after = cfg.reach({head}, include_src=True)
    return {n.id for n in cfg.nodes if n.kind == "return" and n.id not in after and cfg.is_reachable(n.id)
            and any(isinstance(e, ast.Compare) and isinstance(e.ops[0], (ast.Is, ast.IsNot)) and isinstance(e.comparators[0], ast.Constant) and e.comparators[0].value is None
                    for e, pol, g in cfg.guards(n.id))}


def _e_shutdown(ctx):
    fi = ctx.prog.func(TM + "shutdown")
    cfg = cfg_of(fi)
    F = "self.incoming_requests"
    resets = [n for k, n in stores_to(fi.node, F, nested=False) if k == "assign"]
    done = False
    for lp in walk_no_nested(fi.node):
        if isinstance(lp, ast.While) and chain(lp.test) == F:
            pops = [q for q in _second_of_pop(fi, cfg, F) if _enclosing_loop(cfg, q[0]) is lp]
            items = []
            for n in walk_no_nested(lp):
                if isinstance(n, ast.Assign) and match("%s.popitem()" % F, n.value) is not None:
                    nm = {_path_in_target(n.targets[0], x): x for x in names_in(n.targets[0])}
                    if (1, 1) in nm and _rn(cfg, n):
                        items.append((n, _rn(cfg, n)[0], None, nm[(1, 1)]))
            pops = pops + items
            head = _n1(ctx, cfg, lp, "shutdown loop")
            tnode = [n.id for n in cfg.nodes if n.kind == "T" and n.ast is lp.test and cfg.is_reachable(n.id)]
            ctx.need(bool(tnode), "loop test node missing")
            if not ctx.ob("each round of the shutdown loop takes an entry out of incoming_requests", bool(pops) and cfg.must_pass(tnode[0], {q[1] for q in pops}, to=head), fi, lp, construct="while self.incoming_requests"):
                continue
            for n, nid, _, s in pops:
                ks = {i for c in _calls_of_name(fi.node, s, lp) for i in _rn(cfg, c) if [x for x, _ in _reaching(cfg, fi.node, s, i)[0]] == [nid]}
                ctx.ob("the stopper of every entry taken out at shutdown is called", bool(ks) and all(cfg.must_pass(d, ks, to=head) for d, lab in cfg.succ[nid] if lab != "exc"), fi, n)
            fn = [n.id for n in cfg.nodes if n.kind == "F" and n.ast is lp.test and cfg.is_reachable(n.id)]
            ctx.ob("shutdown reaches the stop-all loop on every path", cfg.must_pass(cfg.entry, set(fn) | set(tnode)), fi, lp, construct="while self.incoming_requests")
            for rs in resets:
                ctx.ob("incoming_requests is dropped only after every request was stopped", all(any(cfg.dominates(f, i) for f in fn) for i in _rn(cfg, rs)), fi, rs)
            done = True
        elif isinstance(lp, ast.For) and _field_iter(lp.iter, F) is not None:
            mode, copied = _field_iter(lp.iter, F)
            nm = {_path_in_target(lp.target, x): x for x in names_in(lp.target)}
            s = nm.get((1, 1)) if mode == "items" else nm.get((1,)) if mode == "values" else None
            ctx.need(s is not None, "shutdown loop target does not expose the stopper")
            cs = [c for c in _calls_of_name(fi.node, s, lp) if _rn(cfg, c) and not [e for e, pol, g in cfg.guards(_rn(cfg, c)[0]) if e is not lp and _inside(lp, e)]]
            ctx.ob("the stopper of every incoming request is called at shutdown", bool(cs), fi, lp, construct="for ... in self.incoming_requests")
            ctx.ob("stoppers (which modify incoming_requests) are not called while the dict is iterated", copied, fi, lp, construct="for ... in self.incoming_requests")
            ctx.ob("shutdown reaches the stop-all loop on every path", cfg.must_pass(cfg.entry, set(_rn(cfg, lp))), fi, lp, construct="for ... in self.incoming_requests")
            fn = [n.id for n in cfg.nodes if n.kind == "F" and n.ast is lp and cfg.is_reachable(n.id)]
            for rs in resets:
                ctx.ob("incoming_requests is dropped only after every request was stopped", all(any(cfg.dominates(f, i) for f in fn) for i in _rn(cfg, rs)), fi, rs)
            done = True
    ctx.ob("TokenManager.shutdown stops every incoming request", done, fi, resets[0] if resets else fi.node, construct=None if resets else "TokenManager.shutdown")


def _e_task_cancel(ctx):
    prog = ctx.prog
    fi = prog.func("pipe.run_driving_pipe")
    p = params(fi)
    ctx.need(len(p) >= 2 and not writes_to_name(fi.node, p[0]) and not writes_to_name(fi.node, p[1]), "run_driving_pipe signature changed")
    cfg = cfg_of(fi)
    regs = [(c, b) for c, b in find("%s.on_interest_end($f)" % p[0], fi.node)]
    ok = False
    node = fi.node
    wrapped = None
    for c, b in regs:
        cn = _n1(ctx, cfg, c, "on_interest_end call")
        f, fp = _value_at(cfg, fi.node, b["f"], cn)
        node = c
        if not fp and isinstance(f, ast.Attribute) and f.attr == "cancel":
            tv, tp = _value_at(cfg, fi.node, f.value, _rn(cfg, f)[0] if _rn(cfg, f) else cn)
            if not tp and isinstance(tv, ast.Call) and isinstance(tv.func, ast.Attribute) and tv.func.attr in ("create_task", "ensure_future") and tv.args and isinstance(tv.args[0], ast.Call):
                w = _nested_callable(fi.node, tv.args[0].func)
                if w is not None and any(isinstance(a, ast.Await) and isinstance(a.value, ast.Name) and a.value.id == p[1] and _closure_ref(w, p[1], p[1]) for a in walk_no_nested(w)):
                    wrapped = w
                    ok = cfg.must_pass(cfg.entry, {cn})
    ctx.ob("run_driving_pipe cancels the task that awaits the render coroutine when interest in the pipe ends", ok, fi, node, construct=None if regs else "run_driving_pipe")
    # error_to_message forwards loss of interest from the requester's pipe to the pipe the task is bound to
    ef = prog.func("pipe.error_to_message")
    ep = params(ef)
    ctx.need(len(ep) == 2 and not writes_to_name(ef.node, ep[0]), "error_to_message signature changed")
    ecfg = cfg_of(ef)
    rets = [n for n in walk_no_nested(ef.node) if isinstance(n, ast.Return)]
    ctx.need(len(rets) == 1 and isinstance(rets[0].value, ast.Name), "error_to_message does not return a single local")
    nxt = rets[0].value.id
    rn_ = _n1(ctx, ecfg, rets[0], "return")
    nv, np_ = _value_at(ecfg, ef.node, rets[0].value, rn_)
    okn = not np_ and isinstance(nv, ast.Call) and _cls_of(ctx, ef, nv.func) == "aiocoap.pipe.Pipe"
    fw = [(c, b) for c, b in find("%s.on_interest_end($f)" % ep[0], ef.node)]
    okf = False
    for c, b in fw:
        cn = _n1(ctx, ecfg, c, "on_interest_end call")
        v, vp = _value_at(ecfg, ef.node, b["f"], cn)
        m = match("%s.on_event($h)" % nxt, v) if not vp else None
        if m is not None and _nested_callable(ef.node, m["h"]) is not None and ecfg.must_pass(ecfg.entry, {cn}):
            okf = True
    ctx.ob("error_to_message drops the inner pipe's only interest when the requester's pipe ends", okn and okf, ef, fw[0][0] if fw else rets[0])
    cf = prog.func("protocol.Context.render_to_pipe")
    cp = params(cf)
    ccfg = cfg_of(cf)
    runs = [c for c, b in find("run_driving_pipe($*a, $**k)", cf.node)]
    ctx.floor("run_driving_pipe calls in Context.render_to_pipe", len(runs), 1)
    for c in runs:
        cn = _n1(ctx, ccfg, c, "run_driving_pipe call")
        a0 = _kw(c, "pipe", 0)
        v, vp = _value_at(ccfg, cf.node, a0, cn) if a0 is not None else (None, None)
        m = match("error_to_message($p, $*r)", v) if v is not None and not vp else None
        okc = m is not None and isinstance(m["p"], ast.Name) and m["p"].id == cp[0] and _cls_of(ctx, cf, c.func) == "aiocoap.pipe.run_driving_pipe" and _cls_of(ctx, cf, v.func) == "aiocoap.pipe.error_to_message"
        ctx.ob("the render task is bound to the pipe whose interest error_to_message ties to the requester's pipe", okc, cf, c)
    # Pipe: unregistering the last interested handler ends the pipe, which runs the interest-end callbacks
    uf = prog.func("pipe.Pipe._unregister_on_event")
    ucfg = cfg_of(uf)
    ends = [c for c, b in find("self._end()", uf.node)]
    oku = False
    for c in ends:
        cn = _rn(ucfg, c)
        if cn:
            gs = [(e, pol) for e, pol, g in ucfg.guards(cn[0])]
            rest = [e for e, pol in gs if not (match("self._any_interest()", e) is not None and not pol) and not (match("self._event_callbacks is False", e) is not None and not pol)
                    and not (match("self._event_callbacks is not False", e) is not None and pol)]
            if any(match("self._any_interest()", e) is not None and not pol for e, pol in gs) and not rest:
                oku = True
    ctx.ob("unregistering the last interested handler ends the pipe", oku, uf, ends[0] if ends else uf.node, construct=None if ends else "Pipe._unregister_on_event")
    nf = prog.func("pipe.Pipe._end")
    ncfg = cfg_of(nf)
    okt = False
    where = nf.node
    for c in calls_in(nf.node):
        if isinstance(c.func, ast.Name) and len(c.args) == 1 and not c.keywords and _rn(ncfg, c):
            tv, tp = _value_at(ncfg, nf.node, c.args[0], _rn(ncfg, c)[0])
            if not tp and isinstance(tv, ast.Call) and chain(tv.func) in ("self.Event", "Pipe.Event"):
                last = _kw(tv, "is_last", 2)
                it = _comp_iter(nf.node, c.func.id)
                if it is not None:
                    iv, ip = _value_at(ncfg, nf.node, it, _rn(ncfg, c)[0])
                    where = c
                    if isinstance(last, ast.Constant) and last.value is True and chain(iv) == "self._event_callbacks":
                        okt = True
    ctx.ob("ending the pipe delivers a final event to every registered callback", okt, nf, where, construct=None if where is not nf.node else "Pipe._end")
    of = prog.func("pipe.Pipe.on_interest_end")
    op = params(of)
    ocfg = cfg_of(of)
    direct = {i for c in _calls_of_name(of.node, op[0]) for i in _rn(ocfg, c)}
    deferred = set()
    for k, n in stores_to(of.node, "self._event_callbacks", nested=False):
        if k == "append" and n.args and isinstance(n.args[0], ast.Tuple) and len(n.args[0].elts) == 2:
            fn, flag = n.args[0].elts
            fnode = _nested_callable(of.node, fn)
            if fnode is not None and any(isinstance(x, ast.Call) and isinstance(x.func, ast.Name) and x.func.id == op[0] for x in ast.walk(fnode)) \
                    and any(isinstance(x, ast.Attribute) and x.attr == "is_last" for x in ast.walk(fnode)) and isinstance(flag, ast.Constant) and flag.value is False:
                deferred |= set(_rn(ocfg, n))
    ctx.ob("an interest-end callback is either run at once or queued as a non-interest handler that runs it on the final event", bool(direct) and bool(deferred) and ocfg.must_pass(ocfg.entry, direct | deferred), of, of.node, construct="Pipe.on_interest_end")
    return wrapped


def _comp_iter(fnode, name):
    """iterable of the comprehension / for loop whose target binds `name`"""
    for n in walk_no_nested(fnode):
        if isinstance(n, (ast.ListComp, ast.SetComp, ast.GeneratorExp)):
            for g in n.generators:
                if name in names_in(g.target):
                    return g.iter
        if isinstance(n, ast.For) and name in names_in(n.target):
            return n.iter
    return None


@R.clause("C08.e", "termination wiring: override on the same (token, remote), stopper as message-error monitor down to the exchange table and the Reset arm, dispatch_error, shutdown, loss of interest -> task.cancel")
def e(ctx):
    fi, cfg, ST, st, val, handler, req = _e_process_request(ctx)
    _e_monitor(ctx, fi, cfg, ST, st, val, handler, req)
    _e_message_layer(ctx)
    _e_dispatch_error(ctx)
    _e_shutdown(ctx)
    _e_task_cancel(ctx)


# ---------------------------------------------------------------------------
# C08.f


def _is_new_future(e):
    return isinstance(e, ast.Call) and ((isinstance(e.func, ast.Attribute) and e.func.attr in ("create_future", "Future")) or chain(e.func) == "Future")


def _has_await(node):
    return node is not None and any(isinstance(x, ast.Await) for x in walk_no_nested(node))


@R.clause("C08.f", "lossy latest-value hand-over: trigger() re-arms a done future before set_result and marks is_last first; the loop waits, reads, re-arms without an intervening await and renders only for a None result")
def f(ctx):
    prog = ctx.prog
    tf = prog.func("protocol.ServerObservation.trigger")
    tp = params(tf)
    ctx.need(len(tp) >= 1, "trigger signature changed")
    cfg = cfg_of(tf)
    sets = [(c, b) for c, b in find("self._trigger.set_result($r)", tf.node)]
    ctx.floor("set_result sites in trigger", len(sets), 1)
    done_t = _truth_nodes(cfg, ast.parse("self._trigger.done()", mode="eval").body, True)
    done_f = _truth_nodes(cfg, ast.parse("self._trigger.done()", mode="eval").body, False)
    rearm = {i for k, n in stores_to(tf.node, "self._trigger", nested=False) if k == "assign" and isinstance(n, ast.Assign) and _is_new_future(n.value) for i in _rn(cfg, n)}
    for c, b in sets:
        sr = _n1(ctx, cfg, c, "set_result")
        ctx.ob("trigger() resolves the future with the response it was given", isinstance(b["r"], ast.Name) and b["r"].id == tp[0] and not writes_to_name(tf.node, tp[0]), tf, c)
        tested = bool(done_t) and sr not in cfg.reach({cfg.entry}, avoid=done_t | done_f, skip_labels=("exc",))
        ctx.ob("trigger() checks whether the pending future is already done before resolving it", tested, tf, c)
        ctx.ob("a future that is already done is replaced by a fresh one before set_result (no InvalidStateError, latest value wins)",
               tested and bool(rearm) and all(cfg.must_pass(t, rearm, to=sr) for t in done_t), tf, c)
        ctx.ob("set_result is reached on every path of trigger()", cfg.must_pass(cfg.entry, {sr}), tf, c)
        marks = [n for k, n in stores_to(tf.node, "self._late_deregister", nested=False) if k == "assign" and isinstance(n, ast.Assign) and isinstance(n.value, ast.Constant) and n.value.value is True]
        flags = [a.arg for a in tf.node.args.kwonlyargs + tf.node.args.args if a.arg == "is_last"]
        ctx.need(len(flags) == 1, "trigger() has no is_last parameter")
        ft = _truth_nodes(cfg, ast.Name(id=flags[0], ctx=ast.Load()), True)
        mn = {i for n in marks for i in _rn(cfg, n)}
        ctx.ob("trigger(is_last=True) marks the observation as finishing before the loop is woken", bool(ft) and bool(mn) and not writes_to_name(tf.node, flags[0]) and all(cfg.must_pass(t, mn, to=sr) for t in ft)
               and sr not in cfg.reach({cfg.entry}, avoid=ft | _truth_nodes(cfg, ast.Name(id=flags[0], ctx=ast.Load()), False), skip_labels=("exc",)), tf, marks[0] if marks else c)
        for n in marks:
            gs = [(e, pol) for e, pol, g in cfg.guards(_n1(ctx, cfg, n, "mark"))]
            ctx.ob("the observation is marked finishing only when is_last was requested", any(isinstance(e, ast.Name) and e.id == flags[0] and pol for e, pol in gs), tf, n)
    init = prog.func("protocol.ServerObservation.__init__")
    ist = [n for k, n in stores_to(init.node, "self._trigger", nested=False) if k == "assign"]
    ctx.ob("a ServerObservation starts with an unresolved future", len(ist) == 1 and isinstance(ist[0], ast.Assign) and _is_new_future(ist[0].value), init, ist[0] if ist else init.node, construct=None if ist else "ServerObservation.__init__")
    lst = [n for k, n in stores_to(init.node, "self._late_deregister", nested=False) if k == "assign"]
    ctx.ob("a ServerObservation starts as not finishing", len(lst) == 1 and isinstance(lst[0], ast.Assign) and isinstance(lst[0].value, ast.Constant) and lst[0].value.value is False, init, lst[0] if lst else init.node, construct=None if lst else "ServerObservation.__init__")

    # the consuming loop
    P = _obs_parts(ctx)
    fi, cfg = P.fi, P.cfg
    fut = "%s._trigger" % P.so
    W = {i for n in walk_no_nested(P.loop) if isinstance(n, ast.Await) and chain(n.value) == fut for i in _rn(cfg, n)}
    reads = [c for c, _ in find("%s.result()" % fut, P.loop)]
    rearms = [n for k, n in stores_to(P.loop, fut, nested=False) if k == "assign"]
    inloop = [A for A in P.adds if A.loop is not None]
    anchor = inloop[0].call if inloop else P.loop
    if not ctx.ob("the notification loop waits on the observation's trigger future", bool(W), fi, anchor):
        return
    for A in inloop:
        ctx.ob("every notification is preceded, in its iteration, by a completed wait on the trigger", A.nid not in cfg.reach({P.head}, avoid=W), fi, A.call)
    if not ctx.ob("the loop reads the result of the trigger future", len(reads) == 1, fi, anchor, detail="%d reads" % len(reads)):
        return
    rd = _n1(ctx, cfg, reads[0], "result read")
    ctx.ob("the result is read only after the wait completed", rd not in cfg.reach({P.head}, avoid=W) and rd not in W, fi, reads[0])
    ra = {i for n in rearms if isinstance(n, ast.Assign) and _is_new_future(n.value) for i in _rn(cfg, n)}
    if not ctx.ob("the loop re-arms the trigger with a fresh future", bool(ra), fi, reads[0]):
        return
    AW = {n.id for n in cfg.nodes if n.kind in ("stmt", "return", "test", "for", "with") and cfg.is_reachable(n.id) and _has_await(n.ast if n.kind != "for" else n.ast.iter)}
    between = cfg.reach({rd}, avoid=ra, skip_labels=("exc",))
    clean = not (AW & between) and rd not in AW and not (ra & AW)
    bad = sorted(AW & between)
    ctx.ob("no await (and no return to the wait) lies between reading the result and re-arming the future: a trigger in between cannot be lost",
           clean and P.head not in between, fi, cfg.nodes[bad[0]].ast if bad else reads[0])
    ctx.ob("the re-arming happens after the read", all(rd in cfg.dominators(i) or i == rd for i in ra), fi, rearms[0])
    renders = [c for c, _ in find("self.render($*a, $**k)", P.loop)]
    ctx.floor("render calls in the loop", len(renders), 1)
    rstmts = []
    for c in renders:
        rn = _n1(ctx, cfg, c, "render call")
        ok = False
        for e_, pol, g in cfg.guards(rn):
            if isinstance(e_, ast.Compare) and len(e_.ops) == 1 and isinstance(e_.left, ast.Name) and isinstance(e_.comparators[0], ast.Constant) and e_.comparators[0].value is None:
                isnone = (isinstance(e_.ops[0], (ast.Is, ast.Eq)) and pol) or (isinstance(e_.ops[0], (ast.IsNot, ast.NotEq)) and not pol)
                ws, live = _reaching(cfg, fi.node, e_.left.id, g)
                if isnone and not live and [x for x, _ in ws] == [rd] and _bound(ws[0][1], e_.left.id)[1] == ():
                    ok = True
        ctx.ob("the loop renders the resource exactly when the trigger carried no ready-made response", ok, fi, c)
        ctx.ob("the rendering of a notification starts after the trigger was consumed and re-armed (it reflects a state at or after the change)", any(cfg.dominates(i, rn) for i in ra) and rd in cfg.dominators(rn), fi, c)
        rstmts.append(rn)
    for A in inloop:
        if isinstance(A.resp, ast.Name):
            ws, live = _reaching(cfg, fi.node, A.resp.id, A.nid)
            ctx.ob("the notification sent is the triggered response or the fresh rendering", not live and bool(ws) and all(x == rd or x in rstmts for x, _ in ws), fi, A.call,
                   detail="bindings reaching the send: %s" % [stmt_text(w, 60) for _, w in ws])
        else:
            ctx.need(False, "notification argument is not a local")
    # a non-None triggered response must also be possible: the render is not unconditional w.r.t. the read
    ctx.ob("a triggered response is passed on without re-rendering", any(A.nid in cfg.reach({rd}, avoid=set(rstmts)) for A in inloop), fi, reads[0])


# ---------------------------------------------------------------------------
# C08.g  (added while implementing C08.b: the finally-callback must exist on every path that reaches it)


@R.clause("C08.g", "the cancellation callback is only invoked when there is one: the call is dominated by `_accepted`, or every ServerObservation carries a callable from construction on")
def g(ctx):
    prog = ctx.prog
    P = _obs_parts(ctx)
    fi, cfg = P.fi, P.cfg
    ci = prog.cls("protocol.ServerObservation")
    init = ci.methods.get("__init__")
    ctx.need(init is not None, "ServerObservation.__init__ missing")
    icfg = cfg_of(init)
    st = [n for k, n in stores_to(init.node, "self._cancellation_callback", nested=False) if k == "assign"]
    default = "_cancellation_callback" in ci.methods or "_cancellation_callback" in ci.attrs or (bool(st) and icfg.must_pass(icfg.entry, {j for n in st for j in _rn(icfg, n)}))
    calls = [c for c, _ in find("%s._cancellation_callback()" % P.so, fi.node)]
    ctx.floor("cancellation callback call sites", len(calls), 1)
    for c in calls:
        guarded = all(guarded_by(cfg, j, "%s._accepted" % P.so, True) or guarded_by(cfg, j, 'hasattr(%s, "_cancellation_callback")' % P.so, True) for j in _rn(cfg, c))
        ctx.ob("a declined observation (add_observation did not call accept) has no callback to invoke: the call must be conditional on acceptance or a default must exist; "
               "otherwise the AttributeError raised in the finally clause replaces the handler's own outcome", default or guarded, fi, c,
               detail=None if (default or guarded) else "ServerObservation defines _cancellation_callback only in accept(); the call is unconditional")
    acc = [n for k, n in stores_to(init.node, "self._accepted", nested=False) if k == "assign"]
    ctx.ob("a ServerObservation starts as not accepted", len(acc) == 1 and isinstance(acc[0], ast.Assign) and isinstance(acc[0].value, ast.Constant) and acc[0].value.value is False, init, acc[0] if acc else init.node,
           construct=None if acc else "ServerObservation.__init__")


# ---------------------------------------------------------------------------
# seeded faults (sensitivity self-test)
@R.clause("C08.h", "notifications to an endpoint are not held back forever: a timed-out exchange leaves the exchange table, the backlog invariant holds (shared with C03.d / C14.a)")
def h_shared(ctx):
    """'A notification rendered at or after the last change is eventually sent' needs the message layer to release the
    per-remote queue.  An independently written breaking change left the timed-out exchange of a CON notification in
    _active_exchanges, so every later CON notification to that endpoint (after a re-registration) was queued for ever."""
    from . import c03, c14
    c03.retransmit_removes_exchange(ctx)
    c14.a(ctx)


F_IF = "aiocoap/interfaces.py"
F_RES = "aiocoap/resource.py"
F_PROTO = "aiocoap/protocol.py"
F_TM = "aiocoap/tokenmanager.py"
F_MM = "aiocoap/messagemanager.py"
F_PIPE = "aiocoap/pipe.py"

R.seed("C08.a", F_IF, "                    next_observation_number += 1\n", "                    next_observation_number += 0\n", "Observe value never rises")
R.seed("C08.a", F_IF, "                    next_observation_number += 1\n", "                    next_observation_number -= 1\n", "Observe value falls")
R.seed("C08.a", F_IF, "                    response.opt.observe = next_observation_number\n", "", "notifications without Observe option")
R.seed("C08.a", F_IF, "            first_response.opt.observe = next_observation_number = 0\n", "            next_observation_number = 0\n", "initial response without Observe option")
R.seed("C08.a", F_IF, "            first_response.opt.observe = next_observation_number = 0\n", "            first_response.opt.observe = 5\n            next_observation_number = 0\n", "first notification (1) below the initial value (5)")
R.seed("C08.a", F_IF, "                    next_observation_number += 1\n                    response.opt.observe = next_observation_number\n",
       "                    response.opt.observe = next_observation_number\n                    next_observation_number += 1\n", "first notification repeats the initial value")
R.seed("C08.a", F_IF, "                if not is_last:\n                    next_observation_number += 1", "                if is_last:\n                    next_observation_number += 1", "Observe stored only on the final notification")
R.seed("C08.b", F_IF, "        finally:\n            servobs._cancellation_callback()", "        except Exception:\n            servobs._cancellation_callback()\n            raise", "callback moved from finally into except: missed on return and on task cancellation")
R.seed("C08.b", F_IF, "        try:\n            first_response = await self.render(pipe.request)\n\n            if (", "        first_response = await self.render(pipe.request)\n        try:\n            if (", "first render outside the try")
R.seed("C08.b", F_IF, "                if is_last:\n                    return\n", "                if is_last:\n                    servobs._cancellation_callback()\n                    return\n", "callback runs twice")
R.seed("C08.b", F_PROTO, "        self._cancellation_callback = cancellation_callback\n", "        self._cancellation_callback = lambda: None\n", "accept() drops the resource's callback")
R.seed("C08.c", F_RES, "            self._observations.remove(serverobservation)\n            self.update_observation_count(len(self._observations))\n", "            self._observations.remove(serverobservation)\n", "count not updated on cancellation")
R.seed("C08.c", F_RES, "        serverobservation.accept(_cancel)\n        self.update_observation_count(len(self._observations))\n", "        serverobservation.accept(_cancel)\n", "count not updated on registration")
R.seed("C08.c", F_RES, "        self._observations.add(serverobservation)\n", "        self._observations.add(request)\n", "object added differs from the one removed")
R.seed("C08.c", F_RES, "            self._observations.remove(serverobservation)\n            self.update_observation_count(len(self._observations))\n",
       "            self.update_observation_count(len(self._observations))\n            self._observations.remove(serverobservation)\n", "count reported before the removal")
R.seed("C08.c", F_RES, "        for o in self._observations:\n            o.trigger(response)\n", "        for o in self._observations:\n            o.trigger(response)\n        self._observations.clear()\n", "foreign writer of _observations")
R.seed("C08.c", F_RES, "            o.trigger(response)\n", "            o.trigger()\n", "ready-made notification dropped")
R.seed("C08.d", F_IF, "                is_last = servobs._late_deregister or not response.code.is_successful()", "                is_last = servobs._late_deregister", "unsuccessful notification does not end the observation")
R.seed("C08.d", F_IF, "                is_last = servobs._late_deregister or not response.code.is_successful()", "                is_last = not response.code.is_successful()", "trigger(is_last=True) ignored")
R.seed("C08.d", F_IF, "                or servobs._early_deregister\n", "", "early deregistration ignored")
R.seed("C08.d", F_IF, "                not servobs._accepted\n                or servobs._early_deregister", "                servobs._early_deregister", "unaccepted observation kept open")
R.seed("C08.d", F_IF, "                or not first_response.code.is_successful()\n", "", "error response opens an observation")
R.seed("C08.d", F_IF, "                if is_last:\n                    return\n", "                if is_last:\n                    continue\n", "loop goes on after the final notification")
R.seed("C08.d", F_IF, "                pipe.add_response(response, is_last=is_last)\n", "                pipe.add_response(response, is_last=False)\n", "notifications never final")
R.seed("C08.e", F_TM, "            (pipe, stop) = self.incoming_requests.pop(key)\n            stop()\n", "            (pipe, stop) = self.incoming_requests.pop(key)\n", "old observation not stopped on override")
R.seed("C08.e", F_TM, "                    # in on the same token)\n                    stop,\n", "                    # in on the same token)\n                    lambda: None,\n", "Reset no longer reaches the observation")
R.seed("C08.e", F_TM, "                stoppers.append(stopper)\n", "                pass\n", "transport errors do not stop observations")
R.seed("C08.e", F_TM, "            if remote == _r:\n                stoppers.append(stopper)", "            if remote is _r:\n                stoppers.append(stopper)", "identity instead of equality of remotes")
R.seed("C08.e", F_TM, "                stoppers.append(stopper)\n", "                stopper()\n", "dict modified while iterated")
R.seed("C08.e", F_TM, "            # could raise in the task.)\n            stop()\n", "            # could raise in the task.)\n", "shutdown does not stop observations")
R.seed("C08.e", F_TM, "        self.incoming_requests[key] = (pipe, stop)\n", "        self.incoming_requests[(request.token,)] = (pipe, stop)\n", "registered under the token only")
R.seed("C08.e", F_PIPE, "    pipe.on_interest_end(task.cancel)\n", "", "render task survives loss of interest")
R.seed("C08.e", F_PIPE, "    old_pr.on_interest_end(remove_interest)\n", "", "loss of interest not forwarded to the render task's pipe")
R.seed("C08.e", F_PIPE, "        ]\n        if not self._any_interest():\n            self._end()\n", "        ]\n", "unregistering the last handler does not end the pipe")
R.seed("C08.e", F_MM, "        if message.mtype is RST:\n            messageerror_monitor()\n", "", "Reset does not fire the monitor")
R.seed("C08.e", F_MM, "            self._add_exchange(message, messageerror_monitor)\n", "            self._add_exchange(message, lambda: None)\n", "monitor lost on the way to the exchange table")
R.seed("C08.e", F_MM, "            self._active_exchanges[key] = (messageerror_monitor, next_retransmission)", "            self._active_exchanges[key] = (lambda: None, next_retransmission)", "monitor lost after the first retransmission")
R.seed("C08.f", F_PROTO, "        if self._trigger.done():\n            # we don't care whether we overwrite anything, this is a lossy queue as observe is lossy\n            self._trigger = asyncio.get_running_loop().create_future()\n", "", "second trigger before consumption raises InvalidStateError")
R.seed("C08.f", F_PROTO, "        if is_last:\n            self._late_deregister = True\n", "", "is_last not recorded")
R.seed("C08.f", F_PROTO, "        self._trigger.set_result(response)\n", "        self._trigger.set_result(None)\n", "ready-made notification dropped")
R.seed("C08.f", F_IF, "                servobs._trigger = asyncio.get_running_loop().create_future()\n\n                if response is None:\n                    response = await self.render(pipe.request)\n",
       "\n                if response is None:\n                    response = await self.render(pipe.request)\n                servobs._trigger = asyncio.get_running_loop().create_future()\n", "trigger during rendering is lost")
R.seed("C08.f", F_IF, "                if response is None:\n                    response = await self.render(pipe.request)\n", "                response = await self.render(pipe.request)\n", "triggered response always replaced by a rendering")
R.seed("C08.f", F_IF, "                await servobs._trigger\n", "                await asyncio.sleep(0)\n", "loop does not wait for a trigger")
R.seed("C08.g", F_PROTO, "        self._accepted = False\n", "        self._accepted = True\n", "declined observations are kept open (masked while C08.g is refuted on the analysed tree)")

R.seed("C08.h", F_MM, "        messageerror_monitor, next_retransmission = self._active_exchanges.pop(key)\n        # this should be a no-op", "        messageerror_monitor, next_retransmission = self._active_exchanges[key]\n        # this should be a no-op", "timed-out exchange stays 'active': later CON notifications to that endpoint are queued for ever")
