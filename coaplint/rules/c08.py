"""C08 Observe server: rising numbers, cancellation final, no leak."""

import ast

from ..rulekit import *
from ..cfg import CFG
from ..norm import Normalizer, Poly
from . import _kit_c08 as K

R = Rules(
    "C08",
    explanation=(
        "Structural clauses of the server side of RFC 7641 decided on the syntax trees of interfaces.py, "
        "resource.py, protocol.py, tokenmanager.py, messagemanager.py and pipe.py: the Observe counter of "
        "ObservableResource._render_to_pipe (constant initial value on the first response, an advance of at "
        "least one between any two consecutive notifications on every pair of paths, the value stored on the "
        "object that is sent; integer local or itertools.count), the cancellation "
        "callback on every exit after registration and at most once per path, the bookkeeping of "
        "resource.ObservableResource (object added = object removed, count update after both, no foreign "
        "writer), the termination condition of the notification loop compared per path with the value of the "
        "is_last argument, and the "
        "termination wiring: a new request on the same (token, remote) stops the old pipe, the stopper is "
        "handed to the message layer as message-error monitor and threaded unchanged down to "
        "_active_exchanges where a Reset fires it, dispatch_error and shutdown call the stored stoppers, "
        "loss of interest reaches task.cancel through error_to_message and run_driving_pipe, and "
        "ServerObservation.trigger / the loop form a lossy latest-value hand-over without an await between "
        "reading and re-arming; the message layer is order-preserving per remote (FIFO backlog, no confirmable "
        "message overtakes it, the released item is the dequeued head: C14.b/c/d called as C08.i), so the order on "
        "the wire is the order of submission.  Paper step: with these premises the Observe values of one registration are "
        "strictly increasing, every exit of the render task runs the callback once, and each listed "
        "termination cause cancels the task.  Eventual transmission under every schedule is not decided."
    ),
    rule_text="symbolic path enumeration with value numbering (must-alias of locals and attribute chains, boolean locals as formulas over per-path decisions, counters and itertools.count as polynomials), def-use resolution of values through locals / tuples / conditional expressions / loop and comprehension elements / unexpanded helpers, uniform callables (lambda, nested def, bound method, functools.partial), every spelling of a dict read / removal, dominance and must-pass rules on per-function CFGs, field-writer enumeration, class resolution through imports",
)

OBS = "interfaces.ObservableResource._render_to_pipe"
TM = "tokenmanager.TokenManager."
MM = "messagemanager.MessageManager."


# ---------------------------------------------------------------------------
# local helpers (kept in this module on purpose: rule modules are independent)


def _rn(cfg, astnode):
    """reachable CFG nodes of the statement containing astnode"""
    return [i for i in cfg.locate(astnode) if cfg.is_reachable(i)]


def _n1(ctx, cfg, astnode, what):
    ids = _rn(cfg, astnode)
    ctx.need(bool(ids), "%s is not reachable in the CFG" % what)
    return ids[0]


def _kw(call, name, pos=None):
    for k in call.keywords:
        if k.arg == name:
            return k.value
    if pos is not None and len(call.args) > pos and not any(isinstance(a, ast.Starred) for a in call.args):
        return call.args[pos]
    return None


def _enclosing_loop(cfg, node):
    p = cfg.parent.get(id(node))
    child = node
    while p is not None and not isinstance(p, (ast.FunctionDef, ast.AsyncFunctionDef, ast.Lambda)):
        if isinstance(p, (ast.While, ast.For, ast.AsyncFor)) and any(child is s for s in p.body):
            return p
        child = p
        p = cfg.parent.get(id(p))
    return None


def _inside(root, node):
    return any(n is node for n in ast.walk(root))


def _strip_not(e, truth=True):
    while isinstance(e, ast.UnaryOp) and isinstance(e.op, ast.Not):
        e = e.operand
        truth = not truth
    return e, truth


def _truth_nodes(cfg, L, truth):
    """branch pseudo-nodes on which expression L is known to be `truth`."""
    L, truth = _strip_not(L, truth)
    out = set()
    for n in cfg.nodes:
        if n.kind in ("T", "F") and cfg.is_reachable(n.id) and n.ast is not None and same(n.ast, L):
            if (n.kind == "T") == truth:
                out.add(n.id)
    return out


def _cls_of(ctx, fi, e):
    c = chain(e)
    return ctx.prog.resolve_in_module(fi.module, c) if c else None


class _Add:
    def __init__(self, cfg, call, nid):
        self.call = call
        self.nid = nid
        self.resp = _kw(call, "response", 0)
        self.last = _kw(call, "is_last", 1)
        if self.last is None:
            self.kind = "nonfinal"
        elif isinstance(self.last, ast.Constant):
            self.kind = "final" if self.last.value else "nonfinal"
        else:
            self.kind = "var"
        self.loop = _enclosing_loop(cfg, call)


class _Obs:
    pass


def _obs_parts(ctx):
    P = _Obs()
    fi = P.fi = ctx.prog.func(OBS)
    p = params(fi)
    ctx.need(len(p) == 1, "%s signature changed" % OBS)
    P.pipe = p[0]
    ctx.need(not writes_to_name(fi.node, P.pipe), "the pipe parameter is rebound")
    cfg = P.cfg = cfg_of(fi)
    P.flow = K.Flow(ctx.prog, fi, cfg)
    P.sym = None
    cands = []
    for n in walk_no_nested(fi.node):
        if isinstance(n, ast.Assign) and len(n.targets) == 1 and isinstance(n.targets[0], ast.Name) and isinstance(n.value, ast.Call):
            if _cls_of(ctx, fi, n.value.func) == "aiocoap.protocol.ServerObservation":
                cands.append(n)
    ctx.need(len(cands) == 1, "expected exactly one ServerObservation() local, found %d" % len(cands))
    P.so = cands[0].targets[0].id
    ctx.need(len(writes_to_name(fi.node, P.so)) == 1, "the ServerObservation local is rebound")
    regs = [c for c, b in find("self.add_observation($*a, $**k)", fi.node) if any(isinstance(x, ast.Name) and x.id == P.so for x in list(c.args) + [k.value for k in c.keywords])]
    ctx.need(len(regs) == 1, "expected one add_observation(..., %s) call, found %d" % (P.so, len(regs)))
    P.reg = regs[0]
    P.O = _n1(ctx, cfg, P.reg, "add_observation call")
    P.after_reg = [d for d, lab in cfg.succ[P.O] if lab != "exc"]
    P.adds = []
    for c, _ in find("%s.add_response($*a, $**k)" % P.pipe, fi.node):
        for nid in _rn(cfg, c):
            if cfg.dominates(P.O, nid):
                P.adds.append(_Add(cfg, c, nid))
    # at least an initial response and a notification (the confirmed tree has three sites; a refactoring may merge the
    # two initial ones into one call with a computed is_last)
    ctx.floor("add_response sites after registration", len(P.adds), 2)
    P.loops = []
    for A in P.adds:
        if A.loop is not None and not any(A.loop is l for l in P.loops):
            P.loops.append(A.loop)
    ctx.need(len(P.loops) == 1, "expected one notification loop, found %d" % len(P.loops))
    P.loop = P.loops[0]
    P.head = _n1(ctx, cfg, P.loop, "notification loop")
    return P


def _witness(cfg, starts, through, to, skip=()):
    """a statement from which `to` is entered without passing `through`"""
    r = cfg.reach(set(starts), avoid=set(through), skip_labels=skip, include_src=True)
    for n in sorted(r):
        if any(d == to and lab not in skip for d, lab in cfg.succ[n]) and cfg.nodes[n].ast is not None:
            return cfg.nodes[n].ast
    return None


# ---------------------------------------------------------------------------
# symbolic paths of _render_to_pipe (shared by C08.a, C08.d, C08.f)


def _parse(src):
    return ast.parse(src, mode="eval").body


class _Iter:
    """one path through one iteration of the notification loop (q), and, when it comes back to the loop head,
    the continuations from there up to the first statement of the body or the function's exit (after)"""

    def __init__(self, q):
        self.q = q
        self.after = []

    def outcomes(self):
        if self.q.end == "exit":
            return {"return"}
        if self.q.end == "stop":
            return {"reenter" if a.end == "stop" else "leave" if a.end == "exit" else a.end for a in self.after}
        return {self.q.end}

    def later_events(self):
        """events after the iteration when the loop is left through its test"""
        return [e for a in self.after if a.end != "stop" for e in a.events]


def _stored_names(cfg, nodes):
    out = set()
    for nid in nodes:
        a = cfg.nodes[nid].ast
        if a is None or cfg.nodes[nid].kind in ("T", "F"):
            continue
        roots = [a.target] if cfg.nodes[nid].kind == "for" else [a]
        for r in roots:
            for n in walk_no_nested(r):
                if isinstance(n, ast.Name) and isinstance(n.ctx, (ast.Store, ast.Del)):
                    out.add(n.id)
    return out


def _obs_sym(ctx, P):
    """Path model of the function: `pre` = paths from the entry to the first arrival at the loop head (or to an
    earlier exit); `iters` = paths through one *generic* iteration: the locals written in the loop and the heap are
    unknown at the head, counters are symbolic; an iteration path that leaves through the loop's own test without
    executing a body statement is not an iteration (that case is decided where the head is reached: `first_after`
    for the first arrival, `_Iter.after` for every later one)."""
    if getattr(P, "sym", None) is not None:
        return
    cfg = P.cfg
    S = P.sym = K.Sym(ctx.prog, P.fi, cfg, P.flow)
    head = P.head
    cyc = {n for n in cfg.reach({head}, skip_labels=("exc",)) if head in cfg.reach({n}, skip_labels=("exc",))} | {head}
    ltests = {n.id for n in cfg.nodes if n.stmt is P.loop and n.kind in ("test", "T", "F")}
    inner = cyc - ltests - {head}
    ctx.need(bool(inner), "the notification loop has no body in the CFG")
    P.inner = inner
    P.pre = S.run(cfg.entry, stop_at={head})
    P.arrivals = [p for p in P.pre if p.end == "stop"]
    ctx.need(bool(P.arrivals), "the notification loop is not reached on any path")
    P.so_tok = P.arrivals[0].st.val.get(P.so)
    ctx.need(P.so_tok is not None and all(p.st.val.get(P.so) == P.so_tok for p in P.arrivals), "the ServerObservation local has no unique binding at the loop")
    written = _stored_names(cfg, inner)
    P.iters = []
    P.first_after = []
    for p in P.arrivals:
        P.first_after.extend(S.run(head, p.st, stop_at=inner))
        st = p.st.fork()
        st.epoch += 1000
        st.heap = {}
        for nm in written:
            st.val[nm] = ("head", nm)
        for k_, v in list(st.cells.items()):
            st.cells[k_] = Poly.atom(k_) if isinstance(v, Poly) else ("iter", Poly.atom(k_), v[2])
        for q in S.run(head, st, stop_at={head}):
            if not (set(q.nodes) & inner):
                continue
            it = _Iter(q)
            if q.end == "stop":
                it.after = S.run(head, q.st, stop_at=inner)
            P.iters.append(it)
    ctx.need(bool(P.iters), "no path through the notification loop")


class _Send:
    def __init__(self, P, ev, path):
        self.ev = ev
        self.call = ev.call
        self.nid = ev.nid
        self.resp = _kw(ev.call, "response", 0)
        self.last = _kw(ev.call, "is_last", 1)
        self.obj = ev.tok_of(self.resp) if self.resp is not None else None
        self.flag = ("const", False) if self.last is None else ev.formula_of(self.last)
        self.value = K.evalf(self.flag, path.st.dec)  # True: final, False: keeps the observation open, None: not decided on the path


def _sends(P, path, events=None):
    out = []
    for ev in (path.events if events is None else events):
        if ev.kind == "call" and ev.meth == "add_response" and ev.recv == ("n", P.pipe):
            out.append(_Send(P, ev, path))
    return out


def _observe_store_events(path, obj=None):
    """Observe option stores `<obj>.opt.observe = v` on a path"""
    out = []
    for ev in path.events:
        if ev.kind == "store" and ev.attr == "observe" and ev.base[0] == "a" and ev.base[2] == "opt":
            if obj is None or ev.base[1] == obj:
                out.append(ev)
    return out


def _before(path, ev_a, ev_b):
    return path.events.index(ev_a) < path.events.index(ev_b)


# ---------------------------------------------------------------------------
# C08.a


def _observe_stores(P):
    out = []
    for n in walk_no_nested(P.fi.node):
        if isinstance(n, (ast.Assign, ast.AugAssign, ast.AnnAssign)):
            tgts = n.targets if isinstance(n, ast.Assign) else [n.target]
            for t in tgts:
                if isinstance(t, ast.Attribute) and t.attr == "observe" and isinstance(t.value, ast.Attribute) and t.value.attr == "opt":
                    out.append((n, t))
    return out


def _cval(p):
    v = p.const_value() if p is not None else None
    return v


@R.clause("C08.a", "Observe counter: the initial response carries a constant, the first notification a larger value, every later notification a value at least one above the previous one on every pair of paths, stored on the object that is sent")
def a(ctx):
    """Decided on the symbolic paths (kit: Sym).  The counter may be an integer local (`n = 0`, `n += 1`, any
    polynomial update) or an `itertools.count(start[, step])` iterator read with `next()`; both are cells whose
    value is a polynomial over the cell's value at the loop head.  For a path i through one iteration that sends a
    notification which may keep the observation open: p_i = stored Observe value - counter at the head, e_i = counter
    at the end of the iteration - counter at the head.  Consecutive notifications are strictly increasing iff
    e_i + p_j - p_i >= 1 for all i, j (and iterations that send nothing never decrease the counter); the first
    notification exceeds the initial response iff c_0 + p_j >= v_0 + 1.  No statement position, local name or
    update spelling enters."""
    P = _obs_parts(ctx)
    _obs_sym(ctx, P)
    fi, cfg = P.fi, P.cfg
    nonfinal = [A for A in P.adds if A.kind != "final"]
    first = [A for A in nonfinal if A.loop is None]
    inloop = [A for A in nonfinal if A.loop is not None]
    ctx.floor("initial responses that keep the observation open", len(first), 1)
    ctx.floor("notification sites in the loop", len(inloop), 1)
    for n, t in _observe_stores(P):
        ctx.need(isinstance(n, ast.Assign), "Observe option store outside the rule's vocabulary: %s" % stmt_text(n))
    # --- initial response(s): every path that reaches the loop
    v0s = []
    c0 = {}
    for p in P.arrivals:
        opens = [s for s in _sends(P, p) if s.value is not True]
        for s in opens:
            sts = [ev for ev in _observe_store_events(p, s.obj) if _before(p, ev, s.ev)]
            if not ctx.ob("the initial response of an accepted observation carries an Observe value", bool(sts), fi, s.call):
                continue
            ev = sts[-1]
            v = _cval(ev.poly)
            ctx.ob("the initial Observe value is a constant in [0, 2**23)", v is not None and v.denominator == 1 and 0 <= v < 2 ** 23, fi, ev.stmt, detail="initial value %r" % (ev.poly,))
            if v is not None:
                v0s.append(v)
        for k_, v in p.st.cells.items():
            c0.setdefault(k_, []).append(v if isinstance(v, Poly) else v[1])
    # --- one generic iteration
    rel = []  # (p_i, e_i, send, path) per notification that may keep the observation open
    idle = []  # iterations that come back to the head without such a notification
    counters = set()
    for it in P.iters:
        q = it.q
        opens = [s for s in _sends(P, q) if s.value is not True]
        if not opens:
            if "reenter" in it.outcomes():
                idle.append(it)
            continue
        for s in opens:
            sts = [ev for ev in _observe_store_events(q, s.obj) if _before(q, ev, s.ev)]
            if not ctx.ob("every non-final notification is preceded, in its iteration, by the counter advance and the Observe store on the object that is sent", bool(sts), fi, s.call,
                          detail=None if sts else ("Observe stores on this path: %d (on another object)" % len(_observe_store_events(q)) if _observe_store_events(q) else "no Observe store on a path to a notification that keeps the observation open")):
                continue
            ctx.ob("exactly one Observe store per notification", len(sts) == 1, fi, sts[-1].stmt, detail="%d stores" % len(sts))
            ev = sts[-1]
            ctx.need(ev.poly is not None, "stored Observe value is not arithmetic over a counter: %s" % stmt_text(ev.stmt))
            ats = sorted(ev.poly.atoms())
            ctx.need(len(ats) == 1, "cannot identify the Observe counter in %s" % stmt_text(ev.stmt))
            c = ats[0]
            counters.add(c)
            pi = ev.poly - Poly.atom(c)
            ctx.need(pi.const_value() is not None, "stored Observe value is not counter + constant: %s" % stmt_text(ev.stmt))
            end = q.st.cells.get(c)
            end = end[1] if isinstance(end, tuple) else end
            ctx.need(end is not None and (end - Poly.atom(c)).const_value() is not None, "counter update outside the rule's vocabulary on a path through %s" % stmt_text(ev.stmt))
            rel.append((pi.const_value(), (end - Poly.atom(c)).const_value(), s, ev))
    if not ctx.ob("the notification loop stores an Observe value", bool(rel), fi, inloop[0].call):
        return
    ctx.need(len(counters) == 1, "several Observe counters: %s" % sorted(counters))
    c = counters.pop()
    inits = c0.get(c, [])
    ok_init = len(inits) == len(P.arrivals) and all(_cval(v) is not None for v in inits) and len({_cval(v) for v in inits}) == 1
    ctx.ob("the counter is initialised before the loop, to the same constant on every path", ok_init, fi, rel[0][3].stmt, detail="values at the loop head: %s" % (inits,))
    for it in idle:
        end = it.q.st.cells.get(c)
        end = end[1] if isinstance(end, tuple) else end
        d = (end - Poly.atom(c)).const_value() if end is not None else None
        ctx.ob("an iteration that sends no Observe value does not decrease the counter", d is not None and d >= 0, fi, rel[0][3].stmt, detail="advance %s" % d)
    worst = min(ei + pj - pi for pi, ei, _, _ in rel for pj, _, _, _ in rel)
    ctx.ob("each notification's Observe value exceeds the previous notification's (advance per iteration >= 1)", worst >= 1, fi, rel[0][3].stmt, detail="least difference between consecutive notifications: %s" % worst)
    if ok_init and v0s:
        iv = _cval(inits[0])
        lo = min(pj for pj, _, _, _ in rel)
        ctx.ob("the first notification's Observe value exceeds the one on the initial response", iv + lo >= max(v0s) + 1, fi, rel[0][3].stmt, detail="first notification carries %s, initial response %s" % (iv + lo, max(v0s)))
        ctx.ob("the initial counter value is a constant in [0, 2**23)", iv.denominator == 1 and 0 <= iv < 2 ** 23, fi, rel[0][3].stmt, detail="initial value %r" % (iv,))


# ---------------------------------------------------------------------------
# C08.b


@R.clause("C08.b", "the cancellation callback runs on every exit after registration (return, exception, task cancellation) and at most once per path, never without registration")
def b(ctx):
    P = _obs_parts(ctx)
    fi, cfg = P.fi, P.cfg
    calls = [c for c, _ in find("%s._cancellation_callback()" % P.so, fi.node)]
    ctx.floor("cancellation callback call sites", len(calls), 1)
    Cn = set()
    for c in calls:
        Cn |= set(_rn(cfg, c))
    ctx.need(bool(Cn), "cancellation callback unreachable")
    # a path on which the observation is known to be declined needs (and has) no callback
    declined = _truth_nodes(cfg, ast.parse("%s._accepted" % P.so, mode="eval").body, False)
    w = _witness(cfg, P.after_reg, Cn | declined, cfg.exit)
    ctx.ob("every return after the registration passes the cancellation callback", w is None, fi, w if w is not None else calls[0],
           detail=None if w is None else "normal exit reached without the callback")
    w = _witness(cfg, P.after_reg, Cn | declined, cfg.rexit)
    ctx.ob("every exception after the registration (including cancellation at an await) passes the cancellation callback", w is None, fi, w if w is not None else calls[0],
           detail=None if w is None else "exception exit reached without the callback")
    for c in calls:
        ids = _rn(cfg, c)
        ctx.ob("the cancellation callback runs at most once on any path", not any(cfg.reach({i}) & Cn for i in ids), fi, c)
        ctx.ob("the cancellation callback is only reachable after the observation was offered to the resource", all(cfg.dominates(P.O, i) for i in ids), fi, c)
    # accept() is what binds the callback
    af = ctx.prog.func("protocol.ServerObservation.accept")
    ap = params(af)
    ctx.need(len(ap) == 1, "ServerObservation.accept signature changed")
    st = [n for k, n in stores_to(af.node, "self._cancellation_callback") if k == "assign"]
    ctx.floor("stores of _cancellation_callback in accept", len(st), 1)
    for n in st:
        ctx.ob("accept() installs the callback it was given", isinstance(n, ast.Assign) and isinstance(n.value, ast.Name) and n.value.id == ap[0] and not writes_to_name(af.node, ap[0]), af, n)
    acc = [n for k, n in stores_to(af.node, "self._accepted") if k == "assign"]
    ctx.ob("accept() marks the observation accepted", any(isinstance(n, ast.Assign) and isinstance(n.value, ast.Constant) and n.value.value is True for n in acc), af, af.node, construct="ServerObservation.accept")
    writers = {}
    for f2 in ctx.prog.funcs.values():
        if f2.module is af.module or f2.module is fi.module:
            for k, n in stores_to_any(f2.node, "_cancellation_callback"):
                writers.setdefault(f2.short, []).append(n)
    foreign = [(f, n) for f, ns in writers.items() for n in ns if f not in (af.short, "protocol.ServerObservation.__init__")]
    ctx.ob("accept() is the only writer of _cancellation_callback (besides a default in the constructor)", not foreign, ctx.prog.func(foreign[0][0]) if foreign else af, foreign[0][1] if foreign else af.node,
           construct=None if foreign else "ServerObservation.accept")


# ---------------------------------------------------------------------------
# C08.c


def _denotes(cb, e, outer_name):
    """does expression e inside callable cb denote the creating scope's local/parameter `outer_name`?"""
    if not isinstance(e, ast.Name):
        return False
    o = cb.outer(e.id)
    return isinstance(o, ast.Name) and o.id == outer_name


def _receiver(call):
    """X of a call X._observations.<m>(...)"""
    f = call.func
    if isinstance(f, ast.Attribute) and isinstance(f.value, ast.Attribute):
        return f.value.value
    return None


@R.clause("C08.c", "resource.ObservableResource: the object added to _observations is the one the accept() callback removes; both paths report len(_observations) afterwards; no foreign writer; updated_state triggers every member")
def c(ctx):
    """The cancellation callback may be a nested def, a lambda (default-argument capture or free variables), a bound
    method or functools.partial over any of these (kit: resolve_callable): what matters is which objects of
    add_observation the names inside the callable denote."""
    prog = ctx.prog
    fi = prog.func("resource.ObservableResource.add_observation")
    p = params(fi)
    ctx.need(len(p) == 2, "add_observation signature changed")
    so = p[1]
    selfn = fi.node.args.args[0].arg
    ctx.need(not writes_to_name(fi.node, so) and not writes_to_name(fi.node, selfn), "the serverobservation parameter is rebound")
    cfg = cfg_of(fi)
    F = "%s._observations" % selfn
    adds = [n for k, n in stores_to(fi.node, F, nested=False) if k == "add"]
    ctx.floor("insertions into _observations", len(adds), 1)
    ctx.ob("exactly one insertion into _observations per registration", len(adds) == 1, fi, adds[-1], detail="%d insertions" % len(adds))
    for ad in adds:
        ctx.ob("the inserted object is the ServerObservation handed in", len(ad.args) == 1 and isinstance(ad.args[0], ast.Name) and ad.args[0].id == so, fi, ad)
    accepts = [(c_, b) for c_, b in find("%s.accept($cb)" % so, fi.node)]
    ctx.floor("accept() calls", len(accepts), 1)
    an = set()
    for c_, _ in accepts:
        an |= set(_rn(cfg, c_))
    ctx.ob("every registration that was inserted is accepted with a cancellation callback", cfg.must_pass(cfg.entry, an), fi, accepts[0][0])
    COUNT = "%s.update_observation_count(len(%s._observations))"
    upd = [c_ for c_, _ in find(COUNT % (selfn, selfn), fi.node)]
    un = set()
    for c_ in upd:
        un |= set(_rn(cfg, c_))
    for ad in adds:
        a_id = _n1(ctx, cfg, ad, "insertion")
        ctx.ob("after the insertion every normal path reports len(_observations) to update_observation_count", bool(un) and all(cfg.must_pass(d, un) for d, lab in cfg.succ[a_id] if lab != "exc"), fi, ad)
    allowed = {id(n) for n in adds}
    for call, b in accepts:
        cb = K.resolve_callable(prog, fi, b["cb"])
        ctx.need(cb is not None, "accept() callback is not a callable the rule can resolve (nested def, lambda, bound method, functools.partial): %s" % stmt_text(call))
        ctx.need(not cb.free_params(), "the cancellation callback still expects arguments: %s" % stmt_text(call))
        rem = [(k, n) for k, n in stores_to_any(cb.fnode, "_observations") if k in ("remove", "discard")]
        other = [(k, n) for k, n in stores_to_any(cb.fnode, "_observations") if k not in ("remove", "discard")]
        if not ctx.ob("the cancellation callback removes an entry from _observations", len(rem) == 1 and not other, fi, call, construct="callback of " + stmt_text(call), detail="%d removals, %d other stores" % (len(rem), len(other))):
            continue
        rn = rem[0][1]
        allowed.add(id(rn))
        recv = _receiver(rn)
        arg = rn.args[0] if len(rn.args) == 1 else None
        ctx.ob("the callback removes the object that was inserted", _denotes(cb, arg, so), fi, rn)
        ctx.ob("the callback acts on the same resource instance", _denotes(cb, recv, selfn), fi, rn)
        ccfg = cfg_of(cb.fi) if cb.fi is not None else CFG(cb.fnode)
        r_id = [i for i in ccfg.locate(rn) if ccfg.is_reachable(i)]
        ctx.need(bool(r_id), "removal unreachable in callback")
        cu = set()
        if isinstance(recv, ast.Name):
            for c_, _ in find(COUNT % (recv.id, recv.id), cb.fnode):
                cu |= {i for i in ccfg.locate(c_) if ccfg.is_reachable(i)}
        ctx.ob("after the removal every normal path reports len(_observations) to update_observation_count",
               bool(cu) and all(ccfg.must_pass(d, cu) for d, lab in ccfg.succ[r_id[0]] if lab != "exc"), fi, rn)
        ctx.ob("the removal is on every path of the callback", ccfg.must_pass(ccfg.entry, set(r_id)), fi, rn)
        if cb.fi is not None:
            # a method used as the callback: nobody else may call it (it would remove a live registration)
            refs = [n for n in ast.walk(fi.module.tree) if isinstance(n, ast.Attribute) and n.attr == cb.fnode.name and isinstance(n.ctx, ast.Load)]
            ctx.ob("the method that removes a registration is used only as the cancellation callback", len(refs) == 1, fi, call, detail="%d references" % len(refs))
    # writers of the field inside the class
    ci = prog.cls("resource.ObservableResource")
    nw = 0
    for f2 in prog.funcs.values():
        if not f2.qn.startswith(ci.qn + "."):
            continue
        for k, n in stores_to_any(f2.node, "_observations"):
            nw += 1
            if f2.name == "__init__" and k == "assign":
                ctx.ob("_observations starts as an empty set", isinstance(n, ast.Assign) and match("set()", n.value) is not None, f2, n)
            elif id(n) not in allowed:
                ctx.ob("no store to _observations outside insertion and callback removal", False, f2, n)
    ctx.floor("stores to _observations in resource.ObservableResource", nw, 3)
    # updated_state
    uf = prog.func("resource.ObservableResource.updated_state")
    up = params(uf)
    ctx.need(len(up) == 1, "updated_state signature changed")
    loops = [n for n in walk_no_nested(uf.node) if isinstance(n, ast.For) and _field_iter(n.iter, "self._observations") is not None]
    ctx.floor("loops over _observations in updated_state", len(loops), 1)
    ucfg = cfg_of(uf)
    for lp in loops:
        ctx.need(isinstance(lp.target, ast.Name), "loop target not a name")
        trig = [c_ for c_, b in find("%s.trigger($*a, $**k)" % lp.target.id, lp)]
        ok = bool(trig)
        for t in trig:
            arg = _kw(t, "response", 0)
            ok = ok and isinstance(arg, ast.Name) and arg.id == up[0] and not writes_to_name(uf.node, up[0])
            tn = _n1(ctx, ucfg, t, "trigger call")
            inner = [e for e, pol, nid in ucfg.guards(tn) if e is not lp and _inside(lp, e)]
            ok = ok and not inner
        ctx.ob("updated_state triggers every registered observation with the given response, unconditionally", ok, uf, lp, construct="for ... in self._observations: trigger")
        ctx.ob("updated_state reaches the loop on every path", ucfg.must_pass(ucfg.entry, set(_rn(ucfg, lp))), uf, lp, construct="for ... in self._observations")


def _field_iter(e, field):
    """('items'|'values'|'keys'|'self', copied?) when e iterates the field"""
    copied = False
    while isinstance(e, ast.Call) and chain(e.func) in ("list", "tuple", "set", "dict", "sorted") and len(e.args) == 1:
        e = e.args[0]
        copied = True
    if isinstance(e, ast.Call) and isinstance(e.func, ast.Attribute) and e.func.attr == "copy" and not e.args:
        e = e.func.value
        copied = True
    if chain(e) == field:
        return ("self", copied)
    if isinstance(e, ast.Call) and isinstance(e.func, ast.Attribute) and e.func.attr in ("items", "values", "keys") and not e.args:
        base = e.func.value
        if isinstance(base, ast.Call) and isinstance(base.func, ast.Attribute) and base.func.attr == "copy":
            base = base.func.value
            copied = True
        if chain(base) == field:
            return (e.func.attr, copied)
    return None


# ---------------------------------------------------------------------------
# C08.d


@R.clause("C08.d", "the observation is kept open only if accepted, not deregistered and successful; in the loop is_last <=> _late_deregister or not code.is_successful(); nothing is sent after a final response and every return is preceded by one")
def d(ctx):
    """Decided on the symbolic paths: the value of the is_last argument at each add_response (a constant, a local
    holding a boolean expression, the expression itself, or a flag set on branches) is compared, per path and for
    every completion of the conditions the path left open, with the reference condition evaluated in the state of
    the call (same response object, no suspension point between the condition and the call)."""
    P = _obs_parts(ctx)
    _obs_sym(ctx, P)
    fi, cfg = P.fi, P.cfg
    first = [A for A in P.adds if A.kind != "final" and A.loop is None]
    inloop = [A for A in P.adds if A.loop is not None]
    ctx.floor("initial responses that keep the observation open", len(first), 1)
    ctx.floor("notification sites in the loop", len(inloop), 1)
    # --- before the loop
    for p in P.pre:
        sends = _sends(P, p)
        for i, s in enumerate(sends):
            if s.value is not True:
                ctx.need(s.resp is not None, "add_response without a response argument")
                r = ast.unparse(s.resp)
                for desc, src, want in (
                    ("the observation is kept open only if the resource accepted it", "%s._accepted" % P.so, True),
                    ("the observation is kept open only if it was not deregistered during the first rendering", "%s._early_deregister" % P.so, False),
                    ("the observation is kept open only if the first response is successful", "(%s).code.is_successful()" % r, True),
                ):
                    got = K.evalf(s.ev.formula_of(_parse(src)), p.st.dec)
                    ctx.ob(desc, got is want, fi, s.call, detail=None if got is want else ("not decided on a path to this response" if got is None else "the opposite holds on a path to this response"))
            if s.value is not False:
                ctx.ob("after a final response no further response is added", not sends[i + 1:], fi, s.call)
        if p.end == "stop":
            ctx.ob("notifications start only after the initial response", any(s.value is not True for s in sends), fi, (first[0].call if first else P.reg))
        if p.end == "exit" and P.O in p.nodes:
            ctx.ob("every return after registration is preceded by a response that can be final", any(s.value is not False for s in sends), fi, _last_stmt(cfg, p) or P.reg)
    for a_ in P.first_after:
        if a_.end == "exit":
            ctx.ob("every return after registration is preceded by a response that can be final", False, fi, P.loop, construct="notification loop", detail="the loop can be skipped after the initial response")
    # --- in the loop
    for it in P.iters:
        q = it.q
        sends = _sends(P, q)
        outs = it.outcomes()
        ctx.need(not (outs - {"return", "reenter", "leave", "rexit"}), "iteration of the notification loop ends in an inner loop the rule cannot follow")
        for i, s in enumerate(sends):
            ctx.need(s.resp is not None, "add_response without a response argument")
            ref = s.ev.formula_of(_parse("%s._late_deregister or not (%s).code.is_successful()" % (P.so, ast.unparse(s.resp))))
            okf, cex = K.equivalent_under(s.flag, ref, q.st.dec)
            ctx.ob("is_last <=> _late_deregister or not response.code.is_successful()", okf, fi, s.call, construct="is_last of " + stmt_text(s.call),
                   detail=None if okf else "the flag and the condition differ (or are not decided) for: %s" % (cex or "a path through the call"))
            later = sends[i + 1:] + _sends(P, q, it.later_events())
            if s.value is not False:
                ctx.ob("after a final notification the loop is not re-entered", "reenter" not in outs, fi, s.call)
                ctx.ob("after a final notification no further response is added", not later, fi, s.call)
            if s.value is not True:
                ctx.ob("a non-final notification keeps the loop running (no return while is_last is false)", not (outs & {"return", "leave"}), fi, s.call)
        if outs & {"return", "leave"}:
            allsends = sends + _sends(P, q, it.later_events())
            ctx.ob("every return after registration is preceded by a response that can be final", any(s.value is not False for s in allsends), fi, _last_stmt(cfg, q) or P.reg)


# ---------------------------------------------------------------------------
# C08.e  termination wiring
#
# Every sub-rule below states a *value-flow* fact ("the callable passed here IS the value read/stored there") through
# kit.Flow.origins, which follows locals, tuple (un)packing, conditional expressions, loop/comprehension elements and
# small helpers; dictionary accesses are recognised in every spelling by Flow.entry_read.

TMF = "self.incoming_requests"


def _single(o):
    return o[0] if len(o) == 1 else (None, None)


def _same_value(o1, o2):
    a, b = _single(o1), _single(o2)
    return a[0] is not None and a[0] is b[0] and a[1] == b[1]


def _is_param_value(flow, e, at, param):
    v, p = _single(flow.origins(e, at))
    return isinstance(v, ast.Name) and v.id == param and p == () and param in flow.params and not writes_to_name(flow.fnode, param)


def _not_none(o):
    return [(v, p) for v, p in o if not (isinstance(v, ast.Constant) and v.value is None)]


def _is_req_key(flow, e, at, req):
    v, p = _single(flow.origins(e, at))
    b = match("($a, $b)", v) if v is not None and p == () and isinstance(v, ast.AST) else None
    return b is not None and chain(b["a"]) == req + ".token" and chain(b["b"]) == req + ".remote"


def _noarg_calls(root):
    return [c for c in calls_in(root) if not c.args and not c.keywords]


def _default_of(read):
    """default expression of a keyed read (`d.pop(k, D)`, `d.get(k[, D])`); 'raise' when the read raises KeyError"""
    if isinstance(read, ast.Subscript):
        return "raise"
    if read.func.attr == "get":
        return read.args[1] if len(read.args) > 1 else ast.Constant(value=None)
    if read.func.attr in ("pop", "setdefault"):
        return read.args[1] if len(read.args) > 1 else "raise"
    return "raise"


def _none_at(e, path):
    while path and isinstance(e, (ast.Tuple, ast.List)) and len(e.elts) > path[0]:
        e, path = e.elts[path[0]], path[1:]
    return isinstance(e, ast.Constant) and e.value is None


def _presence_nodes(flow, cfg, F, reads, key_ok):
    """(tests, absent): the branch pseudo-nodes / handler nodes on which it is known whether the entry the keyed
    `reads` of dict F address exists -- `k in F`, `x is None` / `x is not None` / `x` for a read with a None
    default (`F.get(k)`, `F.pop(k, None)`), the KeyError handler around `F[k]` / `F.pop(k)`; `absent` are those on
    which there is no entry."""
    def from_read(e, at):
        o = flow.origins(e, at)
        return bool(o) and all(any(v is r for r in reads) for v, pth in o), o

    member, absent = set(), set()
    for n in cfg.nodes:
        if n.kind not in ("T", "F") or not cfg.is_reachable(n.id) or n.ast is None:
            continue
        e_ = n.ast
        if isinstance(e_, ast.Compare) and len(e_.ops) == 1 and isinstance(e_.ops[0], (ast.In, ast.NotIn)) and flow.denotes_field(e_.comparators[0], F, n.id) and key_ok(e_.left, n.id):
            member.add(n.id)
            if (n.kind == "T") != isinstance(e_.ops[0], ast.In):
                absent.add(n.id)
            continue
        subj, none_when = None, None
        if isinstance(e_, ast.Compare) and len(e_.ops) == 1 and isinstance(e_.comparators[0], ast.Constant) and e_.comparators[0].value is None and isinstance(e_.ops[0], (ast.Is, ast.IsNot, ast.Eq, ast.NotEq)):
            subj, none_when = e_.left, isinstance(e_.ops[0], (ast.Is, ast.Eq))
        elif isinstance(e_, ast.Name):
            subj, none_when = e_, False
        if subj is not None:
            ok_, o = from_read(subj, n.id)
            if ok_ and all(_default_of(v) != "raise" and _none_at(_default_of(v), pth) for v, pth in o):
                member.add(n.id)
                if (n.kind == "T") == none_when:
                    absent.add(n.id)
    for t in walk_no_nested(flow.fnode):
        if isinstance(t, ast.Try) and any(_inside(ast.Module(body=t.body, type_ignores=[]), r) and _default_of(r) == "raise" for r in reads):
            for h in t.handlers:
                if h.type is None or (chain(h.type) or "").split(".")[-1] in ("KeyError", "LookupError", "Exception"):
                    absent |= set(_rn(cfg, h))
    return member, absent


def _e_process_request(ctx):
    prog = ctx.prog
    fi = prog.func(TM + "process_request")
    p = params(fi)
    ctx.need(len(p) == 1 and not writes_to_name(fi.node, p[0]), "process_request signature changed or request rebound")
    req = p[0]
    cfg = cfg_of(fi)
    flow = K.Flow(prog, fi, cfg)
    F = TMF
    sts = [n for k, n in stores_to(fi.node, F, nested=False) if k == "setitem"]
    ctx.floor("insertions into incoming_requests", len(sts), 1)
    ctx.need(len(sts) == 1 and isinstance(sts[0], ast.Assign) and len(sts[0].targets) == 1 and isinstance(sts[0].targets[0], ast.Subscript), "insertion into incoming_requests outside the rule's vocabulary")
    ST = sts[0]
    st = _n1(ctx, cfg, ST, "insertion")
    ctx.ob("the request is registered under (token, remote)", _is_req_key(flow, ST.targets[0].slice, st, req), fi, ST)
    val, vp = _single(flow.origins(ST.value, st))
    ctx.need(isinstance(val, ast.Tuple) and vp == () and len(val.elts) == 2, "stored entry is not a pair")
    po = flow.origins(val.elts[0], st)
    pv, pp = _single(po)
    ok_pipe = pp == () and isinstance(pv, ast.Call) and _cls_of(ctx, fi, pv.func) == "aiocoap.pipe.Pipe"
    if ok_pipe:
        a0 = _kw(pv, "request", 0)
        ok_pipe = isinstance(a0, ast.Name) and a0.id == req
    ctx.ob("the stored pipe is a fresh Pipe around this request", ok_pipe, fi, ST)
    so_ = flow.origins(val.elts[1], st)
    sv, sp = _single(so_)
    b = match("$p.on_event($h, $**k)", sv) if sp == () and isinstance(sv, ast.AST) else None
    handler = K.resolve_callable(prog, fi, b["h"]) if b is not None else None
    same_pipe = b is not None and _same_value(flow.origins(b["p"], _n1(ctx, cfg, sv, "on_event registration")), po)
    ctx.ob("the stored stopper unregisters the event handler of the stored pipe", handler is not None and same_pipe, fi, ST, detail="stopper = %s" % (stmt_text(sv) if isinstance(sv, ast.AST) else sv))
    # --- override of an existing request on the same key
    reads = []
    for n in walk_no_nested(fi.node):
        if isinstance(n, (ast.Subscript, ast.Call)) and not isinstance(getattr(n, "ctx", None), (ast.Store, ast.Del)):
            ids = _rn(cfg, n)
            if ids:
                er = flow.entry_read(n, F, ids[0])
                if er is not None and er[0] == "value" and er[1] is not None and _is_req_key(flow, er[1], ids[0], req):
                    reads.append(n)
    readnodes = {i for n in reads for i in _rn(cfg, n)}

    def from_read(e, at, want_path=None):
        """every value e can denote is (a component of) the entry read under the request key"""
        o = flow.origins(e, at)
        return bool(o) and all(any(v is r for r in reads) and (want_path is None or pth == want_path) for v, pth in o), o

    stops = set()
    for call in _noarg_calls(fi.node):
        cn = _rn(cfg, call)
        if cn and from_read(call.func, cn[0], (1,))[0]:
            stops.add(cn[0])
    member, absent = _presence_nodes(flow, cfg, F, reads, lambda e_, at: _is_req_key(flow, e_, at, req))
    anchor = reads[0] if reads else ST
    ctx.ob("an existing request on the same (token, remote) is detected before the new one is stored", bool(reads) and cfg.must_pass(cfg.entry, readnodes | member, to=st), fi, anchor)
    ctx.ob("the stopper of the overridden request is called before the new pipe is stored", bool(stops) and cfg.must_pass(cfg.entry, stops | absent, to=st), fi, anchor,
           detail="%d stopper call(s) on the override path" % len(stops))
    # --- rendering starts only after the bookkeeping is complete
    rend = [c for c, bb in find("self.context.render_to_pipe($x)", fi.node)]
    ctx.floor("render_to_pipe calls in process_request", len(rend), 1)
    for c in rend:
        cn = _n1(ctx, cfg, c, "render_to_pipe call")
        ctx.ob("rendering is started on the stored pipe, after it was stored", _same_value(flow.origins(c.args[0], cn), po) and cfg.dominates(st, cn), fi, c)
    ctx.ob("every request that is stored is also rendered", cfg.must_pass(st, {i for c in rend for i in _rn(cfg, c)}), fi, ST)
    # --- cleanup on interest end
    ends = [(c, bb) for c, bb in find("$p.on_interest_end($f)", fi.node) if _rn(cfg, c) and _same_value(flow.origins(bb["p"], _rn(cfg, c)[0]), po)]
    okc = False
    for c, bb in ends:
        cn = _rn(cfg, c)[0]
        fexpr = bb["f"]
        fo, fp_ = _single(flow.origins(fexpr, cn))
        if isinstance(fo, ast.Call) and K._is_partial(prog, fi, fo) and fo.args and isinstance(fo.args[0], ast.Attribute) and fo.args[0].attr == "pop" \
                and flow.denotes_field(fo.args[0].value, F, cn) and len(fo.args) >= 2 and _is_req_key(flow, fo.args[1], cn, req):
            okc = True  # functools.partial(self.incoming_requests.pop, key[, default])
            continue
        cb = K.resolve_callable(prog, fi, fexpr)
        if cb is None or cb.free_params():
            continue
        for k, n in stores_to_any(cb.fnode, "incoming_requests"):
            key = recv = None
            if k == "delitem":
                key, recv = n.targets[0].slice, n.targets[0].value
            elif k == "pop" and n.args:
                key, recv = n.args[0], n.func.value
            if key is None or not (isinstance(recv, ast.Attribute) and _denotes(cb, recv.value, "self")):
                continue
            outer = cb.outer(key.id) if isinstance(key, ast.Name) else None
            if outer is not None and _is_req_key(flow, outer, cfg.exit if isinstance(outer, ast.Name) and cb.closure and key.id == outer.id else cn, req):
                okc = True
    ctx.ob("the entry is removed from incoming_requests when interest in the pipe ends", okc, fi, ends[0][0] if ends else ST)
    return fi, cfg, flow, ST, st, so_, handler


def _e_monitor(ctx, fi, cfg, flow, ST, st, so_, handler):
    """the event handler hands the stopper to the token interface as message-error monitor"""
    if handler is None:
        return
    selfn = None
    for nm in ("self",):
        o = handler.outer(nm)
        if isinstance(o, ast.Name) and o.id == "self":
            selfn = nm
    sends = [(c, b) for c, b in find("$s.token_interface.send_message($*a, $**k)", handler.fnode) if _denotes(handler, b["s"], "self")]
    ctx.floor("send_message calls in the event handler", len(sends), 1)
    for c, b in sends:
        mon = _kw(c, "messageerror_monitor", 1)
        ok = False
        if isinstance(mon, ast.Name):
            outer = handler.outer(mon.id)
            if isinstance(outer, ast.Name) and handler.closure and outer.id == mon.id and handler.bind.get(mon.id) is None:
                # free variable: the binding live when the handler runs is the one at the end of process_request
                ok = _same_value(flow.origins(outer, cfg.exit), so_) and _same_value(flow.origins(outer, st), so_)
            elif outer is not None:
                ok = _same_value(flow.origins(outer, st), so_)
        ctx.ob("the message-error monitor passed with every response is the stored stopper of this request", ok, fi, c, detail="monitor argument: %s" % (stmt_text(mon) if mon is not None else "missing"))


def _passes_param(ctx, fi, flow, callpat, argpos, kwname, param, what, floor=1):
    cfg = flow.cfg
    calls = [c for c, _ in find(callpat, fi.node)]
    ctx.floor("%s in %s" % (what, fi.short), len(calls), floor)
    for c in calls:
        a = _kw(c, kwname, argpos)
        cn = _rn(cfg, c)
        ctx.ob("%s passes the message-error monitor on unchanged" % fi.short.split(".")[-1], a is not None and bool(cn) and _is_param_value(flow, a, cn[0], param), fi, c)


def _arg_origins(flow, call, kwname, pos, at):
    """origins of the argument a call passes for parameter (kwname / position pos): a keyword, a positional
    argument, or component (pos - i) of a starred tuple at position i (`f(*entry)`)"""
    for k in call.keywords:
        if k.arg == kwname:
            return flow.origins(k.value, at)
    for i, a in enumerate(call.args):
        if isinstance(a, ast.Starred):
            return [flow._index(v, pth + (pos - i,)) for v, pth in flow.origins(a.value, at)]
        if i == pos:
            return flow.origins(a, at)
    return []


def _is_entry_of(flow, e, at, field):
    """every (non-None) value of e is the value of an entry of the dict in `field` (F[k], F.get(k), F.setdefault(k, d))"""
    o = _not_none(flow.origins(e, at))
    return bool(o) and all(pth == () and isinstance(v, ast.AST) and (flow.entry_read(v, field, at) or (None,))[0] == "value" for v, pth in o)


def _e_message_layer(ctx):
    prog = ctx.prog
    sm = prog.func(MM + "send_message")
    sp = params(sm)
    ctx.need(len(sp) == 2, "MessageManager.send_message signature changed")
    sflow = K.Flow(prog, sm)
    _passes_param(ctx, sm, sflow, "self._send_initially($*a, $**k)", 1, "messageerror_monitor", sp[1], "_send_initially calls")
    apps = []
    for c in calls_in(sm.node):
        if isinstance(c.func, ast.Attribute) and c.func.attr in ("append", "appendleft", "insert") and _rn(sflow.cfg, c) and _is_entry_of(sflow, c.func.value, _rn(sflow.cfg, c)[0], "self._backlogs"):
            apps.append(c)
    ctx.floor("backlog insertions in send_message", len(apps), 1)
    for n in apps:
        at = _rn(sflow.cfg, n)[0]
        t, tp_ = _single(sflow.origins(n.args[-1], at)) if n.args else (None, None)
        ctx.ob("a backlogged message keeps its message-error monitor", isinstance(t, ast.Tuple) and tp_ == () and len(t.elts) == 2 and _is_param_value(sflow, t.elts[1], at, sp[1]), sm, n)
    cb = prog.func(MM + "_continue_backlog")
    cflow = K.Flow(prog, cb)
    ccfg = cflow.cfg
    nsend = 0
    for c, _ in find("self._send_initially($*a, $**k)", cb.node):
        cn = _rn(ccfg, c)
        if not cn:
            continue
        mv, mp_ = _single(_arg_origins(cflow, c, "messageerror_monitor", 1, cn[0]))
        gv, gp = _single(_arg_origins(cflow, c, "message", 0, cn[0]))
        ok = isinstance(mv, ast.Call) and isinstance(mv.func, ast.Attribute) and mv.func.attr in ("pop", "popleft") and mp_ == (1,) and gv is mv and gp == (0,) \
            and bool(_rn(ccfg, mv)) and _is_entry_of(cflow, mv.func.value, _rn(ccfg, mv)[0], "self._backlogs")
        nsend += 1
        ctx.ob("a message leaving the backlog is sent with the monitor it was queued with", ok, cb, c)
    ctx.floor("backlog removals in _continue_backlog", nsend, 1)
    si = prog.func(MM + "_send_initially")
    ip = params(si)
    ctx.need(len(ip) == 2, "_send_initially signature changed")
    _passes_param(ctx, si, K.Flow(prog, si), "self._add_exchange($*a, $**k)", 1, "messageerror_monitor", ip[1], "_add_exchange calls")
    ae = prog.func(MM + "_add_exchange")
    ap = params(ae)
    ctx.need(len(ap) == 2, "_add_exchange signature changed")
    aflow = K.Flow(prog, ae)
    ins = [n for k, n in stores_to(ae.node, "self._active_exchanges", nested=False) if k == "setitem"]
    ctx.floor("exchange insertions", len(ins), 1)
    for n in ins:
        at = _rn(aflow.cfg, n)
        v, vp_ = _single(aflow.origins(n.value, at[0])) if isinstance(n, ast.Assign) and at else (None, None)
        ctx.ob("the exchange stores the message-error monitor of the message", isinstance(v, ast.Tuple) and vp_ == () and len(v.elts) == 2 and _is_param_value(aflow, v.elts[0], at[0], ap[1]), ae, n)
    rt = prog.func(MM + "_retransmit")
    rflow = K.Flow(prog, rt)
    rcfg = rflow.cfg
    reins = [n for k, n in stores_to(rt.node, "self._active_exchanges", nested=False) if k == "setitem"]
    ctx.floor("exchange re-insertions in _retransmit", len(reins), 1)
    for n in reins:
        nid = _n1(ctx, rcfg, n, "re-insertion")
        v, vp_ = _single(rflow.origins(n.value, nid)) if isinstance(n, ast.Assign) else (None, None)
        ok = isinstance(v, ast.Tuple) and vp_ == () and len(v.elts) == 2
        if ok:
            mv, mp_ = _single(rflow.origins(v.elts[0], nid))
            ok = isinstance(mv, ast.AST) and mp_ == (0,) and (rflow.entry_read(mv, "self._active_exchanges", nid) or (None,))[0] == "value"
        ctx.ob("a retransmitted exchange keeps its message-error monitor", ok, rt, n)
    rm = prog.func(MM + "_remove_exchange")
    mp = params(rm)
    mflow = K.Flow(prog, rm)
    mcfg = mflow.cfg
    fired = []
    readsites = {}
    for c in _noarg_calls(rm.node):
        cn = _rn(mcfg, c)
        if not cn:
            continue
        v, vp_ = _single(mflow.origins(c.func, cn[0]))
        if isinstance(v, ast.AST) and vp_ == (0,) and (mflow.entry_read(v, "self._active_exchanges", cn[0]) or (None,))[0] == "value" and _rn(mcfg, v):
            fired.append((c, cn[0], _rn(mcfg, v)[0]))
    pops = [n for n in walk_no_nested(rm.node) if isinstance(n, (ast.Call, ast.Subscript)) and not isinstance(getattr(n, "ctx", None), (ast.Store, ast.Del)) and _rn(mcfg, n)
            and (mflow.entry_read(n, "self._active_exchanges", _rn(mcfg, n)[0]) or (None,))[0] == "value"]
    ctx.floor("exchange reads in _remove_exchange", len(pops), 1)
    if ctx.ob("a Reset on a notification fires the stored message-error monitor", bool(fired), rm, pops[0]):
        from ..paths import PathModel
        subj = "%s.mtype" % mp[0]
        pm = PathModel(rm, subjects={subj: ["CON", "NON", "ACK", "RST"]})
        for r in sorted({r for _, _, r in fired}):
            calls_r = {cn for _, cn, r2 in fired if r2 == r}
            rd = [v for v in pops if mflow.site(v) == r]
            _, absent = _presence_nodes(mflow, mcfg, "self._active_exchanges", rd, lambda e_, at: True)
            bad = [p_ for p_ in pm.paths() if r in p_.nodes and p_.end in ("return", "fall") and p_.values.get(subj, "RST") == "RST" and not (absent & set(p_.nodes))
                   and not any(x in calls_r and p_.nodes.index(x) > p_.nodes.index(r) for x in p_.nodes)]
            ctx.ob("no condition other than the message type stands between a matching Reset and the monitor", not bad, rm, [c for c, _, r2 in fired if r2 == r][0],
                   detail=None if not bad else "a path on which the monitor is not fired for a Reset: %s" % pm.describe(bad[0]))


# -- collections of stoppers -----------------------------------------------------------------------------------


class _Sel:
    """a selection of stoppers out of incoming_requests: the loop or comprehension (scope) that scans the table,
    the stopper element, the conditions under which an entry is taken, whether the table was copied for the scan"""

    def __init__(self, scope, elem, conds, copied, site):
        self.scope, self.elem, self.conds, self.copied, self.site = scope, elem, conds, copied, site


def _conj(e, pol=True):
    """[(atomic condition, polarity)] of a conjunction; None when e is not a conjunction of literals"""
    while isinstance(e, ast.UnaryOp) and isinstance(e.op, ast.Not):
        e, pol = e.operand, not pol
    if isinstance(e, ast.BoolOp) and ((isinstance(e.op, ast.And) and pol) or (isinstance(e.op, ast.Or) and not pol)):
        out = []
        for v in e.values:
            r = _conj(v, pol)
            if r is None:
                return None
            out.extend(r)
        return out
    if isinstance(e, ast.BoolOp):
        return None
    return [(e, pol)]


def _stopper_sel(flow, cfg, e, at, F):
    """_Sel when every value of e is the stopper (component 1 of the value) of an entry produced by scanning F"""
    o = flow.origins(e, at)
    if len(o) != 1:
        return None
    v, pth = o[0]
    if isinstance(v, ast.AST):
        # F[k] / F.get(k) under the key the scan is at: the value of that entry
        er = flow.entry_read(v, F, flow.site(v, at))
        if er is None or er[0] != "value" or er[1] is None or pth != (1,):
            return None
        kv, kp = _single(flow.origins(er[1], flow.site(v, at)))
        if not (isinstance(kv, K.Elem) and flow.entry_read(kv, F) is not None and K.entry_component(flow.entry_read(kv, F)[0], kp) == ("key", ())):
            return None
        v = kv
    else:
        if not isinstance(v, K.Elem):
            return None
        er = flow.entry_read(v, F)
        if er is None or K.entry_component(er[0], pth) != ("value", (1,)):
            return None
    copied = K.unwrap_iter(v.it)[1]
    if isinstance(v.it, ast.Call) and isinstance(v.it.func, ast.Attribute) and v.it.func.attr in ("items", "values", "keys"):
        copied = copied or K.unwrap_iter(v.it.func.value)[1]
    if isinstance(v.scope, (ast.For, ast.AsyncFor)):
        conds = [(c_, pol) for c_, pol, g in cfg.guards(at) if c_ is not v.scope and _inside(v.scope, c_)] if at is not None else None
    else:
        conds = []
        for g in v.scope.generators:
            for i_ in g.ifs:
                cj = _conj(i_)
                conds = None if (conds is None or cj is None) else conds + cj
    return _Sel(v.scope, v, conds, copied, at)


def _elements(flow, cfg, e, at, F, depth=6):
    """([_Sel] of the stopper selections among the elements of collection expression e at node `at`, understood?)"""
    if depth == 0 or e is None:
        return [], False
    if isinstance(e, ast.Starred):
        return _elements(flow, cfg, e.value, at, F, depth - 1)
    if isinstance(e, (ast.List, ast.Tuple, ast.Set)):
        out = []
        for x in e.elts:
            if isinstance(x, ast.Starred):
                r = _elements(flow, cfg, x.value, at, F, depth - 1)[0]
                for s_ in r:
                    s_.lazy = False  # a display evaluates its starred parts at once
                out.extend(r)
            else:
                s_ = _stopper_sel(flow, cfg, x, at, F)
                if s_ is not None:
                    out.append(s_)
        return out, True
    if isinstance(e, (ast.ListComp, ast.SetComp, ast.GeneratorExp)):
        s_ = _stopper_sel(flow, cfg, e.elt, at, F)
        if s_ is not None and s_.scope is e:
            if isinstance(e, ast.GeneratorExp):
                s_.lazy = True
            return [s_], True
        return [], True
    if isinstance(e, ast.BinOp) and isinstance(e.op, ast.Add):
        a, oka = _elements(flow, cfg, e.left, at, F, depth - 1)
        b, okb = _elements(flow, cfg, e.right, at, F, depth - 1)
        return a + b, oka and okb
    if isinstance(e, ast.Call):
        c = chain(e.func)
        if c in ("list", "tuple", "set", "sorted", "reversed", "iter") and len(e.args) == 1:
            r, ok = _elements(flow, cfg, e.args[0], at, F, depth - 1)
            for s_ in r:
                s_.lazy = False
            return r, ok
        if c in ("itertools.chain", "chain"):
            out, ok = [], True
            for x in e.args:
                r, k = _elements(flow, cfg, x, at, F, depth - 1)
                out.extend(r)
                ok = ok and k
            return out, ok
        return [], False
    if isinstance(e, ast.Name):
        ws, live = flow.reaching(e.id, at)
        if live or not ws:
            return [], False
        out, ok = [], True
        wids = {nid for nid, _ in flow.write_nodes(e.id)}
        for nid, w in ws:
            if isinstance(w, ast.Assign) and len(w.targets) == 1 and isinstance(w.targets[0], ast.Name):
                r, k = _elements(flow, cfg, w.value, nid, F, depth - 1)
                out.extend(r)
                ok = ok and k
            elif isinstance(w, ast.AugAssign) and isinstance(w.op, ast.Add):
                r, k = _elements(flow, cfg, w.value, nid, F, depth - 1)
                for s_ in r:
                    s_.lazy = False
                out.extend(r)
                r2, k2 = _elements_before(flow, cfg, e, nid, F, depth - 1)
                out.extend(r2)
                ok = ok and k and k2
            else:
                ok = False
        # mutations of the list that can still be in effect at `at`
        for c in calls_in(flow.fnode):
            if isinstance(c.func, ast.Attribute) and isinstance(c.func.value, ast.Name) and c.func.value.id == e.id and c.func.attr in ("append", "extend", "add", "update", "insert", "appendleft"):
                for cn in flow.rn(c):
                    if cn != at and at in cfg.reach({cn}, avoid=wids - {at}):
                        if c.func.attr in ("append", "add", "insert", "appendleft") and c.args:
                            s_ = _stopper_sel(flow, cfg, c.args[-1], cn, F)
                            if s_ is not None:
                                out.append(s_)
                        elif c.args:
                            r, k = _elements(flow, cfg, c.args[0], cn, F, depth - 1)
                            for s_ in r:
                                s_.lazy = False  # extend()/update() consume their argument at once
                            out.extend(r)
                            ok = ok and k
        return out, ok
    return [], False


def _elements_before(flow, cfg, name_node, nid, F, depth):
    """elements of a list just before the augmented assignment at node nid"""
    preds = [p for p, lab in cfg.pred[nid] if lab != "exc"]
    if len(preds) != 1:
        return [], False
    return _elements(flow, cfg, ast.Name(id=name_node.id, ctx=ast.Load()), nid, F, depth)


def _early_returns(cfg, site):
    """return nodes that are not reachable from the scan (exits taken before it) under an `... is None` guard"""
    after = cfg.reach({site}, include_src=True)
    return {n.id for n in cfg.nodes if n.kind == "return" and n.id not in after and cfg.is_reachable(n.id)
            and any(isinstance(e, ast.Compare) and isinstance(e.ops[0], (ast.Is, ast.IsNot)) and isinstance(e.comparators[0], ast.Constant) and e.comparators[0].value is None
                    for e, pol, g in cfg.guards(n.id))}


def _e_dispatch_error(ctx):
    """Stoppers of the failing remote's incoming requests are selected by equality of the remote alone and every one
    of them is called -- whether the scan is a loop with append, a comprehension, `extend(<generator>)`, a
    concatenation of lists, or calls the stoppers directly over a copy of the table."""
    prog = ctx.prog
    fi = prog.func(TM + "dispatch_error")
    p = params(fi)
    ctx.need(len(p) == 2, "TokenManager.dispatch_error signature changed")
    remote = p[1]
    ctx.need(not writes_to_name(fi.node, remote), "remote parameter rebound")
    cfg = cfg_of(fi)
    flow = K.Flow(prog, fi, cfg)
    F = TMF
    used = []  # (_Sel, call, call node, run loop or None)
    for c in _noarg_calls(fi.node):
        cn = _rn(cfg, c)
        if not cn:
            continue
        s_ = _stopper_sel(flow, cfg, c.func, cn[0], F)
        if s_ is not None:
            used.append((s_, c, cn[0], None))
            continue
        v, pth = _single(flow.origins(c.func, cn[0]))
        if isinstance(v, K.Elem) and pth == () and isinstance(v.scope, (ast.For, ast.AsyncFor)):
            heads = _rn(cfg, v.scope)
            if heads:
                sels, _ = _elements(flow, cfg, v.it, heads[0], F)
                for s_ in sels:
                    used.append((s_, c, cn[0], v.scope))
    # collection sites that exist although nothing calls what they collect
    scans = [n for n in ast.walk(fi.node) if isinstance(n, (ast.For, ast.ListComp, ast.SetComp, ast.GeneratorExp)) and not isinstance(n, ast.Lambda)
             and flow.entry_read(K.Elem(n.iter if isinstance(n, ast.For) else n.generators[0].iter, n), F) is not None]
    anchor = scans[0] if scans else fi.node
    if not ctx.ob("the stopper of a matching incoming request is called or collected, and every collected stopper is called after the scan", bool(used), fi, anchor,
                  construct="scan of self.incoming_requests" if scans else "TokenManager.dispatch_error"):
        return
    seen = set()
    for s_, c, cn, run in used:
        site = s_.site if s_.site is not None else cn
        scan_nodes = _rn(cfg, s_.scope)
        ctx.need(bool(scan_nodes), "scan of incoming_requests unreachable")
        sn = scan_nodes[0]
        if id(s_.scope) not in seen:
            seen.add(id(s_.scope))
            outer = [(e, pol) for e, pol, g in cfg.guards(sn)]
            bad = [e for e, pol in outer if not isinstance(e, ast.stmt) and (remote in names_in(e) or p[0] in names_in(e) or not all((chain(x) or "").startswith("self.") for x in ast.walk(e) if isinstance(x, ast.Attribute) and isinstance(x.value, ast.Name)))]
            ctx.ob("the scan over incoming requests is reached for every error outside shutdown", not bad and cfg.must_pass(cfg.entry, {sn} | _early_returns(cfg, sn)), fi, s_.scope,
                   construct="scan of self.incoming_requests", detail="; ".join(stmt_text(e) for e in bad) or None)
            if isinstance(s_.scope, ast.For):
                cut = [n for n in walk_no_nested(s_.scope) if isinstance(n, (ast.Break, ast.Return)) and n is not s_.scope]
                ctx.ob("the scan covers the whole table", not cut, fi, cut[0] if cut else s_.scope, construct=None if cut else "scan of self.incoming_requests")
            # selection condition
            eq, rest = [], []
            if s_.conds is None:
                rest.append(s_.scope)
            for e, pol in (s_.conds or []):
                e2, pol2 = e, pol
                while isinstance(e2, ast.UnaryOp) and isinstance(e2.op, ast.Not):
                    e2, pol2 = e2.operand, not pol2
                good = False
                if isinstance(e2, ast.Compare) and len(e2.ops) == 1 and ((isinstance(e2.ops[0], ast.Eq) and pol2) or (isinstance(e2.ops[0], ast.NotEq) and not pol2)):
                    sides = [e2.left, e2.comparators[0]]
                    rs = [x for x in sides if isinstance(x, ast.Name) and x.id == remote]
                    os_ = [x for x in sides if not (isinstance(x, ast.Name) and x.id == remote)]
                    if len(rs) == 1 and len(os_) == 1:
                        at_ = (flow.rn(e2) or [site])[0]
                        v, pth = _single(flow.origins(os_[0], at_))
                        if isinstance(v, K.Elem) and v.scope is s_.scope and flow.entry_read(v, F) is not None and K.entry_component(flow.entry_read(v, F)[0], pth) == ("key", (1,)):
                            good = True
                (eq if good else rest).append(e)
            ctx.ob("requests are selected by equality of their remote with the failing remote, and by nothing else", len(eq) >= 1 and not rest, fi, s_.scope if not isinstance(s_.scope, ast.For) else c,
                   construct="selection in the scan of self.incoming_requests",
                   detail=("other conditions: %s" % "; ".join(stmt_text(e) for e in rest)) if rest else None)
        if run is None:
            ctx.ob("stoppers (which modify incoming_requests) are not called while the dict is iterated", s_.copied, fi, c)
        else:
            ctx.ob("stoppers (which modify incoming_requests) are not called while the dict is iterated", not getattr(s_, "lazy", False) or s_.copied, fi, c)
            inner = [e for e, pol, g in cfg.guards(cn) if e is not run and _inside(run, e)]
            h2 = set(_rn(cfg, run))
            after = [d for x in ([site] if site is not None else []) for d, lab in cfg.succ[x] if lab != "exc"]
            fnodes = [n.id for n in cfg.nodes if n.kind == "F" and n.ast is s_.scope and cfg.is_reachable(n.id)] if isinstance(s_.scope, ast.For) else after
            ctx.ob("every collected stopper is called after the scan", not inner and bool(h2) and all(cfg.must_pass(f_, h2) for f_ in fnodes) and not _inside(s_.scope, run), fi, c)


def _e_shutdown(ctx):
    prog = ctx.prog
    fi = prog.func(TM + "shutdown")
    cfg = cfg_of(fi)
    flow = K.Flow(prog, fi, cfg)
    F = TMF
    resets = [n for k, n in stores_to(fi.node, F, nested=False) if k == "assign"]
    done = False
    handled = set()
    for c in _noarg_calls(fi.node):
        cn = _rn(cfg, c)
        if not cn:
            continue
        v, pth = _single(flow.origins(c.func, cn[0]))
        if v is None or not isinstance(v, (ast.AST, K.Elem)):
            continue
        if isinstance(v, K.Elem) and isinstance(v.scope, ast.For) and id(v.scope) not in handled and _rn(cfg, v.scope):
            # `for ... in <generator that drains the table>`: the while-loop below, with the emptiness test and the
            # removing read living in the generator (kit: draining_generator states and argues the conditions)
            dr = K.draining_generator(flow, v.it, F, _rn(cfg, v.scope)[0])
            if dr is not None and K.entry_component(dr.kind, dr.path + pth) == ("value", (1,)):
                lp = v.scope
                handled.add(id(lp))
                what = "for ... in <drain of self.incoming_requests>"
                inner = [e for e, pol, g in cfg.guards(cn[0]) if e is not lp and _inside(lp, e)]
                cut = [n for n in walk_no_nested(lp) if isinstance(n, (ast.Break, ast.Return))]
                ctx.ob("the stopper of every entry taken out at shutdown is called", not inner and not cut and _enclosing_loop(cfg, c) is lp, fi, lp, construct=what)
                ctx.ob("shutdown reaches the stop-all loop on every path", cfg.must_pass(cfg.entry, set(_rn(cfg, lp))), fi, lp, construct=what)
                fn = [n.id for n in cfg.nodes if n.kind == "F" and n.ast is lp and cfg.is_reachable(n.id)]
                for rs in resets:
                    ctx.ob("incoming_requests is dropped only after every request was stopped", all(any(cfg.dominates(f_, i) for f_ in fn) for i in _rn(cfg, rs)), fi, rs)
                done = True
                continue
        at_v = flow.site(v, cn[0])
        er = flow.entry_read(v, F, at_v)
        if er is None or K.entry_component(er[0], pth) != ("value", (1,)):
            continue
        scan = v if isinstance(v, K.Elem) else None
        if scan is None and er[1] is not None:
            # `for k in list(F): ... F.pop(k)[1]()` / `F[k][1]()`: the entry of the key the loop is at
            kv, kp = _single(flow.origins(er[1], at_v))
            if isinstance(kv, K.Elem) and flow.entry_read(kv, F) is not None and K.entry_component(flow.entry_read(kv, F)[0], kp) == ("key", ()):
                scan = kv
        if scan is not None:
            lp = scan.scope
            if not isinstance(lp, (ast.For, ast.AsyncFor)) or id(lp) in handled:
                continue
            handled.add(id(lp))
            copied = K.unwrap_iter(scan.it)[1] or (isinstance(scan.it, ast.Call) and isinstance(scan.it.func, ast.Attribute) and K.unwrap_iter(scan.it.func.value)[1])
            inner = [e for e, pol, g in cfg.guards(cn[0]) if e is not lp and _inside(lp, e)]
            ctx.ob("the stopper of every incoming request is called at shutdown", not inner, fi, lp, construct="for ... in self.incoming_requests")
            ctx.ob("stoppers (which modify incoming_requests) are not called while the dict is iterated", bool(copied), fi, lp, construct="for ... in self.incoming_requests")
            ctx.ob("shutdown reaches the stop-all loop on every path", cfg.must_pass(cfg.entry, set(_rn(cfg, lp))), fi, lp, construct="for ... in self.incoming_requests")
            fn = [n.id for n in cfg.nodes if n.kind == "F" and n.ast is lp and cfg.is_reachable(n.id)]
            for rs in resets:
                ctx.ob("incoming_requests is dropped only after every request was stopped", all(any(cfg.dominates(f_, i) for f_ in fn) for i in _rn(cfg, rs)), fi, rs)
            done = True
            continue
        if not er[2]:
            continue  # a read that leaves the entry in place does not drain the table
        lp = _enclosing_loop(cfg, c)
        if not isinstance(lp, ast.While) or id(lp) in handled:
            continue
        t = K.nonempty_test_subject(lp.test)  # `while F:`, `while len(F):`, `while len(F) > 0:`, `while F != {}:` ...
        head = _n1(ctx, cfg, lp, "shutdown loop")
        if t is None or not flow.denotes_field(t, F, head):
            continue
        handled.add(id(lp))
        tnode = [n.id for n in cfg.nodes if n.kind == "T" and n.stmt is lp and cfg.is_reachable(n.id)]
        fnode = [n.id for n in cfg.nodes if n.kind == "F" and n.stmt is lp and cfg.is_reachable(n.id)]
        ctx.need(bool(tnode), "loop test node missing")
        # all removing reads of the table inside the loop, and the calls of their stoppers
        pops = {}
        for c2 in _noarg_calls(lp):
            cn2 = _rn(cfg, c2)
            if not cn2:
                continue
            v2, p2 = _single(flow.origins(c2.func, cn2[0]))
            if isinstance(v2, ast.AST) and flow.site(v2) is not None:
                er2 = flow.entry_read(v2, F, flow.site(v2))
                if er2 is not None and er2[2] and K.entry_component(er2[0], p2) == ("value", (1,)):
                    pops.setdefault(flow.site(v2), set()).add(cn2[0])
        if not ctx.ob("each round of the shutdown loop takes an entry out of incoming_requests", bool(pops) and all(cfg.must_pass(t_, set(pops), to=head) for t_ in tnode), fi, lp, construct="while self.incoming_requests"):
            continue
        for nid, ks in sorted(pops.items()):
            ctx.ob("the stopper of every entry taken out at shutdown is called", bool(ks) and all(cfg.must_pass(d, ks, to=head) for d, lab in cfg.succ[nid] if lab != "exc"), fi, cfg.nodes[nid].ast)
        ctx.ob("shutdown reaches the stop-all loop on every path", cfg.must_pass(cfg.entry, set(fnode) | set(tnode)), fi, lp, construct="while self.incoming_requests")
        for rs in resets:
            ctx.ob("incoming_requests is dropped only after every request was stopped", all(any(cfg.dominates(f_, i) for f_ in fnode) for i in _rn(cfg, rs)), fi, rs)
        done = True
    ctx.ob("TokenManager.shutdown stops every incoming request", done, fi, resets[0] if resets else fi.node, construct=None if resets else "TokenManager.shutdown")


def _calls_of_name(fnode, name, root=None):
    return [c for c in calls_in(root if root is not None else fnode) if isinstance(c.func, ast.Name) and c.func.id == name and not c.args and not c.keywords]


def _cancels_task(prog, fi, flow, e, at):
    """the expression whose `.cancel` is what callable expression e invokes: `t.cancel`, `lambda: t.cancel()`,
    a nested def calling `t.cancel()`, functools.partial over these or over a module-level function / method that
    cancels its (bound) argument; else None.  The expression returned lives in the creating scope."""
    v, pth = _single(flow.origins(e, at))
    if pth != () or not isinstance(v, ast.AST):
        return None
    if isinstance(v, ast.Attribute) and v.attr == "cancel":
        return v.value
    cb = K.resolve_callable(prog, fi, v)
    if cb is not None and not cb.free_params():
        calls = [c for c in calls_in(cb.fnode) if isinstance(c.func, ast.Attribute) and c.func.attr == "cancel" and not c.args]
        # Callable_.outer answers for a non-closure only through bound parameters, so a name of a foreign scope is
        # never mistaken for a local of the creating function
        if len(calls) == 1 and isinstance(calls[0].func.value, ast.Name) and cb.outer(calls[0].func.value.id) is not None:
            always = True
            if not isinstance(cb.fnode, ast.Lambda):
                g = CFG(cb.fnode)
                always = g.must_pass(g.entry, set(g.locate(calls[0])))
            if always:
                return cb.outer(calls[0].func.value.id)
    return None


def _callee_name(call):
    """last component of the called name, also behind a call chain: `asyncio.get_running_loop().create_task`"""
    f = call.func
    return f.attr if isinstance(f, ast.Attribute) else f.id if isinstance(f, ast.Name) else None


def _runs_coroutine(prog, fi, flow, co, at, param):
    """Does the coroutine object `co` (the argument of create_task / ensure_future, evaluated at node `at`) run the
    coroutine held in parameter `param` of fi?  Either it IS that parameter (through locals), or it is the activation
    of a coroutine function -- nested def closing over the parameter, nested def / module-level function / method /
    functools.partial receiving it as an argument (positional or keyword) -- whose body awaits it (kit:
    invocation + awaited_values; the callee's own locals and a further delegating coroutine function are followed).
    Where the callee is defined and what it is called do not matter; which object its `await` denotes does."""
    for cv, cp in flow.origins(co, at):
        if cp != ():
            return False
        if isinstance(cv, ast.Call):
            inv = K.invocation(prog, fi, cv)
            if inv is None:
                return False
            site = flow.site(cv, at)
            # an argument is evaluated where the coroutine object is created; a free variable of a nested coroutine
            # function when the task runs, i.e. (fi is synchronous up to its exit) with the bindings at fi's exit
            if not any(_is_param_value(flow, o, flow.cfg.exit if late else site, param) for o, late in K.awaited_values(prog, fi, inv)):
                return False
        elif not (isinstance(cv, ast.Name) and _is_param_value(flow, cv, at, param)):
            return False
    return True


def _e_task_cancel(ctx):
    prog = ctx.prog
    fi = prog.func("pipe.run_driving_pipe")
    p = params(fi)
    ctx.need(len(p) >= 2 and not writes_to_name(fi.node, p[0]) and not writes_to_name(fi.node, p[1]), "run_driving_pipe signature changed")
    ctx.need(not fi.is_async and not any(isinstance(n, (ast.Await, ast.Yield, ast.YieldFrom)) for n in walk_no_nested(fi.node)), "run_driving_pipe is not a plain synchronous function")
    cfg = cfg_of(fi)
    flow = K.Flow(prog, fi, cfg)
    cbname = (params(prog.func("pipe.Pipe.on_interest_end")) or ["callback"])[0]
    regs = []
    for c in calls_in(fi.node):
        if isinstance(c.func, ast.Attribute) and c.func.attr == "on_interest_end" and _rn(cfg, c) and _is_param_value(flow, c.func.value, _rn(cfg, c)[0], p[0]):
            f_ = _kw(c, cbname, 0)
            if f_ is not None:
                regs.append((c, f_))
    ok = False
    node = fi.node
    for c, f_ in regs:
        cn = _n1(ctx, cfg, c, "on_interest_end call")
        node = c
        t = _cancels_task(prog, fi, flow, f_, cn)
        if t is None:
            continue
        tv, tp = _single(flow.origins(t, cfg.exit if not _rn(cfg, t) else cn))
        if tp == () and isinstance(tv, ast.Call) and _callee_name(tv) in ("create_task", "ensure_future"):
            co = _kw(tv, "coro" if _callee_name(tv) == "create_task" else "coro_or_future", 0)
            if co is not None and _runs_coroutine(prog, fi, flow, co, flow.site(tv, cn), p[1]):
                ok = cfg.must_pass(cfg.entry, {cn})
    ctx.ob("run_driving_pipe cancels the task that awaits the render coroutine when interest in the pipe ends", ok, fi, node, construct=None if regs else "run_driving_pipe")
    # error_to_message forwards loss of interest from the requester's pipe to the pipe the task is bound to
    ef = prog.func("pipe.error_to_message")
    ep = params(ef)
    ctx.need(len(ep) == 2 and not writes_to_name(ef.node, ep[0]), "error_to_message signature changed")
    ecfg = cfg_of(ef)
    eflow = K.Flow(prog, ef, ecfg)
    rets = [n for n in walk_no_nested(ef.node) if isinstance(n, ast.Return)]
    ctx.need(bool(rets) and all(r.value is not None for r in rets), "error_to_message does not return a pipe")
    ro = [eflow.origins(r.value, _n1(ctx, ecfg, r, "return")) for r in rets]
    nv, np_ = _single(ro[0])
    okn = np_ == () and isinstance(nv, ast.Call) and _cls_of(ctx, ef, nv.func) == "aiocoap.pipe.Pipe" and all(_same_value(o, ro[0]) for o in ro)
    fw = [(c, b) for c, b in find("%s.on_interest_end($f)" % ep[0], ef.node)]
    okf = False
    for c, b in fw:
        cn = _n1(ctx, ecfg, c, "on_interest_end call")
        v, vp = _single(eflow.origins(b["f"], cn))
        m = match("$n.on_event($h, $**k)", v) if vp == () and isinstance(v, ast.AST) else None
        if m is not None and _same_value(eflow.origins(m["n"], eflow.site(v, cn)), ro[0]) and K.resolve_callable(prog, ef, m["h"]) is not None and ecfg.must_pass(ecfg.entry, {cn}):
            okf = True
    ctx.ob("error_to_message drops the inner pipe's only interest when the requester's pipe ends", okn and okf, ef, fw[0][0] if fw else rets[0])
    cf = prog.func("protocol.Context.render_to_pipe")
    cp = params(cf)
    ccfg = cfg_of(cf)
    cflow = K.Flow(prog, cf, ccfg)
    runs = [c for c, b in find("run_driving_pipe($*a, $**k)", cf.node)]
    ctx.floor("run_driving_pipe calls in Context.render_to_pipe", len(runs), 1)
    for c in runs:
        cn = _n1(ctx, ccfg, c, "run_driving_pipe call")
        a0 = _kw(c, "pipe", 0)
        v, vp = _single(cflow.origins(a0, cn)) if a0 is not None else (None, None)
        m = match("error_to_message($p, $*r)", v) if isinstance(v, ast.AST) and vp == () else None
        okc = m is not None and _is_param_value(cflow, m["p"], cflow.site(v, cn), cp[0]) and _cls_of(ctx, cf, c.func) == "aiocoap.pipe.run_driving_pipe" and _cls_of(ctx, cf, v.func) == "aiocoap.pipe.error_to_message"
        ctx.ob("the render task is bound to the pipe whose interest error_to_message ties to the requester's pipe", okc, cf, c)
    # Pipe: unregistering the last interested handler ends the pipe, which runs the interest-end callbacks.
    # Symbolic paths: on every normal path on which the pipe has not ended already, the remaining interest is examined,
    # and when there is none the pipe is ended -- whatever the nesting, guard order, early returns or named conditions.
    uf = prog.func("pipe.Pipe._unregister_on_event")
    ucfg = cfg_of(uf)
    ends = [c for c, b in find("self._end()", uf.node)]
    oku = bool(ends)
    why = None
    if oku:
        S = K.Sym(prog, uf, ucfg)
        s0 = K.State()
        ended = S.formula(_parse("self._event_callbacks is False"), s0)
        interest = S.formula(_parse("self._any_interest()"), s0)
        for p_ in S.run(ucfg.entry):
            if p_.end != "exit" or K.evalf(ended, p_.st.dec) is True:
                continue
            t = K.evalf(interest, p_.st.dec)
            called = any(ev.kind == "call" and ev.meth == "_end" and ev.recv == ("n", "self") for ev in p_.events)
            if t is None or (t is False and not called):
                oku = False
                why = "a path that leaves the pipe open: %s" % ("remaining interest not examined" if t is None else "no interest left, _end() not called")
                break
    ctx.ob("unregistering the last interested handler ends the pipe", oku, uf, ends[0] if ends else uf.node, construct=None if ends else "Pipe._unregister_on_event", detail=why)
    nf = prog.func("pipe.Pipe._end")
    ncfg = cfg_of(nf)
    nflow = K.Flow(prog, nf, ncfg)
    okt = False
    where = nf.node
    for c in calls_in(nf.node):
        if len(c.args) == 1 and not c.keywords and _rn(ncfg, c):
            cn = _rn(ncfg, c)[0]
            tv, tp = _single(nflow.origins(c.args[0], cn))
            if tp == () and isinstance(tv, ast.Call) and chain(tv.func) in ("self.Event", "Pipe.Event"):
                last = _kw(tv, "is_last", 2)
                fv, fp_ = _single(nflow.origins(c.func, cn))
                if isinstance(fv, K.Elem):
                    where = c
                    it, _copied = K.unwrap_iter(fv.it)
                    at_it = (nflow.rn(fv.scope) or [cn])[0] if isinstance(fv.scope, ast.AST) else cn
                    iv, ip = _single(nflow.origins(it, at_it))
                    inner = [e for e, pol, g in ncfg.guards(cn) if isinstance(fv.scope, ast.For) and e is not fv.scope and _inside(fv.scope, e)]
                    if isinstance(last, ast.Constant) and last.value is True and ip == () and isinstance(iv, ast.AST) and chain(iv) == "self._event_callbacks" and fp_ == (0,) and not inner \
                            and not (isinstance(fv.scope, (ast.ListComp, ast.GeneratorExp, ast.SetComp)) and any(g.ifs for g in fv.scope.generators)):
                        okt = True
    ctx.ob("ending the pipe delivers a final event to every registered callback", okt, nf, where, construct=None if where is not nf.node else "Pipe._end")
    of = prog.func("pipe.Pipe.on_interest_end")
    op = params(of)
    ocfg = cfg_of(of)
    direct = {i for c in _calls_of_name(of.node, op[0]) for i in _rn(ocfg, c)}
    deferred = set()
    oflow = K.Flow(prog, of, ocfg)
    for k, n in stores_to(of.node, "self._event_callbacks", nested=False):
        if k == "append" and n.args and _rn(ocfg, n):
            tv, tp = _single(oflow.origins(n.args[0], _rn(ocfg, n)[0]))
            if not (isinstance(tv, ast.Tuple) and tp == () and len(tv.elts) == 2):
                continue
            fn, flag = tv.elts
            cb = K.resolve_callable(prog, of, fn)
            if cb is not None and cb.closure and any(isinstance(x, ast.Call) and isinstance(x.func, ast.Name) and isinstance(cb.outer(x.func.id), ast.Name) and cb.outer(x.func.id).id == op[0] for x in ast.walk(cb.fnode)) \
                    and any(isinstance(x, ast.Attribute) and x.attr == "is_last" for x in ast.walk(cb.fnode)) and isinstance(flag, ast.Constant) and flag.value is False:
                deferred |= set(_rn(ocfg, n))
    ctx.ob("an interest-end callback is either run at once or queued as a non-interest handler that runs it on the final event", bool(direct) and bool(deferred) and ocfg.must_pass(ocfg.entry, direct | deferred), of, of.node, construct="Pipe.on_interest_end")


@R.clause("C08.e", "termination wiring: override on the same (token, remote), stopper as message-error monitor down to the exchange table and the Reset arm, dispatch_error, shutdown, loss of interest -> task.cancel")
def e(ctx):
    fi, cfg, flow, ST, st, so_, handler = _e_process_request(ctx)
    _e_monitor(ctx, fi, cfg, flow, ST, st, so_, handler)
    _e_message_layer(ctx)
    _e_dispatch_error(ctx)
    _e_shutdown(ctx)
    _e_task_cancel(ctx)


# ---------------------------------------------------------------------------
# C08.f


def _is_new_future_call(e):
    return isinstance(e, ast.Call) and ((isinstance(e.func, ast.Attribute) and e.func.attr in ("create_future", "Future")) or chain(e.func) == "Future")


def _is_new_future(flow, e, at=None):
    """does e denote a freshly created future: `loop.create_future()` / `asyncio.Future()`, possibly behind a local
    or behind a small helper that returns one"""
    o = flow.origins(e, at)
    return bool(o) and all(not p and _is_new_future_call(v) for v, p in o)


def _last_stmt(cfg, path):
    """the statement a path ends with: its `return`, else its last statement"""
    for nid in reversed(path.nodes):
        if cfg.nodes[nid].kind == "return":
            return cfg.nodes[nid].ast
    for nid in reversed(path.nodes):
        n = cfg.nodes[nid]
        if n.ast is not None and n.kind in ("stmt", "return", "raise", "test"):
            return n.ast
    return None


def _trigger_side(ctx):
    """ServerObservation.trigger, on its symbolic paths: value numbers identify `self._trigger` with any local it
    was copied to, so `pending = self._trigger; if pending.done(): pending = self._trigger = new(); pending.set_result(r)`
    and the direct spelling are the same facts."""
    prog = ctx.prog
    tf = prog.func("protocol.ServerObservation.trigger")
    tp = params(tf)
    ctx.need(len(tp) >= 1, "trigger signature changed")
    flags = [a_.arg for a_ in tf.node.args.kwonlyargs + tf.node.args.args if a_.arg == "is_last"]
    ctx.need(len(flags) == 1, "trigger() has no is_last parameter")
    cfg = cfg_of(tf)
    flow = K.Flow(prog, tf, cfg)
    S = K.Sym(prog, tf, cfg, flow)
    paths = S.run(cfg.entry)
    selfname = tf.node.args.args[0].arg
    State0 = K.State()
    F0 = S.tok(_parse("%s._trigger" % selfname), State0)
    L0 = S.formula(_parse("%s._late_deregister" % selfname), State0)
    flag = S.formula(ast.Name(id=flags[0], ctx=ast.Load()), State0)
    nsets = 0
    for p in paths:
        if p.end != "exit":
            continue
        sets = [ev for ev in p.events if ev.kind == "call" and ev.meth == "set_result"]
        anchor = sets[0].call if sets else (_last_stmt(cfg, p) or tf.node)
        cur = [ev for ev in sets if ev.recv == ev.tok_of(_parse("%s._trigger" % selfname))]
        if not ctx.ob("set_result is reached on every path of trigger(), on the future the loop is (or will be) waiting on", len(cur) >= 1, tf, anchor,
                      construct=None if sets else "ServerObservation.trigger", detail="%d set_result call(s) on the path, %d on the current self._trigger" % (len(sets), len(cur))):
            continue
        nsets += 1
        ctx.ob("trigger() resolves a future at most once per call", len(sets) == 1, tf, sets[-1].call)
        ev = cur[0]
        ctx.ob("trigger() resolves the future with the response it was given", len(ev.args) == 1 and ev.args[0] == ("n", tp[0]), tf, ev.call)
        # the future resolved is not one that may already be done
        fresh = [st for st in p.events if st.kind == "store" and st.attr == "_trigger" and st.base == ("n", selfname) and st.value == ev.recv and _before(p, st, ev)
                 and _is_new_future(flow, st.expr if st.expr is not None else st.stmt.value, st.nid)]
        notdone = K.evalf(ev.formula_of(ast.Call(func=ast.Attribute(value=ev.call.func.value, attr="done", ctx=ast.Load()), args=[], keywords=[])), p.st.dec)
        ctx.ob("a future that is already done is replaced by a fresh one before set_result (no InvalidStateError, latest value wins)", bool(fresh) or notdone is False, tf, ev.call,
               detail=None if (fresh or notdone is False) else "set_result on a future that is not known to be pending on this path")
        if ev.recv == F0:
            pass
        else:
            # replaced: only when the old one was done (an undone future that is replaced would strand the loop's wait)
            olddone = p.st.dec.get(("t", ("call", ("a", F0, "done", 0), (), (), 0)))
            ctx.ob("the pending future is replaced only when it is already done", olddone is True, tf, ev.call)
        # _late_deregister at the time the loop is woken  <=>  old value or is_last
        lend = ev.formula_of(_parse("%s._late_deregister" % selfname))
        okl, cex = K.equivalent_under(lend, ("or", (L0, flag)), p.st.dec)
        marks = [st for st in p.events if st.kind == "store" and st.attr == "_late_deregister"]
        ctx.ob("trigger(is_last=True) marks the observation as finishing before the loop is woken, and only then", okl, tf, marks[0].stmt if marks else ev.call,
               detail=None if okl else "_late_deregister at set_result differs from (previous value or is_last) for: %s" % (cex or "this path"))
    ctx.floor("set_result sites in trigger", nsets, 1)
    init_f = prog.func("protocol.ServerObservation.__init__")
    iflow = K.Flow(prog, init_f)
    ist = [n for k, n in stores_to(init_f.node, "self._trigger", nested=False) if k == "assign"]
    ctx.ob("a ServerObservation starts with an unresolved future", len(ist) == 1 and isinstance(ist[0], ast.Assign) and _is_new_future(iflow, ist[0].value), init_f, ist[0] if ist else init_f.node, construct=None if ist else "ServerObservation.__init__")
    lst = [n for k, n in stores_to(init_f.node, "self._late_deregister", nested=False) if k == "assign"]
    ctx.ob("a ServerObservation starts as not finishing", len(lst) == 1 and isinstance(lst[0], ast.Assign) and isinstance(lst[0].value, ast.Constant) and lst[0].value.value is False, init_f, lst[0] if lst else init_f.node, construct=None if lst else "ServerObservation.__init__")


@R.clause("C08.f", "lossy latest-value hand-over: trigger() re-arms a done future before set_result and marks is_last first; the loop waits, reads, re-arms without an intervening await and renders only for a None result")
def f(ctx):
    _trigger_side(ctx)
    # the consuming loop, per path through one iteration
    P = _obs_parts(ctx)
    _obs_sym(ctx, P)
    fi, cfg = P.fi, P.cfg
    so = P.so_tok
    inloop = [A for A in P.adds if A.loop is not None]
    anchor = inloop[0].call if inloop else P.loop
    renders_all = [c for c, _ in find("self.render($*a, $**k)", P.loop)]
    ctx.floor("render calls in the loop", len(renders_all), 1)
    passed_on = False
    for it in P.iters:
        q = it.q
        ev_ = q.events

        def is_trigger(t, upto):
            """is value t the future held in <servobs>._trigger (as read at event index upto)?"""
            if t[0] == "a" and t[1] == so and t[2] == "_trigger":
                return True
            return any(e.kind == "store" and e.attr == "_trigger" and e.base == so and e.value == t for e in ev_[:upto])

        sends = _sends(P, q)
        waits = [e for i, e in enumerate(ev_) if e.kind == "await" and is_trigger(e.value, i)]
        reads = [e for i, e in enumerate(ev_) if e.kind == "call" and e.meth == "result" and not e.call.args and is_trigger(e.recv, i)]
        rearms = [e for e in ev_ if e.kind == "store" and e.attr == "_trigger" and e.base == so]
        fresh = [e for e in rearms if _is_new_future(P.flow, e.expr if e.expr is not None else e.stmt.value, e.nid)]
        renders = [e for e in ev_ if e.kind == "call" and e.meth == "render" and e.recv == ("n", fi.node.args.args[0].arg)]
        awaits = [e for e in ev_ if e.kind == "await"]
        here = (sends[0].call if sends else _last_stmt(cfg, q) or anchor)
        for s in sends:
            ctx.ob("every notification is preceded, in its iteration, by a completed wait on the trigger", any(_before(q, w, s.ev) for w in waits), fi, s.call)
        if not sends and not waits:
            continue
        if not ctx.ob("the notification loop waits on the observation's trigger future", bool(waits), fi, here):
            continue
        if not ctx.ob("the loop reads the result of the trigger future", len(reads) == 1, fi, here, detail="%d reads on a path" % len(reads)):
            continue
        rd = reads[0]
        ctx.ob("the result is read only after the wait completed", _before(q, waits[0], rd), fi, rd.call)
        if not ctx.ob("the loop re-arms the trigger with a fresh future", bool(fresh), fi, rd.call):
            continue
        ra = fresh[0]
        ctx.ob("the re-arming happens after the read", _before(q, rd, ra), fi, ra.stmt)
        between = [w for w in awaits if _before(q, rd, w) and _before(q, w, ra)] + [w for w in awaits if w.nid in (rd.nid, ra.nid) and w not in waits]
        ctx.ob("no await (and no return to the wait) lies between reading the result and re-arming the future: a trigger in between cannot be lost",
               not between, fi, cfg.nodes[between[0].nid].ast if between else rd.call)
        ctx.ob("the trigger is re-armed once per wait", len(rearms) == 1, fi, rearms[-1].stmt)
        # the value read
        val = ("new", rd.nid, ())
        isnone = q.st.dec.get(("eq", frozenset([val, ("c", "None")])))
        rendered = bool(renders)
        ctx.ob("the loop renders the resource exactly when the trigger carried no ready-made response", isnone is not None and rendered == isnone, fi, (renders[0].call if renders else renders_all[0]),
               detail="on a path: result is None: %s, rendered: %s" % ({True: "yes", False: "no", None: "not tested"}[isnone], rendered))
        for r_ in renders:
            ctx.ob("the rendering of a notification starts after the trigger was consumed and re-armed (it reflects a state at or after the change)", _before(q, ra, r_) and _before(q, rd, r_), fi, r_.call)
        rvals = {("new", r_.nid, ()) for r_ in renders}
        for s in sends:
            okv = s.obj == val or s.obj in rvals
            ctx.ob("the notification sent is the triggered response or the fresh rendering", okv, fi, s.call)
            if s.obj == val and not rendered:
                passed_on = True
    ctx.ob("a triggered response is passed on without re-rendering", passed_on, fi, anchor)


# ---------------------------------------------------------------------------
# C08.g  (added while implementing C08.b: the finally-callback must exist on every path that reaches it)


@R.clause("C08.g", "the cancellation callback is only invoked when there is one: the call is dominated by `_accepted`, or every ServerObservation carries a callable from construction on")
def g(ctx):
    prog = ctx.prog
    P = _obs_parts(ctx)
    fi, cfg = P.fi, P.cfg
    ci = prog.cls("protocol.ServerObservation")
    init = ci.methods.get("__init__")
    ctx.need(init is not None, "ServerObservation.__init__ missing")
    icfg = cfg_of(init)
    st = [n for k, n in stores_to(init.node, "self._cancellation_callback", nested=False) if k == "assign"]
    default = "_cancellation_callback" in ci.methods or "_cancellation_callback" in ci.attrs or (bool(st) and icfg.must_pass(icfg.entry, {j for n in st for j in _rn(icfg, n)}))
    calls = [c for c, _ in find("%s._cancellation_callback()" % P.so, fi.node)]
    ctx.floor("cancellation callback call sites", len(calls), 1)
    for c in calls:
        guarded = all(guarded_by(cfg, j, "%s._accepted" % P.so, True) or guarded_by(cfg, j, 'hasattr(%s, "_cancellation_callback")' % P.so, True) for j in _rn(cfg, c))
        ctx.ob("a declined observation (add_observation did not call accept) has no callback to invoke: the call must be conditional on acceptance or a default must exist; "
               "otherwise the AttributeError raised in the finally clause replaces the handler's own outcome", default or guarded, fi, c,
               detail=None if (default or guarded) else "ServerObservation defines _cancellation_callback only in accept(); the call is unconditional")
    acc = [n for k, n in stores_to(init.node, "self._accepted", nested=False) if k == "assign"]
    ctx.ob("a ServerObservation starts as not accepted", len(acc) == 1 and isinstance(acc[0], ast.Assign) and isinstance(acc[0].value, ast.Constant) and acc[0].value.value is False, init, acc[0] if acc else init.node,
           construct=None if acc else "ServerObservation.__init__")


# ---------------------------------------------------------------------------
# seeded faults (sensitivity self-test)
@R.clause("C08.h", "notifications to an endpoint are not held back forever: a timed-out exchange leaves the exchange table, the backlog invariant holds (shared with C03.d / C14.a)")
def h_shared(ctx):
    """'A notification rendered at or after the last change is eventually sent' needs the message layer to release the
    per-remote queue.  An independently written breaking change left the timed-out exchange of a CON notification in
    _active_exchanges, so every later CON notification to that endpoint (after a re-registration) was queued for ever."""
    from . import c03, c14
    c03.retransmit_removes_exchange(ctx)
    c14.a(ctx)


@R.clause("C08.i", "notifications leave the message layer in the order in which they were handed to it: the per-remote backlog is a FIFO queue, no confirmable message overtakes it, what is released is its head, a non-empty queue is never dropped silently (shared with C14.c / C14.b / C14.d)")
def i_shared(ctx):
    """C08.a only shows that the Observe values are increasing in the order in which _render_to_pipe hands the
    notifications to pipe.add_response, i.e. in the order in which they reach MessageManager.send_message.  'Strictly
    increasing Observe values within one registration' is a statement about the wire, so it additionally needs the
    message layer to be order-preserving per remote.  All notifications of one registration go to one remote; while
    a CON notification of that remote is unacknowledged, later CON notifications wait in `_backlogs[remote]`.  The
    order on the wire equals the order of submission only if
      * the queue is drained from the end opposite to the one it is filled at (C14.c) -- an independently written
        breaking change drained it with pop() (LIFO): Observe values 0, 1, 3, 2 on the wire and a stale state last;
      * a CON whose remote has an open exchange never bypasses the queue, and every message is either transmitted
        or queued (C14.b) -- a bypassing notification overtakes the queued ones, a dropped one is never sent;
      * what _continue_backlog releases is the item it dequeued, from the remote's own queue, and an entry is
        deleted only when empty (C14.d) -- otherwise the latest notification is lost or repeated.
    These are the message layer's own clauses (decided by effect over every enqueue / dequeue spelling in C14's
    kit); they are called here, not restated.  Each part is run even when an earlier one refuses, so that a refusal
    of one part cannot hide a violation found by another."""
    from . import c14
    refused = []
    for part in ("c", "b", "d"):
        try:
            getattr(c14, part)(ctx)
        except AnalysisError as e_:
            refused.append("C14.%s: %s" % (part, e_))
    if refused:
        raise AnalysisError("; ".join(refused))


# ---------------------------------------------------------------------------
# C08.j  a transport error ends what is still in flight for the observer
#
# True since fix ba9502f (finding F13): MessageManager._retransmit puts the exchange back *before* it hands the
# message to the transport, so the obligation is applied to re-arming sites as well.  (Before the fix the re-arming
# site was refuted on the unchanged tree: that was the finding.)
J_DECIDE_REARM = True


def _decide_rearm():
    import os
    return J_DECIDE_REARM or os.environ.get("COAPLINT_C08_DECIDE_REARM") == "1"  # the variable: for trying the flag on a repaired scratch tree


@R.clause("C08.j", "a transport error reported for the observer stops the retransmission of its notifications: MessageManager.dispatch_error cancels the timers of the exchange table, and an exchange is entered into that table before its message is handed to the transport (which may report the error from inside send())")
def j(ctx):
    """'Once ended ... no further notification is ever sent for that registration', for the cause 'a transport error
    is reported for the observer'.  TokenManager.dispatch_error ends the registration (C08.e); the confirmable
    notification that is still being retransmitted is stopped by MessageManager.dispatch_error, which takes the
    failing remote's entries out of the exchange table and cancels their timers.  Two sites maintain this jointly:

      B (error side)  the table(s) whose entries' timers dispatch_error cancels -- found by effect: a `.cancel()` on
                      (a component of) a value read from `self.<table>` in any spelling;
      A (send side)   every entry that goes into such a table is made before the message it belongs to is handed to
                      the transport object (`self.message_interface.<anything>(...)`, directly or through other
                      methods of the class -- summaries over the message parameter, no method name enters).  A
                      datagram transport reports a send failure synchronously (udp6: error_received runs inside
                      sendmsg and re-enters MessageManager.dispatch_error): an exchange registered after the
                      hand-over is not in the table when the error is dispatched, and is then armed for a
                      registration that has already ended.

    Either site may change shape; the invariant is 'what B cancels is what A has entered by the time the transport
    can report an error for it'.  Paths are CFG paths between the two events that do not re-bind the local denoting
    the message (a loop that sends one queued message after the other registers each before *its* hand-over).
    Scope: entries that are *created*.  An entry the same activation took out and puts back (the re-arming in
    _retransmit) needs the same order, but the confirmed tree sends first there: described in a note, not decided
    (J_DECIDE_REARM)."""
    prog = ctx.prog
    de = prog.func(MM + "dispatch_error")
    tables, ncancel = K.cancelled_tables(prog, de)
    if not tables:
        # no interpretable cancel: a violation only when there is no cancel at all in the (canonicalised) function
        ctx.need(ncancel == 0, "MessageManager.dispatch_error cancels something, but not a value the rule can trace to a table of self")
        ctx.ob("MessageManager.dispatch_error cancels the retransmission timers of the failing remote's exchanges", False, de, de.node, construct="MessageManager.dispatch_error",
               detail="no .cancel() on a value taken from a table of self: retransmissions go on after the transport error")
        return
    for F, cs in sorted(tables.items()):
        ctx.ob("MessageManager.dispatch_error cancels the retransmission timers of the failing remote's exchanges", True, de, cs[0], construct="cancel of entries of %s" % F)
    cls = prog.cls("messagemanager.MessageManager")
    X = K.Exchanges(prog, cls, sorted(tables), "message_interface")
    nreg = ntx = 0
    rearm_noted = False
    for f_ in sorted(X.funcs(), key=lambda f__: f__.qn):
        evs = X.events(f_)
        regs = [e_ for e_ in evs if e_.kind == "reg" and e_.direct]
        ntx += len([e_ for e_ in evs if e_.kind == "tx" and e_.direct])
        nreg += len([e_ for e_ in regs if not e_.rearm])
        late = {id(r.node): (r, t) for r, t in X.late_registrations(f_, include_rearm=True)}
        for r in [e_ for e_ in evs if e_.kind == "reg"]:
            bad = late.get(id(r.node))
            if r.rearm and not _decide_rearm():
                if bad is not None and not rearm_noted:
                    rearm_noted = True
                    ctx.note("C08.j not decided for re-arming sites: %s puts an exchange back (%s) after handing the message to the transport (%s); a transport error reported from inside that send() "
                             "finds no exchange to cancel and the retransmissions of the ended registration continue" % (f_.short, stmt_text(r.node), stmt_text(bad[1].node)))
                continue
            if not r.direct and bad is None:
                continue  # the callee's own order is decided where the callee is analysed
            ctx.ob("an exchange is entered into the table that dispatch_error cancels before its message is handed to the transport", bad is None, f_, r.node,
                   detail=None if bad is None else "registered on a path after %s: an error reported from inside send() is dispatched while the exchange is not yet in the table" % stmt_text(bad[1].node))
    ctx.floor("sites that create an exchange", nreg, 1)
    ctx.floor("hand-overs to the transport in MessageManager", ntx, 1)


# ---------------------------------------------------------------------------
# C08.k  every error report reaches the stoppers


@R.clause("C08.k", "an error report for a remote is passed on towards TokenManager.dispatch_error whatever the error is: in every function that relays such a report, whether it is forwarded depends on the layer's own state (detached, shut down) only")
def k(ctx):
    """'The registration ends ... when a transport error is reported for the observer.'  The stoppers of a remote's
    registrations are called by TokenManager.dispatch_error alone (C08.e), so every report has to arrive there.
    Between a transport and that function lie *relays*: functions that receive the error as a parameter and hand
    it, unchanged, to the next one (MessageManager.dispatch_error, _TCPPooling._dispatch_error, TcpConnection.
    connection_lost, GenericMessageInterface._received_exception, udp6 error_received, ...).  They are found as a
    fixpoint from TokenManager.dispatch_error (kit: error_relays), not listed.

    Obligation per relay, over the path model: take any path that returns without forwarding and any path that
    forwards; they must disagree on a condition over the object's own state (`self._tokenmanager is None`,
    `self._active_exchanges is None`, a weak reference that is gone ...).  If they agree on all of those, then for
    that state the outcome is decided by the error (or the remote) reported -- e.g. `exc is None`, the orderly close
    of a TCP connection -- and reports of that kind never end the registrations of the remote: the cancellation
    callback does not run, the observer count stays up, later notifications are rendered for a dead connection.
    Indifferent to nesting, early returns, guard order and named conditions; logging may depend on anything."""
    prog = ctx.prog
    base = prog.func(TM + "dispatch_error")
    bp = params(base)
    ctx.need(len(bp) == 2, "TokenManager.dispatch_error signature changed")
    relays = K.error_relays(prog, base, bp[0])
    rl = sorted(relays.values(), key=lambda r_: r_.fi.qn)
    ctx.floor("error relays towards TokenManager.dispatch_error", len(rl), 4)
    ctx.note("error relays: %s" % ", ".join("%s(%s)" % (r_.fi.short, r_.err) for r_ in rl))
    for r_ in rl:
        f_ = r_.fi
        cfg = cfg_of(f_)
        inloop = [c for c in r_.calls if _enclosing_loop(cfg, c) is not None]
        ctx.need(not inloop, "%s forwards the error from inside a loop: outside the rule's vocabulary" % f_.short)
        res = K.value_dependent_forwarding(f_, r_)
        if res is None:
            ctx.ob("whether the error report is passed on depends on the layer's own state only", True, f_, r_.calls[0])
        else:
            s, w, pm = res
            ctx.ob("whether the error report is passed on depends on the layer's own state only", False, f_, r_.calls[0],
                   detail="returns without forwarding when [%s] but forwards when [%s]: reports of the first kind never reach the stoppers of the remote's registrations" % (pm.describe(s), pm.describe(w)))


F_IF = "aiocoap/interfaces.py"
F_RES = "aiocoap/resource.py"
F_PROTO = "aiocoap/protocol.py"
F_TM = "aiocoap/tokenmanager.py"
F_MM = "aiocoap/messagemanager.py"
F_PIPE = "aiocoap/pipe.py"

R.seed("C08.a", F_IF, "                    next_observation_number += 1\n", "                    next_observation_number += 0\n", "Observe value never rises")
R.seed("C08.a", F_IF, "                    next_observation_number += 1\n", "                    next_observation_number -= 1\n", "Observe value falls")
R.seed("C08.a", F_IF, "                    response.opt.observe = next_observation_number\n", "", "notifications without Observe option")
R.seed("C08.a", F_IF, "            first_response.opt.observe = next_observation_number = 0\n", "            next_observation_number = 0\n", "initial response without Observe option")
R.seed("C08.a", F_IF, "            first_response.opt.observe = next_observation_number = 0\n", "            first_response.opt.observe = 5\n            next_observation_number = 0\n", "first notification (1) below the initial value (5)")
R.seed("C08.a", F_IF, "                    next_observation_number += 1\n                    response.opt.observe = next_observation_number\n",
       "                    response.opt.observe = next_observation_number\n                    next_observation_number += 1\n", "first notification repeats the initial value")
R.seed("C08.a", F_IF, "                if not is_last:\n                    next_observation_number += 1", "                if is_last:\n                    next_observation_number += 1", "Observe stored only on the final notification")
R.seed("C08.b", F_IF, "        finally:\n            if servobs._accepted:\n                servobs._cancellation_callback()", "        except Exception:\n            if servobs._accepted:\n                servobs._cancellation_callback()\n            raise", "callback moved from finally into except: missed on return and on task cancellation")
R.seed("C08.b", F_IF, "        try:\n            first_response = await self.render(pipe.request)\n\n            if (", "        first_response = await self.render(pipe.request)\n        try:\n            if (", "first render outside the try")
R.seed("C08.b", F_IF, "                if is_last:\n                    return\n", "                if is_last:\n                    servobs._cancellation_callback()\n                    return\n", "callback runs twice")
R.seed("C08.b", F_PROTO, "        self._cancellation_callback = cancellation_callback\n", "        self._cancellation_callback = lambda: None\n", "accept() drops the resource's callback")
R.seed("C08.c", F_RES, "            self._observations.remove(serverobservation)\n            self.update_observation_count(len(self._observations))\n", "            self._observations.remove(serverobservation)\n", "count not updated on cancellation")
R.seed("C08.c", F_RES, "        serverobservation.accept(_cancel)\n        self.update_observation_count(len(self._observations))\n", "        serverobservation.accept(_cancel)\n", "count not updated on registration")
R.seed("C08.c", F_RES, "        self._observations.add(serverobservation)\n", "        self._observations.add(request)\n", "object added differs from the one removed")
R.seed("C08.c", F_RES, "            self._observations.remove(serverobservation)\n            self.update_observation_count(len(self._observations))\n",
       "            self.update_observation_count(len(self._observations))\n            self._observations.remove(serverobservation)\n", "count reported before the removal")
R.seed("C08.c", F_RES, "        for o in self._observations:\n            o.trigger(response)\n", "        for o in self._observations:\n            o.trigger(response)\n        self._observations.clear()\n", "foreign writer of _observations")
R.seed("C08.c", F_RES, "            o.trigger(response)\n", "            o.trigger()\n", "ready-made notification dropped")
R.seed("C08.d", F_IF, "                is_last = servobs._late_deregister or not response.code.is_successful()", "                is_last = servobs._late_deregister", "unsuccessful notification does not end the observation")
R.seed("C08.d", F_IF, "                is_last = servobs._late_deregister or not response.code.is_successful()", "                is_last = not response.code.is_successful()", "trigger(is_last=True) ignored")
R.seed("C08.d", F_IF, "                or servobs._early_deregister\n", "", "early deregistration ignored")
R.seed("C08.d", F_IF, "                not servobs._accepted\n                or servobs._early_deregister", "                servobs._early_deregister", "unaccepted observation kept open")
R.seed("C08.d", F_IF, "                or not first_response.code.is_successful()\n", "", "error response opens an observation")
R.seed("C08.d", F_IF, "                if is_last:\n                    return\n", "                if is_last:\n                    continue\n", "loop goes on after the final notification")
R.seed("C08.d", F_IF, "                pipe.add_response(response, is_last=is_last)\n", "                pipe.add_response(response, is_last=False)\n", "notifications never final")
R.seed("C08.e", F_TM, "            (pipe, stop) = self.incoming_requests.pop(key)\n            stop()\n", "            (pipe, stop) = self.incoming_requests.pop(key)\n", "old observation not stopped on override")
R.seed("C08.e", F_TM, "                    # in on the same token)\n                    stop,\n", "                    # in on the same token)\n                    lambda: None,\n", "Reset no longer reaches the observation")
R.seed("C08.e", F_TM, "                stoppers.append(stopper)\n", "                pass\n", "transport errors do not stop observations")
R.seed("C08.e", F_TM, "            if remote == _r:\n                stoppers.append(stopper)", "            if remote is _r:\n                stoppers.append(stopper)", "identity instead of equality of remotes")
R.seed("C08.e", F_TM, "                stoppers.append(stopper)\n", "                stopper()\n", "dict modified while iterated")
R.seed("C08.e", F_TM, "            # could raise in the task.)\n            stop()\n", "            # could raise in the task.)\n", "shutdown does not stop observations")
R.seed("C08.e", F_TM, "        self.incoming_requests[key] = (pipe, stop)\n", "        self.incoming_requests[(request.token,)] = (pipe, stop)\n", "registered under the token only")
R.seed("C08.e", F_PIPE, "    pipe.on_interest_end(task.cancel)\n", "", "render task survives loss of interest")
R.seed("C08.e", F_PIPE, "    old_pr.on_interest_end(remove_interest)\n", "", "loss of interest not forwarded to the render task's pipe")
R.seed("C08.e", F_PIPE, "        ]\n        if not self._any_interest():\n            self._end()\n", "        ]\n", "unregistering the last handler does not end the pipe")
R.seed("C08.e", F_MM, "        if message.mtype is RST:\n            messageerror_monitor()\n", "", "Reset does not fire the monitor")
R.seed("C08.e", F_MM, "            self._add_exchange(message, messageerror_monitor)\n", "            self._add_exchange(message, lambda: None)\n", "monitor lost on the way to the exchange table")
R.seed("C08.e", F_MM, "            self._active_exchanges[key] = (messageerror_monitor, next_retransmission)", "            self._active_exchanges[key] = (lambda: None, next_retransmission)", "monitor lost after the first retransmission")
R.seed("C08.f", F_PROTO, "        if self._trigger.done():\n            # we don't care whether we overwrite anything, this is a lossy queue as observe is lossy\n            self._trigger = asyncio.get_running_loop().create_future()\n", "", "second trigger before consumption raises InvalidStateError")
R.seed("C08.f", F_PROTO, "        if is_last:\n            self._late_deregister = True\n", "", "is_last not recorded")
R.seed("C08.f", F_PROTO, "        self._trigger.set_result(response)\n", "        self._trigger.set_result(None)\n", "ready-made notification dropped")
R.seed("C08.f", F_IF, "                servobs._trigger = asyncio.get_running_loop().create_future()\n\n                if response is None:\n                    response = await self.render(pipe.request)\n",
       "\n                if response is None:\n                    response = await self.render(pipe.request)\n                servobs._trigger = asyncio.get_running_loop().create_future()\n", "trigger during rendering is lost")
R.seed("C08.f", F_IF, "                if response is None:\n                    response = await self.render(pipe.request)\n", "                response = await self.render(pipe.request)\n", "triggered response always replaced by a rendering")
R.seed("C08.f", F_IF, "                await servobs._trigger\n", "                await asyncio.sleep(0)\n", "loop does not wait for a trigger")
R.seed("C08.g", F_PROTO, "        self._accepted = False\n", "        self._accepted = True\n", "declined observations are kept open (masked while C08.g is refuted on the analysed tree)")

# seeds for the generalised (path / value-flow) formulations
R.seed("C08.a", F_IF, "            first_response.opt.observe = next_observation_number = 0\n", "            first_response.opt.observe = next_observation_number = 2**24\n", "initial Observe value outside the 24-bit option range")
R.seed("C08.a", F_IF, "                    response.opt.observe = next_observation_number\n", "                    first_response.opt.observe = next_observation_number\n", "Observe value stored on an object that is not the one sent")
R.seed("C08.d", F_IF, "                if is_last:\n                    return\n", "                if servobs._late_deregister:\n                    return\n", "loop goes on after an unsuccessful (final) notification")
R.seed("C08.d", F_IF, "                is_last = servobs._late_deregister or not response.code.is_successful()", "                is_last = servobs._late_deregister or not first_response.code.is_successful()", "termination decided on the code of another response")
R.seed("C08.e", F_TM, "        for (_, _r), (_, stopper) in self.incoming_requests.items():", "        for (_r, _), (_, stopper) in self.incoming_requests.items():", "incoming requests selected by token instead of remote")
R.seed("C08.e", F_TM, "        for (_, _r), (_, stopper) in self.incoming_requests.items():", "        for (_, _r), (stopper, _) in self.incoming_requests.items():", "the pipe is collected instead of its stopper")
R.seed("C08.e", F_TM, "            (pipe, stop) = self.incoming_requests.pop(key)\n            stop()\n", "            (stop, pipe) = self.incoming_requests.pop(key)\n            stop()\n", "the overridden entry's pipe is called instead of its stopper")
R.seed("C08.e", F_TM, "            (_, stop) = self.incoming_requests.pop(key)\n", "            (_, stop) = self.incoming_requests[key]\n", "shutdown loop does not drain the table")
R.seed("C08.e", F_MM, "            self._backlogs[message.remote].append((message, messageerror_monitor))", "            self._backlogs[message.remote].append((message, None))", "monitor lost while the message waits in the backlog")
R.seed("C08.e", F_MM, "                next_message, messageerror_monitor = self._backlogs[remote].pop(0)\n", "                messageerror_monitor, next_message = self._backlogs[remote].pop(0)\n", "message and monitor swapped when leaving the backlog")
R.seed("C08.e", F_PIPE, "    pipe.on_interest_end(task.cancel)\n", "    pipe.on_interest_end(lambda: None)\n", "interest end no longer cancels the render task")
R.seed("C08.e", F_PIPE, "            await coroutine\n", "            await asyncio.sleep(0)\n", "the task that is cancelled no longer runs the render coroutine")
R.seed("C08.e", F_PIPE, "    async def wrapped():\n", "    async def wrapped(coroutine=None):\n", "the awaited name is the wrapper's own (unfilled) parameter, not the render coroutine")
R.seed("C08.e", F_PIPE, "        wrapped(),\n", "        asyncio.sleep(0),\n", "the cancelled task is not the one created from the wrapper")
R.seed("C08.f", F_PROTO, "        if self._trigger.done():\n            # we don't care", "        if not self._trigger.done():\n            # we don't care", "a pending future is replaced (the loop waits on the old one for ever), a done one is resolved again")
R.seed("C08.f", F_IF, "                response = servobs._trigger.result()\n                servobs._trigger = asyncio.get_running_loop().create_future()\n", "                response = servobs._trigger.result()\n", "trigger future never re-armed")
R.seed("C08.c", F_RES, "        def _cancel(self=self, obs=serverobservation):\n            self._observations.remove(serverobservation)", "        def _cancel(self=self, obs=serverobservation):\n            self._observations.remove(request)", "callback removes another object")

R.seed("C08.h", F_MM, "        messageerror_monitor, next_retransmission = self._active_exchanges.pop(key)\n        # this should be a no-op", "        messageerror_monitor, next_retransmission = self._active_exchanges[key]\n        # this should be a no-op", "timed-out exchange stays 'active': later CON notifications to that endpoint are queued for ever")

R.seed("C08.i", F_MM, "self._backlogs[remote].pop(0)", "self._backlogs[remote].pop()", "held-back CON notifications leave newest-first: Observe values on the wire not increasing")
R.seed("C08.i", F_MM, "self._backlogs[remote].pop(0)", "self._backlogs[remote].pop(-1)", "LIFO through an explicit last index")
R.seed("C08.i", F_MM, "            self._backlogs[message.remote].append((message, messageerror_monitor))", "            self._backlogs[message.remote].insert(0, (message, messageerror_monitor))", "enqueue at the head: a later notification is released before an earlier one")
R.seed("C08.i", F_MM, "        if message.mtype == CON and message.remote in self._backlogs:", "        if message.mtype == CON and message.remote in self._backlogs and message.opt.observe is None:", "notifications bypass the queue and overtake held-back ones")
R.seed("C08.i", F_MM, "        if message.mtype == CON and message.remote in self._backlogs:", "        if message.mtype == CON and self._backlogs.get(message.remote):", "a CON is transmitted at once although an exchange with the remote is open (empty entry)")
R.seed("C08.i", F_MM, "            if self._backlogs[remote] != []:\n                next_message", "            if len(self._backlogs[remote]) > 1:\n                next_message", "the entry is deleted while it still holds the latest notification: never sent")
R.seed("C08.i", F_MM, "                next_message, messageerror_monitor = self._backlogs[remote].pop(0)\n", "                next_message, messageerror_monitor = self._backlogs[remote][-1]\n                del self._backlogs[remote][0]\n", "the newest item is transmitted while the oldest is discarded")

# C08.j / C08.k
R.seed("C08.j", F_MM, "            self._add_exchange(message, messageerror_monitor)\n\n        self._store_response_for_duplicates(message)\n\n        self._send_via_transport(message)\n",
       "            pass\n\n        self._store_response_for_duplicates(message)\n\n        self._send_via_transport(message)\n        if message.mtype is CON:\n            self._add_exchange(message, messageerror_monitor)\n",
       "the exchange is created after the hand-over: a send failure reported from inside send() finds nothing to cancel, the notification of the ended registration is retransmitted")
R.seed("C08.j", F_MM, "            self._add_exchange(message, messageerror_monitor)\n\n        self._store_response_for_duplicates(message)\n\n        self._send_via_transport(message)\n",
       "            self.message_interface.send(message)\n            self._add_exchange(message, messageerror_monitor)\n        else:\n            self._send_via_transport(message)\n\n        self._store_response_for_duplicates(message)\n",
       "confirmable messages go to the transport object directly, before their exchange exists")
R.seed("C08.j", F_MM, "            (messageerror_monitor, cancellable_timeout) = self._active_exchanges.pop(k)\n            cancellable_timeout.cancel()\n", "            (messageerror_monitor, cancellable_timeout) = self._active_exchanges.pop(k)\n",
       "a transport error forgets the exchanges of the remote but leaves their retransmission timers armed")
if J_DECIDE_REARM:
    # the repaired order of _retransmit (findings/F13_retransmit_rearm_before_send.patch); the seed restores the old one
    R.seed("C08.j", F_MM, "            self._active_exchanges[key] = (messageerror_monitor, next_retransmission)\n            self._send_via_transport(message)\n",
           "            self._send_via_transport(message)\n            self._active_exchanges[key] = (messageerror_monitor, next_retransmission)\n",
           "F13: the exchange is put back after the retransmission was handed to the transport")
R.seed("C08.k", "aiocoap/transports/tcp.py", "        self._tokenmanager.dispatch_error(exc, connection)\n", "        if exc is not None:\n            self._tokenmanager.dispatch_error(exc, connection)\n",
       "an orderly close of a TCP connection (connection_lost(None)) no longer ends the registrations of that connection")
R.seed("C08.k", "aiocoap/transports/tcp.py", "        self._ctx._dispatch_error(self, exc)\n", "        if isinstance(exc, OSError):\n            self._ctx._dispatch_error(self, exc)\n",
       "only socket errors are reported by the connection; an orderly close is dropped one relay earlier")
R.seed("C08.k", F_MM, "        self.token_manager.dispatch_error(error, remote)\n\n        keys_for_removal = []", "        if not isinstance(error, ConnectionRefusedError):\n            self.token_manager.dispatch_error(error, remote)\n\n        keys_for_removal = []",
       "one kind of transport error is kept from the token manager: the observer's registrations survive it")
R.seed("C08.k", "aiocoap/transports/generic_udp.py", "        self._mman.dispatch_error(exception, address)\n", "        if exception.errno:\n            self._mman.dispatch_error(exception, address)\n",
       "errors without errno are dropped by the datagram pool's relay")
