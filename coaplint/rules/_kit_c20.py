"""Semantic helpers of the C20 rule module (rules/c20.py).

* KeyAssume    -- partial evaluation of a function's branch conditions under the
                  assumption "string constant K is a key of dict parameter Q"
                  (C20.f: a request carrying a reserved parameter never reaches a store).
* Freshness    -- which mutation sites of a function (and of the local helpers /
                  closures it calls) act on a container created in that very call (C20.h).
* PairRendering -- where Link.__str__ renders one (key, value) pair and under which
                  conditions the value-less form is chosen (C20.i).
* unused_member -- is a returned value known not to be a key of a table (C20.c).
* LinkFlow     -- abstract interpretation of link-format structures: does a function hand on
                  every parsed link with its target and every attribute pair (C20.k).

Nothing here looks at names of locals or helpers, at statement order or at source text.
"""

import ast

from ..rulekit import *
from ..model import FuncInfo
from .. import norm
from ..paths import atom_key

RDMOD = "aiocoap.cli.rd"


# ---------------------------------------------------------------------------
# generic


def owner_class(fi):
    f = fi
    while f is not None and f.cls is None:
        f = f.parent
    return f.cls.qn if f is not None and f.cls is not None else None


def reach(cfg, srcs, avoid=(), cut=(), skip_labels=(), include_src=False):
    """cfg.reach with `cut`: nodes whose normal (non-`exc`) out-edges do not exist
    (a statement that is known never to complete normally)."""
    avoid = set(avoid)
    cut = set(cut)
    seen = set()
    todo = list(srcs)
    if include_src:
        seen |= set(srcs)
    while todo:
        n = todo.pop()
        for d, lab in cfg.succ[n]:
            if lab in skip_labels or d in avoid or d in seen:
                continue
            if n in cut and lab != "exc":
                continue
            seen.add(d)
            todo.append(d)
    return seen


def all_params(fi):
    a = fi.node.args
    return [x.arg for x in a.posonlyargs + a.args + a.kwonlyargs]


def bind_call(call, callee, bound_method):
    """{param name: argument expression} of a call of `callee` (positional + keyword);
    None when the call uses * / ** arguments."""
    if any(isinstance(a, ast.Starred) for a in call.args) or any(k.arg is None for k in call.keywords):
        return None
    a = callee.node.args
    pos = [x.arg for x in a.posonlyargs + a.args]
    if bound_method and pos and pos[0] in ("self", "cls"):
        pos = pos[1:]
    out = {}
    for p, v in zip(pos, call.args):
        out[p] = v
    for k in call.keywords:
        out[k.arg] = k.value
    return out


def is_static(fi):
    return any(chain(d) == "staticmethod" for d in getattr(fi.node, "decorator_list", []))


def resolve_callee(prog, fi, call):
    """(FuncInfo, bound_method) of a call of a function of the analysed module: nested def of an
    enclosing function, module-level function, `self.m` / `cls.m` / `ClassName.m` method; else None."""
    f = call.func
    if isinstance(f, ast.Name):
        g = fi
        while g is not None:
            q = g.qn + ".<locals>." + f.id
            if q in prog.funcs:
                return prog.funcs[q], False
            g = g.parent
        q = fi.module.name + "." + f.id
        if q in prog.funcs:
            return prog.funcs[q], False
        return None
    if isinstance(f, ast.Attribute):
        base = chain(f.value)
        oc = owner_class(fi)
        if base in ("self", "cls") and oc:
            m = prog.lookup_method(oc, f.attr)
            if m is not None:
                return m, not is_static(m)
        if base and oc:
            # ClassName.m(...) / type(self).m is out of scope; sibling/outer class by name
            for q in (fi.module.name + "." + base, oc.rsplit(".", 1)[0] + "." + base):
                if q in prog.classes:
                    m = prog.lookup_method(q, f.attr)
                    if m is not None:
                        return m, False if not is_static(m) else False
    return None


def lambda_info(fi, lam):
    """A FuncInfo for a lambda of fi (lambdas are not indexed by the program model)."""
    return FuncInfo(fi.qn + ".<locals>.<lambda@%d>" % id(lam), lam, fi.module, None, fi)


def _unconditional_calls(root):
    """Calls of a statement that are evaluated whenever the statement completes (not inside a
    conditional expression arm, the right operand of and/or, a comprehension or a lambda)."""
    out = []

    def rec(n, cond):
        if isinstance(n, (ast.FunctionDef, ast.AsyncFunctionDef, ast.Lambda, ast.ClassDef)) and n is not root:
            return
        if isinstance(n, (ast.ListComp, ast.SetComp, ast.DictComp, ast.GeneratorExp)):
            return
        if isinstance(n, ast.Call) and not cond:
            out.append(n)
        if isinstance(n, ast.IfExp):
            rec(n.test, cond)
            rec(n.body, True)
            rec(n.orelse, True)
            return
        if isinstance(n, ast.BoolOp):
            rec(n.values[0], cond)
            for v in n.values[1:]:
                rec(v, True)
            return
        for c in ast.iter_child_nodes(n):
            rec(c, cond)

    rec(root, False)
    return out


# ---------------------------------------------------------------------------
# constants


def const_value(prog, fi, e, depth=0):
    """Value of a constant expression: literals, locals assigned once from constants, module
    constants, class-level constants (`self.X`, `cls.X`, `Class.X`); raises norm.NormError."""
    env = {}
    todo = [e]
    seen = set()
    rounds = 0
    while todo and rounds < 40:
        rounds += 1
        x = todo.pop()
        for n in ast.walk(x):
            if not isinstance(n, (ast.Name, ast.Attribute)):
                continue
            c = chain(n)
            if not c or c in seen:
                continue
            seen.add(c)
            v = None
            if isinstance(n, ast.Name):
                if fi is not None and not isinstance(fi.node, ast.Lambda):
                    v = assigned_value(fi.node, c)
                    if v is not None and len(writes_to_name(fi.node, c)) != 1:
                        v = None
                if v is None and fi is not None and c not in (all_params(fi) if not isinstance(fi.node, ast.Lambda) else []):
                    try:
                        v = prog.module_const(fi.module.name, c)
                    except AnalysisError:
                        v = None
            else:
                parts = c.split(".")
                if len(parts) == 2 and fi is not None:
                    oc = owner_class(fi)
                    cands = []
                    if parts[0] in ("self", "cls") and oc:
                        cands.append(oc)
                    else:
                        cands += [fi.module.name + "." + parts[0]] + ([oc.rsplit(".", 1)[0] + "." + parts[0]] if oc else [])
                    for q in cands:
                        if q in prog.classes:
                            v, _ = prog.class_attr(q, parts[1])
                            if v is not None:
                                break
            if v is not None:
                env[c] = v
                todo.append(v)
    return norm.consteval(e, env)


def const_strs(prog, fi, e):
    """Set of strings when e denotes a constant collection of strings, else None."""
    try:
        v = const_value(prog, fi, e)
    except (norm.NormError, TypeError, RecursionError):
        return None
    if isinstance(v, (tuple, list, set, frozenset)) and all(isinstance(x, str) for x in v):
        return set(v)
    if isinstance(v, dict) and all(isinstance(x, str) for x in v):
        return set(v)
    return None


# ---------------------------------------------------------------------------
# KeyAssume

_KEY_WRAPPERS = {"set", "frozenset", "list", "tuple", "sorted", "iter", "reversed"}
_READER_FUNCS = {"any", "all", "set", "frozenset", "list", "tuple", "sorted", "len", "dict", "iter", "bool", "enumerate", "zip", "map",
                 "filter", "reversed", "repr", "str", "min", "max", "isinstance", "print", "next"}
_READER_METHODS = {"update", "intersection", "isdisjoint", "issubset", "issuperset", "union", "difference", "symmetric_difference",
                   "extend", "format", "debug", "info", "warning", "error", "append", "add", "copy", "deepcopy"}
_Q_READ_METHODS = {"keys", "items", "values", "get", "copy", "__contains__", "__len__", "__iter__", "__getitem__"}
_Q_REMOVE_METHODS = {"pop"}


class KeyAssume:
    """Branch outcomes of `fi` that are impossible when the string `key` is a key of the dict held by
    parameter `q` at entry.

    Sound as a proof of unreachability: a branch outcome is only discarded when the test is decided by
    the assumption (see `truth`), the assumption still holds at the test (no statement that may remove
    `key` from the dict can reach it, see `_invalid`), and the exit edge of a `for` loop is only
    discarded when the iteration for `key` is known never to complete (see `_loop_exits`).  Anything
    not understood is left reachable."""

    def __init__(self, prog, fi, q, key, depth=0):
        self.prog = prog
        self.fi = fi
        self.q = q
        self.key = key
        self.depth = depth
        self.cfg = cfg_of(fi)
        self.usable = not writes_to_name(fi.node, q) if not isinstance(fi.node, ast.Lambda) else True
        self._inv = None
        self._avoid = None
        self._cut = None

    @classmethod
    def of(cls, prog, fi, q, key, depth=0):
        memo = prog.__dict__.setdefault("_c20_keyassume", {})
        k = (fi.qn, q, key)
        if k not in memo:
            memo[k] = cls(prog, fi, q, key, depth)
        return memo[k]

    # -- the dict and its key views -----------------------------------------
    def _res(self, e, depth=3):
        """Follow a local that is bound exactly once (by a plain assignment) to its value."""
        if isinstance(self.fi.node, ast.Lambda):
            return e
        while depth and isinstance(e, ast.Name):
            ws = writes_to_name(self.fi.node, e.id)
            if len(ws) != 1 or not isinstance(ws[0], ast.Assign) or len(ws[0].targets) != 1 or not isinstance(ws[0].targets[0], ast.Name):
                break
            e = ws[0].value
            depth -= 1
        return e

    def is_q(self, e):
        if isinstance(e, ast.Name) and e.id == self.q:
            return True
        r = self._res(e)
        return isinstance(r, ast.Name) and r.id == self.q

    def keys_view(self, e):
        """e denotes (an iterable/collection of exactly) the keys of Q."""
        e = self._res(e) if isinstance(e, ast.Name) and not self.is_q(e) else e
        if self.is_q(e):
            return True
        if isinstance(e, ast.Call) and not e.keywords:
            if isinstance(e.func, ast.Attribute) and e.func.attr == "keys" and not e.args and self.is_q(e.func.value):
                return True
            if chain(e.func) in _KEY_WRAPPERS and len(e.args) == 1:
                return self.keys_view(e.args[0])
        return False

    def items_view(self, e):
        e = self._res(e) if isinstance(e, ast.Name) else e
        if isinstance(e, ast.Call) and not e.keywords:
            if isinstance(e.func, ast.Attribute) and e.func.attr == "items" and not e.args and self.is_q(e.func.value):
                return True
            if chain(e.func) in _KEY_WRAPPERS and len(e.args) == 1:
                return self.items_view(e.args[0])
        return False

    def contains_key(self, e, env):
        """The collection e certainly contains `key`: the keys of Q, or a constant collection with it."""
        if self.keys_view(e):
            return True
        s = const_strs(self.prog, self.fi, e)
        return s is not None and self.key in s

    def lacks_key(self, e):
        s = const_strs(self.prog, self.fi, e)
        return s is not None and self.key not in s

    def loop_var(self, target, it):
        """Name of the variable that takes the value `key` in some iteration of `for target in it`."""
        if isinstance(target, ast.Name) and self.contains_key(it, {}):
            return target.id
        if isinstance(target, (ast.Tuple, ast.List)) and len(target.elts) == 2 and isinstance(target.elts[0], ast.Name) and self.items_view(it):
            return target.elts[0].id
        return None

    # -- three-valued evaluation ----------------------------------------------
    def _const(self, e, env):
        """('c', value) for a constant-valued operand, else None."""
        if isinstance(e, ast.Name) and e.id in env:
            return ("c", env[e.id])
        if isinstance(e, ast.Constant):
            return ("c", e.value)
        return None

    def nonempty(self, e, env):
        """True when the collection expression e is certainly non-empty / None when unknown."""
        if isinstance(e, ast.Name) and e.id not in env:
            r = self._res(e)
            if r is not e:
                return self.nonempty(r, env)
            return None
        if isinstance(e, ast.BinOp) and isinstance(e.op, ast.BitAnd):
            if self.contains_key(e.left, env) and self.contains_key(e.right, env):
                return True
            return None
        if isinstance(e, ast.Call):
            fn = chain(e.func)
            if isinstance(e.func, ast.Attribute) and e.func.attr == "intersection" and len(e.args) == 1 and not e.keywords:
                if self.contains_key(e.func.value, env) and self.contains_key(e.args[0], env):
                    return True
                return None
            if fn in ("list", "set", "frozenset", "tuple", "sorted") and len(e.args) == 1 and not e.keywords:
                a = e.args[0]
                if isinstance(a, ast.GeneratorExp):
                    return self._comp_yields(a, env)
                return self.nonempty(a, env)
            return None
        if isinstance(e, (ast.ListComp, ast.SetComp, ast.DictComp)):
            return self._comp_yields(e, env)
        return None

    def _comp_yields(self, comp, env):
        """The comprehension produces at least one element: its single generator runs over a collection
        that contains `key` and every filter holds for it."""
        if len(comp.generators) != 1 or comp.generators[0].is_async:
            return None
        g = comp.generators[0]
        x = self.loop_var(g.target, g.iter)
        if x is None:
            return None
        env2 = dict(env)
        env2[x] = self.key
        if all(self.truth(c, env2) is True for c in g.ifs):
            return True
        return None

    def _quant(self, e, env):
        """any(...) / all(...) over a comprehension whose generator certainly produces `key`."""
        fn = chain(e.func)
        if fn not in ("any", "all") or len(e.args) != 1 or e.keywords:
            return None
        comp = e.args[0]
        if isinstance(comp, ast.Name):
            comp = self._res(comp)
        if not isinstance(comp, (ast.GeneratorExp, ast.ListComp, ast.SetComp)) or len(comp.generators) != 1:
            return None
        g = comp.generators[0]
        x = self.loop_var(g.target, g.iter)
        if x is None:
            return None
        env2 = dict(env)
        env2[x] = self.key
        if not all(self.truth(c, env2) is True for c in g.ifs):
            return None
        t = self.truth(comp.elt, env2)
        if fn == "any" and t is True:
            return True
        if fn == "all" and t is False:
            return False
        return None

    def truth(self, e, env):
        """True / False when the truth value of e follows from `key in Q` (and env: names known to hold
        a constant), None otherwise."""
        if isinstance(e, ast.BoolOp):
            vals = [self.truth(v, env) for v in e.values]
            if isinstance(e.op, ast.And):
                if any(v is False for v in vals):
                    return False
                return True if all(v is True for v in vals) else None
            if any(v is True for v in vals):
                return True
            return False if all(v is False for v in vals) else None
        if isinstance(e, ast.UnaryOp) and isinstance(e.op, ast.Not):
            v = self.truth(e.operand, env)
            return None if v is None else (not v)
        if isinstance(e, ast.IfExp):
            t = self.truth(e.test, env)
            if t is None:
                a, b = self.truth(e.body, env), self.truth(e.orelse, env)
                return a if a == b else None
            return self.truth(e.body if t else e.orelse, env)
        if isinstance(e, ast.Constant):
            return bool(e.value)
        if isinstance(e, ast.Name):
            if e.id in env:
                return bool(env[e.id])
            r = self._res(e)
            if r is e or isinstance(r, ast.Name):
                return None
            return self.truth(r, env)
        if isinstance(e, ast.Compare) and len(e.ops) == 1:
            return self._compare(e.left, e.ops[0], e.comparators[0], env)
        if isinstance(e, ast.Compare):
            res = True
            left = e.left
            for op, right in zip(e.ops, e.comparators):
                v = self._compare(left, op, right, env)
                if v is False:
                    return False
                if v is None:
                    res = None
                left = right
            return res
        if isinstance(e, ast.Call):
            fn = chain(e.func)
            if fn in ("any", "all"):
                return self._quant(e, env)
            if fn == "bool" and len(e.args) == 1:
                return self.truth(e.args[0], env)
            if fn == "len" and len(e.args) == 1:
                return True if self.nonempty(e.args[0], env) else None
            if isinstance(e.func, ast.Attribute) and len(e.args) == 1 and not e.keywords:
                a, b = e.func.value, e.args[0]
                if e.func.attr == "isdisjoint":
                    return False if self.contains_key(a, env) and self.contains_key(b, env) else None
                if e.func.attr == "issubset":
                    return False if self.contains_key(a, env) and self.lacks_key(b) else None
                if e.func.attr == "issuperset":
                    return False if self.contains_key(b, env) and self.lacks_key(a) else None
                if e.func.attr == "__contains__" and self.keys_view(a):
                    c = self._const(b, env)
                    return True if c and c[1] == self.key else None
            ne = self.nonempty(e, env)
            if ne:
                return True
            return self._call_truth(e, env)
        ne = self.nonempty(e, env)
        return True if ne else None

    def _compare(self, l, op, r, env):
        if isinstance(op, (ast.In, ast.NotIn)):
            neg = isinstance(op, ast.NotIn)
            c = self._const(l, env)
            if c is not None:
                if self.keys_view(r):
                    if c[1] == self.key:
                        return not neg
                    return None
                s = None
                if isinstance(c[1], str):
                    s = const_strs(self.prog, self.fi, r)
                if s is not None:
                    return (c[1] in s) != neg
            return None
        if isinstance(op, (ast.Eq, ast.NotEq)):
            a, b = self._const(l, env), self._const(r, env)
            if a is not None and b is not None:
                return (a[1] == b[1]) != isinstance(op, ast.NotEq)
            # set(Q) & S == set()  etc. are not modelled
            return None
        if isinstance(op, (ast.LtE, ast.Lt)):
            # keys <= ALLOWED : refuted when `key` is not allowed
            if self.contains_key(l, env) and self.lacks_key(r):
                return False
            return self._len_cmp(l, op, r, env)
        if isinstance(op, (ast.GtE, ast.Gt)):
            if self.contains_key(r, env) and self.lacks_key(l):
                return False
            return self._len_cmp(l, op, r, env)
        return None

    def _len_cmp(self, l, op, r, env):
        """len(X) > 0, len(X) >= 1, 0 < len(X), len(X) < 1 ... for a certainly non-empty X."""
        def ln(x):
            return isinstance(x, ast.Call) and chain(x.func) == "len" and len(x.args) == 1 and self.nonempty(x.args[0], env)
        def num(x):
            return x.value if isinstance(x, ast.Constant) and isinstance(x.value, int) and not isinstance(x.value, bool) else None
        if ln(l) and num(r) is not None:
            n = num(r)  # len >= 1
            if isinstance(op, ast.Gt):
                return True if n <= 0 else None
            if isinstance(op, ast.GtE):
                return True if n <= 1 else None
            if isinstance(op, ast.Lt):
                return False if n <= 1 else None
            if isinstance(op, ast.LtE):
                return False if n <= 0 else None
        if ln(r) and num(l) is not None:
            n = num(l)
            if isinstance(op, ast.Lt):
                return True if n <= 0 else None
            if isinstance(op, ast.LtE):
                return True if n <= 1 else None
            if isinstance(op, ast.Gt):
                return False if n <= 1 else None
            if isinstance(op, ast.GtE):
                return False if n <= 0 else None
        return None

    # -- helpers that receive Q ----------------------------------------------------
    def _callee_with_q(self, call):
        """(callee, its parameter that receives Q) for a call of a function of the analysed module that is
        handed the dict itself."""
        if self.depth >= 3:
            return None
        r = resolve_callee(self.prog, self.fi, call)
        if r is None:
            return None
        callee, bm = r
        if callee is self.fi or callee.module.name != self.fi.module.name:
            return None
        b = bind_call(call, callee, bm)
        if b is None:
            return None
        ps = [p for p, a in b.items() if self.is_q(a)]
        if len(ps) != 1:
            return None
        return callee, ps[0]

    def _call_truth(self, call, env):
        """Truth of `helper(Q)`: the constant every return reachable under the assumption yields."""
        cq = self._callee_with_q(call)
        if cq is None or env:
            return None
        if not self.valid_at_call(call):
            return None
        sub = KeyAssume.of(self.prog, cq[0], cq[1], self.key, self.depth + 1)
        if not sub.usable:
            return None
        vals = set()
        R = sub.reachable()
        if sub.cfg.exit in reach(sub.cfg, {sub.cfg.entry}, avoid=sub.avoid() | {n.id for n in sub.cfg.nodes if n.kind == "return"}, cut=sub.cut(), include_src=True):
            vals.add(False)  # falls off the end: None
        for nd in sub.cfg.nodes:
            if nd.kind == "return" and nd.id in R:
                v = nd.ast.value
                if v is None:
                    vals.add(False)
                elif isinstance(v, ast.Constant):
                    vals.add(bool(v.value))
                else:
                    t = sub.truth(v, {}) if sub.valid_at(nd.id) else None
                    if t is None:
                        return None
                    vals.add(t)
        if len(vals) == 1:
            return vals.pop()
        return None

    def valid_at_call(self, call):
        ids = self.cfg.locate(call)
        return bool(ids) and all(self.valid_at(i) for i in ids)

    # -- does the assumption still hold at a node? ---------------------------------
    def _removes(self, fi, q, depth=0):
        """What a function may remove from / change in the dict held by its parameter q:
        None = nothing, set of parameter names / ('const', k) = only those keys, 'any' = unknown."""
        out = set()
        if writes_to_name(fi.node, q):
            return "any"
        for kind, n in stores_to(fi.node, q):
            if kind in ("setitem", "setdefault", "update", "add", "append", "extend", "insert"):
                continue  # adds / overwrites, never removes a key
            keyx = None
            if kind == "delitem" and isinstance(n, ast.Delete):
                ts = [t for t in n.targets if isinstance(t, ast.Subscript) and chain(t.value) == q]
                if len(ts) == 1:
                    keyx = ts[0].slice
            elif kind == "pop" and isinstance(n, ast.Call) and n.args and chain(n.func.value) == q:
                keyx = n.args[0]
            if keyx is None:
                return "any"
            if isinstance(keyx, ast.Constant):
                out.add(("const", keyx.value))
            elif isinstance(keyx, ast.Name) and keyx.id in all_params(fi) and not writes_to_name(fi.node, keyx.id):
                out.add(("param", keyx.id))
            else:
                return "any"
        # the dict handed on to other code
        for c in calls_in(fi.node, nested=True):
            args = list(c.args) + [k.value for k in c.keywords]
            if not any(isinstance(a, ast.Name) and a.id == q for a in args):
                continue
            fn = chain(c.func)
            if fn in _READER_FUNCS:
                continue
            if isinstance(c.func, ast.Attribute) and c.func.attr in _READER_METHODS and not (isinstance(c.func.value, ast.Name) and c.func.value.id == q):
                continue
            r = resolve_callee(self.prog, fi, c)
            if r is None or depth >= 3:
                return "any"
            callee, bm = r
            b = bind_call(c, callee, bm)
            if b is None:
                return "any"
            ps = [p for p, a in b.items() if isinstance(a, ast.Name) and a.id == q]
            for p in ps:
                sub = self._removes(callee, p, depth + 1)
                if sub == "any":
                    return "any"
                for kind, v in sub or ():
                    if kind == "const":
                        out.add((kind, v))
                    else:
                        a = b.get(v)
                        if isinstance(a, ast.Constant):
                            out.add(("const", a.value))
                        elif isinstance(a, ast.Name) and a.id in all_params(fi) and not writes_to_name(fi.node, a.id):
                            out.add(("param", a.id))
                        else:
                            return "any"
        return out or None

    def _invalid(self):
        """CFG nodes after which `key in Q` may no longer hold."""
        if self._inv is not None:
            return self._inv
        inv = set()
        fi, q = self.fi, self.q
        if isinstance(fi.node, ast.Lambda):
            self._inv = inv
            return inv
        aliases = {q}
        for n in walk_no_nested(fi.node):
            if isinstance(n, ast.Assign) and len(n.targets) == 1 and isinstance(n.targets[0], ast.Name) and isinstance(n.value, ast.Name) and n.value.id == q:
                aliases.add(n.targets[0].id)
        for al in aliases:
            for kind, n in stores_to(fi.node, al):
                if kind in ("setitem", "setdefault", "update"):
                    continue
                keyx = None
                if kind == "delitem" and isinstance(n, ast.Delete) and len(n.targets) == 1 and isinstance(n.targets[0], ast.Subscript):
                    keyx = n.targets[0].slice
                elif kind == "pop" and isinstance(n, ast.Call) and n.args:
                    keyx = n.args[0]
                if isinstance(keyx, ast.Constant) and keyx.value != self.key:
                    continue
                inv.update(self.cfg.locate(n))
            for c in calls_in(fi.node, nested=True):
                args = list(c.args) + [k.value for k in c.keywords]
                if not any(isinstance(a, ast.Name) and a.id == al for a in args):
                    continue
                if chain(c.func) in _READER_FUNCS:
                    continue
                if isinstance(c.func, ast.Attribute) and c.func.attr in _READER_METHODS and not (isinstance(c.func.value, ast.Name) and c.func.value.id in aliases):
                    continue
                ok = False
                r = resolve_callee(self.prog, fi, c)
                if r is not None:
                    callee, bm = r
                    b = bind_call(c, callee, bm)
                    if b is not None:
                        ok = True
                        for p, a in b.items():
                            if isinstance(a, ast.Name) and a.id == al:
                                rem = self._removes(callee, p)
                                if rem == "any":
                                    ok = False
                                for kind, v in (rem or ()) if rem != "any" else ():
                                    kv = v if kind == "const" else (b.get(v).value if isinstance(b.get(v), ast.Constant) else self.key)
                                    if kv == self.key:
                                        ok = False
                if not ok:
                    inv.update(self.cfg.locate(c))
        self._inv = inv
        return inv

    def valid_at(self, nid):
        """No statement that may remove `key` from Q lies on a path from the entry to node nid."""
        inv = self._invalid()
        if not inv:
            return True
        if not hasattr(self, "_tainted"):
            self._tainted = self.cfg.reach(inv) if inv else set()
        return nid not in self._tainted

    # -- pruning -------------------------------------------------------------------
    def _pseudo(self, test_id):
        t = f = None
        for d, lab in self.cfg.succ[test_id]:
            if lab == "T":
                t = d
            elif lab == "F":
                f = d
        return t, f

    def _test_avoid(self, env, only_with=None):
        av = set()
        for nd in self.cfg.nodes:
            if nd.kind != "test" or not self.valid_at(nd.id):
                continue
            if only_with is not None and only_with not in names_in(nd.ast):
                continue
            v = self.truth(nd.ast, env)
            if v is None:
                continue
            t, f = self._pseudo(nd.id)
            dead = f if v else t
            if dead is not None:
                av.add(dead)
        return av

    def cut(self):
        """Statement nodes that never complete normally: they call a helper with Q that has no normal
        exit under the assumption."""
        if self._cut is not None:
            return self._cut
        self._cut = set()
        if self.usable:
            for nd in self.cfg.nodes:
                if nd.kind not in ("stmt", "return") or not self.valid_at(nd.id) or isinstance(nd.ast, (ast.FunctionDef, ast.AsyncFunctionDef, ast.ClassDef)):
                    continue
                for call in _unconditional_calls(nd.ast):
                    cq = self._callee_with_q(call)
                    if cq is None:
                        continue
                    sub = KeyAssume.of(self.prog, cq[0], cq[1], self.key, self.depth + 1)
                    if sub.usable and not sub.completes():
                        self._cut.add(nd.id)
        return self._cut

    def avoid(self):
        """Branch pseudo-nodes (T / F of tests, F of `for` loops) that cannot be taken."""
        if self._avoid is not None:
            return self._avoid
        self._avoid = set()
        if not self.usable:
            return self._avoid
        av = self._test_avoid({})
        cut = self.cut()
        changed = True
        while changed:
            changed = False
            for nd in self.cfg.nodes:
                if nd.kind != "for" or not isinstance(nd.ast, ast.For):
                    continue
                t, f = self._pseudo(nd.id)
                if f is None or f in av or t is None:
                    continue
                st = nd.ast
                if not self.valid_at(nd.id):
                    continue
                x = self.loop_var(st.target, st.iter)
                if x is None or len(writes_to_name(self.fi.node, x)) != 1:
                    continue
                # the iteration in which x == key: can it come back to the loop head?
                local = self._test_avoid({x: self.key}, only_with=x)
                back = reach(self.cfg, {t}, avoid=av | local, cut=cut)
                if nd.id not in back:
                    # that iteration never completes, so the iterator is never exhausted
                    av.add(f)
                    changed = True
        self._avoid = av
        return av

    def reachable(self, skip_labels=()):
        return reach(self.cfg, {self.cfg.entry}, avoid=self.avoid(), cut=self.cut(), skip_labels=skip_labels, include_src=True)

    def completes(self):
        """Can the function return normally under the assumption?"""
        return self.cfg.exit in self.reachable()

    def normal_ends(self):
        """(raise nodes, return nodes, falls_through, never-completing call nodes) reachable without
        exceptional edges under the assumption."""
        R = self.reachable(skip_labels=("exc",))
        raises = [self.cfg.nodes[n] for n in sorted(R) if self.cfg.nodes[n].kind == "raise"]
        rets = [self.cfg.nodes[n] for n in sorted(R) if self.cfg.nodes[n].kind == "return" and n not in self.cut()]
        cuts = [self.cfg.nodes[n] for n in sorted(R) if n in self.cut()]
        return raises, rets, self.cfg.exit in R, cuts

    def refuting(self):
        """The test / loop constructs whose outcome is decided by the assumption (for reports)."""
        return [self.cfg.nodes[n] for n in sorted(self.avoid())]


# ---------------------------------------------------------------------------
# C20.c: a returned value that is known not to be a key of a table


_PURE_FUNCS = {"str", "int", "repr", "tuple", "format", "chr", "hex", "oct", "bytes", "len", "abs"}


def pure_value(e):
    """The expression denotes the same value every time it is evaluated while the names in it keep their
    values: names, constants, tuples, arithmetic, string formatting, str()/int()/repr()/tuple() of such."""
    for n in ast.walk(e):
        if isinstance(n, ast.Call):
            if chain(n.func) in _PURE_FUNCS and not any(isinstance(a, ast.Starred) for a in n.args):
                continue
            if isinstance(n.func, ast.Attribute) and n.func.attr in ("format", "join", "zfill", "lower", "upper") :
                continue
            return False
        if isinstance(n, (ast.Await, ast.Yield, ast.YieldFrom, ast.NamedExpr, ast.Lambda, ast.ListComp, ast.SetComp, ast.DictComp, ast.GeneratorExp, ast.List, ast.Dict, ast.Set)):
            return False
    return True


def absent_test(fi, e, table_chain):
    """(X, pol): atomic test e has truth value pol exactly when X is NOT a key of <table_chain>;
    None when e is not such a membership test.  Spellings: `X not in T`, `X in T`, `X in T.keys()`,
    `T.__contains__(X)`, with `not` in front, T possibly through a single-assignment alias."""
    pol = True
    while isinstance(e, ast.UnaryOp) and isinstance(e.op, ast.Not):
        e = e.operand
        pol = not pol

    def is_table(t):
        if isinstance(t, ast.Call) and isinstance(t.func, ast.Attribute) and t.func.attr == "keys" and not t.args:
            t = t.func.value
        if isinstance(t, ast.Name) and not isinstance(fi.node, ast.Lambda):
            t = resolve_local(fi.node, t)
        return chain(t) == table_chain

    if isinstance(e, ast.Compare) and len(e.ops) == 1 and isinstance(e.ops[0], (ast.In, ast.NotIn)) and is_table(e.comparators[0]):
        return e.left, (pol if isinstance(e.ops[0], ast.NotIn) else not pol)
    if isinstance(e, ast.Call) and isinstance(e.func, ast.Attribute) and e.func.attr == "__contains__" and len(e.args) == 1 and is_table(e.func.value):
        return e.args[0], not pol
    return None


def _conjuncts(e, pol=True):
    """[(atom, polarity)] that certainly hold when e has truth value pol."""
    if isinstance(e, ast.UnaryOp) and isinstance(e.op, ast.Not):
        return _conjuncts(e.operand, not pol)
    if isinstance(e, ast.BoolOp):
        if isinstance(e.op, ast.And) and pol:
            return [c for v in e.values for c in _conjuncts(v, True)]
        if isinstance(e.op, ast.Or) and not pol:
            return [c for v in e.values for c in _conjuncts(v, False)]
        return []
    return [(e, pol)]


def _callable_body(prog, fi, f):
    """(parameter names, returned expression, scope FuncInfo) of a lambda / nested def / local function
    with a single `return`; ('bound', receiver, method name) for a bound method value; else None."""
    if isinstance(f, ast.Name) and not isinstance(fi.node, ast.Lambda):
        r = resolve_local(fi.node, f)
        if r is not f:
            return _callable_body(prog, fi, r)
    if isinstance(f, ast.Lambda):
        a = f.args
        return ([x.arg for x in a.posonlyargs + a.args], f.body, lambda_info(fi, f))
    if isinstance(f, ast.Name):
        g = fi
        while g is not None:
            q = g.qn + ".<locals>." + f.id
            if q in prog.funcs:
                t = prog.funcs[q]
                rets = [n for n in walk_no_nested(t.node) if isinstance(n, ast.Return)]
                body = [s for s in t.node.body if not (isinstance(s, ast.Expr) and isinstance(s.value, ast.Constant))]
                if len(rets) == 1 and len(body) == 1 and body[0] is rets[0] and rets[0].value is not None:
                    return (all_params(t), rets[0].value, t)
                return None
            g = g.parent
        return None
    if isinstance(f, ast.Attribute):
        return ("bound", f.value, f.attr)
    return None


def filtered_absent(prog, fi, e, table_chain, depth=0, first_only=False):
    """Every element the iterable / value expression e can produce is certainly not a key of the table:
    a generator expression / comprehension with a filter `elt not in T`, filter(pred, it) with
    pred(x) == `x not in T`, itertools.filterfalse / dropwhile with pred(x) == `x in T`, and
    next(...) / [..][i] / iter(...) of those."""
    if depth > 4:
        return False
    if isinstance(e, ast.Name) and not isinstance(fi.node, ast.Lambda):
        r = resolve_local(fi.node, e)
        if r is e or len(writes_to_name(fi.node, e.id)) != 1:
            return False
        return filtered_absent(prog, fi, r, table_chain, depth + 1, first_only)
    if isinstance(e, (ast.GeneratorExp, ast.ListComp, ast.SetComp)):
        if not pure_value(e.elt):
            return False
        for g in e.generators:
            for c in g.ifs:
                for atom, pol in _conjuncts(c, True):
                    a = absent_test(fi, atom, table_chain)
                    if a is not None and a[1] == pol and dump(a[0]) == dump(e.elt):
                        return True
        # an identity comprehension over a filtered iterable
        if len(e.generators) == 1 and not e.generators[0].ifs and dump(e.generators[0].target) == dump(e.elt):
            return filtered_absent(prog, fi, e.generators[0].iter, table_chain, depth + 1)
        return False
    if isinstance(e, ast.Subscript) and not isinstance(e.slice, ast.Slice):
        return filtered_absent(prog, fi, e.value, table_chain, depth + 1)  # an element of a filtered sequence
    if isinstance(e, ast.Call) and not e.keywords:
        fn = (chain(e.func) or "").split(".")[-1]
        if fn == "next" and len(e.args) == 1:  # a default value would not be covered by the filter
            return filtered_absent(prog, fi, e.args[0], table_chain, depth + 1, first_only=True)
        if fn == "iter" and len(e.args) == 1:
            return filtered_absent(prog, fi, e.args[0], table_chain, depth + 1, first_only=first_only)
        if fn in ("list", "tuple", "sorted", "reversed") and len(e.args) == 1:
            return filtered_absent(prog, fi, e.args[0], table_chain, depth + 1)
        if fn == "dropwhile" and not first_only:
            return False  # only the first element is known to fail the predicate
        if fn in ("filter", "filterfalse", "dropwhile") and len(e.args) == 2:
            want_absent = fn == "filter"
            cb = _callable_body(prog, fi, e.args[0])
            if cb is None:
                return False
            if cb[0] == "bound":
                recv = cb[1]
                if isinstance(recv, ast.Name) and not isinstance(fi.node, ast.Lambda):
                    recv = resolve_local(fi.node, recv)
                return cb[2] == "__contains__" and chain(recv) == table_chain and not want_absent
            ps, body, scope = cb
            if len(ps) != 1:
                return False
            for atom, pol in _conjuncts(body, want_absent):
                a = absent_test(scope if not isinstance(scope.node, ast.Lambda) else fi, atom, table_chain)
                if a is not None and isinstance(a[0], ast.Name) and a[0].id == ps[0] and a[1] == pol:
                    return True
            return False
    return False


def unused_member(prog, fi, ret, table_chain):
    """The value of `return <v>` is certainly not a key of <table_chain> at the time of the return:
    either a branch outcome that dominates the return says so (and nothing the value depends on is
    rebound between that test and the return), or the value is drawn from an iterable filtered by the
    absence test.  The function must not write the table itself."""
    if ret.value is None:
        return False
    if stores_to(fi.node, table_chain):
        return False
    cfg = cfg_of(fi)
    nid = cfg.loc1(ret)
    v = ret.value
    cands = [v]
    if isinstance(v, ast.Name):
        r = resolve_local(fi.node, v)
        if r is not v and len(writes_to_name(fi.node, v.id)) == 1:
            cands.append(r)
    if any(filtered_absent(prog, fi, c, table_chain) for c in cands):
        return True
    for e, pol, pid in cfg.guards(nid):
        a = absent_test(fi, e, table_chain)
        if a is None or a[1] != pol:
            continue
        x = a[0]
        if not any(dump(x) == dump(c) for c in cands) or not pure_value(x):
            continue
        # attribute chains in the value must not be stored to in this function
        if any(isinstance(n, ast.Attribute) and chain(n) and stores_to(fi.node, chain(n)) for n in ast.walk(x)):
            continue
        tests = set(cfg.locate(e))
        between = cfg.reach({pid}, avoid=tests)
        wr = [wn for nm in names_in(x) for w in writes_to_name(fi.node, nm) for wn in cfg.locate(w)]
        if any(wn in between and (wn == nid or nid in cfg.reach({wn}, avoid=tests)) for wn in wr):
            continue
        return True
    return False


# ---------------------------------------------------------------------------
# C20.h: mutation sites and the freshness of what they mutate

_MUTATORS = {"append", "extend", "insert", "update", "remove", "pop", "clear", "setdefault", "sort", "reverse", "add", "discard", "popitem",
             "appendleft", "popleft", "extendleft", "intersection_update", "difference_update", "symmetric_difference_update", "__setitem__", "__delitem__"}
_COPY_FUNCS = {"list", "dict", "set", "sorted", "tuple", "frozenset", "copy.copy", "copy.deepcopy", "copy", "deepcopy", "reversed", "collections.OrderedDict",
               "OrderedDict", "collections.defaultdict", "defaultdict", "collections.deque", "deque", "bytearray"}


class Freshness:
    """Finds, in a function and in the closures / rd.py functions it calls, every in-place mutation
    (mutating method call, item / attribute store or delete, `x += [..]`) and decides whether the mutated
    object was created during the call: a container display or comprehension, a copying constructor
    (`list(x)`, `dict(x)`, `x.copy()`, a slice, `a + b`), a freshly constructed object, a conditional
    expression of those, a local all of whose definitions are such, or a parameter that receives such a
    value at every call site.  Everything else (self, parameters, loop / comprehension variables, attribute
    chains, elements of containers) may be owned by the registration."""

    def __init__(self, prog, ctor_names=("Link", "LinkFormat")):
        self.prog = prog
        self.ctor_names = set(ctor_names)
        self.bad = []  # (fi, node, why)
        self.sites = 0
        self.done = set()

    # -- freshness of values -------------------------------------------------
    def fresh_expr(self, fi, e, pf, seen=()):
        if isinstance(e, (ast.List, ast.Dict, ast.Set, ast.ListComp, ast.DictComp, ast.SetComp, ast.Tuple, ast.GeneratorExp, ast.Constant, ast.JoinedStr)):
            return True
        if isinstance(e, ast.BinOp):
            return True  # binary operators on builtin containers / strings build a new object
        if isinstance(e, ast.Subscript):
            return isinstance(e.slice, ast.Slice) and self._builtin_sliceable(fi, e.value, pf)
        if isinstance(e, ast.IfExp):
            return self.fresh_expr(fi, e.body, pf, seen) and self.fresh_expr(fi, e.orelse, pf, seen)
        if isinstance(e, ast.NamedExpr):
            return self.fresh_expr(fi, e.value, pf, seen)
        if isinstance(e, ast.Name):
            return self.fresh_name(fi, e.id, pf, seen)
        if isinstance(e, ast.Call):
            fn = chain(e.func) or ""
            if fn in _COPY_FUNCS or fn.split(".")[-1] in self.ctor_names:
                return True
            if isinstance(e.func, ast.Attribute):
                if e.func.attr == "copy" and not e.args:
                    return True
                if e.func.attr in ("split", "join", "format", "replace", "strip", "lower", "upper"):
                    return True  # str methods build strings
            r = resolve_callee(self.prog, fi, e)
            if r is not None and r[0].qn not in seen and len(seen) < 4:
                callee, bm = r
                b = bind_call(e, callee, bm)
                if b is not None:
                    cpf = {p: self.fresh_expr(fi, a, pf, seen) for p, a in b.items()}
                    rets = [n for n in walk_no_nested(callee.node) if isinstance(n, ast.Return)]
                    return bool(rets) and all(n.value is not None and self.fresh_expr(callee, n.value, cpf, tuple(seen) + (callee.qn,)) for n in rets)
            return False
        return False

    def _builtin_sliceable(self, fi, e, pf):
        return True  # a slice of a list / tuple / str is a copy (the package defines no __getitem__ returning views)

    def fresh_name(self, fi, name, pf, seen=()):
        if name in ("self", "cls") or ("n", fi.qn, name) in seen:
            return False
        seen = tuple(seen) + (("n", fi.qn, name),)
        if isinstance(fi.node, ast.Lambda):
            a = fi.node.args
            if name in [x.arg for x in a.posonlyargs + a.args + a.kwonlyargs]:
                return bool(pf.get(name))
            return fi.parent is not None and self.fresh_name(fi.parent, name, getattr(fi.parent, "_c20_pf", {}), seen)
        ws = writes_to_name(fi.node, name)
        if name in all_params(fi):
            if not pf.get(name):
                return False
            if not ws:
                return True
        if not ws:
            # comprehension variable of this function?  (an element of some container: not fresh)
            for n in walk_no_nested(fi.node):
                if isinstance(n, ast.comprehension) and any(isinstance(x, ast.Name) and x.id == name for x in ast.walk(n.target)):
                    return False
            # closure variable
            if fi.parent is not None:
                return self.fresh_name(fi.parent, name, getattr(fi.parent, "_c20_pf", {}), seen)
            return False
        for w in ws:
            if isinstance(w, ast.Assign) and len(w.targets) == 1 and isinstance(w.targets[0], ast.Name):
                if not self.fresh_expr(fi, w.value, pf, seen):
                    return False
            elif isinstance(w, ast.AugAssign):
                continue  # in-place / rebinding on an object whose other definitions are checked
            elif isinstance(w, ast.AnnAssign) and w.value is not None:
                if not self.fresh_expr(fi, w.value, pf, seen):
                    return False
            elif isinstance(w, ast.NamedExpr):
                if not self.fresh_expr(fi, w.value, pf, seen):
                    return False
            else:
                return False  # loop variable, with-target, tuple unpacking, handler name
        return True

    def fresh_receiver(self, fi, r, pf):
        """The object a mutation acts on was created in this call."""
        if isinstance(r, ast.Name):
            return self.fresh_name(fi, r.id, pf)
        if isinstance(r, ast.Call) and isinstance(r.func, ast.Attribute) and r.func.attr == "setdefault" and len(r.args) == 2:
            # d.setdefault(k, []) on a fresh d: the element is either the fresh default or an earlier fresh default
            return self.fresh_receiver(fi, r.func.value, pf) and self.fresh_expr(fi, r.args[1], pf) and self._only_fresh_items(fi, r.func.value, pf)
        if isinstance(r, (ast.List, ast.Dict, ast.Set, ast.ListComp, ast.DictComp, ast.SetComp)):
            return True
        if isinstance(r, ast.Call):
            return self.fresh_expr(fi, r, pf) and not (isinstance(r.func, ast.Attribute) and r.func.attr in ("keys", "values", "items"))
        if isinstance(r, ast.Attribute):
            return self._fresh_field(fi, r, pf)
        return False

    def _fresh_field(self, fi, r, pf):
        """`X.a` where X is an object constructed in this very call by a class of the analysed program whose
        constructor stores a container of its own making into `a` (`Link(...).attr_pairs`: Link.__init__ builds
        the pair list with a comprehension), and every other store to `X.a` in the function is a fresh value:
        filling in the result object after constructing it is the same fact as passing everything to the
        constructor.  The constructor is read, never assumed: a class that keeps the argument itself
        (`self.a = a`) makes `X.a` as fresh as that argument."""
        x = r.value
        if isinstance(fi.node, ast.Lambda):
            return False
        if isinstance(x, ast.Name):
            if x.id in all_params(fi) or x.id in ("self", "cls"):
                return False
            ws = writes_to_name(fi.node, x.id)
            if not ws or not all(isinstance(w, ast.Assign) and len(w.targets) == 1 and isinstance(w.targets[0], ast.Name) and isinstance(w.value, ast.Call) for w in ws):
                return False
            ctors = [w.value for w in ws]
            for n in walk_no_nested(fi.node):
                if isinstance(n, ast.Assign):
                    for t in n.targets:
                        for tt in (t.elts if isinstance(t, (ast.Tuple, ast.List)) else [t]):
                            if isinstance(tt, ast.Attribute) and isinstance(tt.value, ast.Name) and tt.value.id == x.id and tt.attr == r.attr \
                                    and (tt is not t or not self.fresh_expr(fi, n.value, pf)):
                                return False
                elif isinstance(n, ast.AnnAssign) and isinstance(n.target, ast.Attribute) and isinstance(n.target.value, ast.Name) \
                        and n.target.value.id == x.id and n.target.attr == r.attr:
                    return False
        elif isinstance(x, ast.Call):
            ctors = [x]
        else:
            return False
        for call in ctors:
            cn = chain(call.func)
            if not cn:
                return False
            try:
                cq = self.prog.resolve_in_module(fi.module, cn)
            except AnalysisError:
                return False
            if cq not in self.prog.classes:
                return False
            init = self.prog.lookup_method(cq, "__init__")
            if init is None or self.prog.lookup_method(cq, "__new__") is not None or self.prog.lookup_method(cq, "__setattr__") is not None:
                return False
            b = bind_call(call, init, True)
            if b is None:
                return False
            recv = all_params(init)[0]
            cpf = {p: self.fresh_expr(fi, a, pf) for p, a in b.items()}
            stores = []
            for n in walk_no_nested(init.node):
                if isinstance(n, (ast.Assign, ast.AugAssign, ast.AnnAssign)):
                    tg = n.targets if isinstance(n, ast.Assign) else [n.target]
                    for t in tg:
                        for tt in ast.walk(t):
                            if isinstance(tt, ast.Attribute) and isinstance(tt.value, ast.Name) and tt.value.id == recv and tt.attr == r.attr:
                                if not (isinstance(n, ast.Assign) and tt is t and len(n.targets) == 1):
                                    return False
                                stores.append(n.value)
                elif isinstance(n, ast.Call) and chain(n.func) in ("setattr", "super().__init__", "vars", "self.__dict__.update"):
                    return False
            if not stores or not all(self.fresh_expr(init, v, cpf) for v in stores):
                return False
        return True

    def _only_fresh_items(self, fi, d, pf):
        if not isinstance(d, ast.Name):
            return False
        for kind, n in stores_to(fi.node, d.id, nested=False):
            if kind == "setitem" and isinstance(n, ast.Assign) and not self.fresh_expr(fi, n.value, pf):
                return False
        for w in writes_to_name(fi.node, d.id):
            if isinstance(w, ast.Assign) and not (isinstance(w.value, (ast.Dict, ast.List)) and not (w.value.keys if isinstance(w.value, ast.Dict) else w.value.elts)) \
                    and not (isinstance(w.value, ast.Call) and chain(w.value.func) in ("dict", "collections.defaultdict", "defaultdict") and not w.value.keywords and
                             all(isinstance(a, ast.Name) and a.id in ("list", "dict", "set") for a in w.value.args)):
                return False
        return True

    # -- traversal ---------------------------------------------------------------
    def analyse(self, fi, pf=None):
        pf = dict(pf or {})
        key = (fi.qn, tuple(sorted(pf.items())))
        if key in self.done or len(self.done) > 200:
            return
        self.done.add(key)
        fi._c20_pf = pf
        body = fi.node
        nested = []
        for n in walk_no_nested(body):
            if n is body:
                continue
            if isinstance(n, (ast.FunctionDef, ast.AsyncFunctionDef, ast.Lambda)):
                nested.append(n)
                continue
            if isinstance(n, ast.Call) and isinstance(n.func, ast.Attribute) and n.func.attr in _MUTATORS:
                self.sites += 1
                if not self.fresh_receiver(fi, n.func.value, pf):
                    self.bad.append((fi, n, "%s() on %s" % (n.func.attr, stmt_text(n.func.value, 50))))
            if isinstance(n, (ast.Assign, ast.AugAssign, ast.AnnAssign, ast.Delete)):
                tgts = n.targets if isinstance(n, (ast.Assign, ast.Delete)) else [n.target]
                for t in tgts:
                    for tt in (t.elts if isinstance(t, (ast.Tuple, ast.List)) else [t]):
                        if isinstance(tt, (ast.Attribute, ast.Subscript)):
                            self.sites += 1
                            if not self.fresh_receiver(fi, tt.value, pf):
                                self.bad.append((fi, n, "store through %s" % stmt_text(tt.value, 50)))
                        elif isinstance(tt, ast.Name) and isinstance(n, ast.AugAssign) and \
                                isinstance(n.value, (ast.List, ast.Dict, ast.Set, ast.ListComp, ast.DictComp, ast.SetComp)):
                            # x += [..] extends the list x refers to in place
                            self.sites += 1
                            if not self.fresh_name(fi, tt.id, pf):
                                self.bad.append((fi, n, "in-place %s on %s" % (type(n.op).__name__, tt.id)))
            if isinstance(n, ast.Call):
                r = resolve_callee(self.prog, fi, n)
                if r is not None and r[0].module.name == fi.module.name and not isinstance(r[0].node, ast.Lambda) and r[0].parent is None:
                    callee, bm = r
                    b = bind_call(n, callee, bm)
                    cpf = {p: self.fresh_expr(fi, a, pf) for p, a in (b or {}).items()}
                    self.analyse(callee, cpf)
        # closures: parameters are fresh only when every use of the closure is a direct call with a fresh argument
        for nd in nested:
            if isinstance(nd, ast.Lambda):
                self.analyse(lambda_info(fi, nd), {})
                continue
            g = self.prog.funcs.get(fi.qn + ".<locals>." + nd.name)
            if g is None:
                continue
            uses = [x for x in walk_no_nested(body) if isinstance(x, ast.Name) and x.id == nd.name and isinstance(x.ctx, ast.Load)]
            calls = [c for c in walk_no_nested(body) if isinstance(c, ast.Call) and isinstance(c.func, ast.Name) and c.func.id == nd.name]
            cpf = {}
            if uses and len(uses) == len(calls):
                binds = [bind_call(c, g, False) for c in calls]
                if all(b is not None for b in binds):
                    for p in all_params(g):
                        cpf[p] = all(p in b and self.fresh_expr(fi, b[p], pf) for b in binds)
            self.analyse(g, cpf)


# ---------------------------------------------------------------------------
# C20.i: how one (key, value) pair of a link is rendered


class PairCtx:
    """One place where the key and the value of one element of self.attr_pairs are bound:
    scope (FuncInfo or None for a lambda), the names of the key / the value / the whole pair (each may be
    None), the region in which the pair is rendered (`stmts`: a statement list, else a list of
    expressions) and the conditions [(expr, True)] that hold for the whole region (comprehension filters)."""
    __slots__ = ("scope", "k", "v", "pair", "roots", "base", "stmts")

    def __init__(self, scope, k, v, pair, roots, base, stmts):
        self.scope, self.k, self.v, self.pair, self.roots, self.base, self.stmts = scope, k, v, pair, roots, base, stmts

    def _idx(self, e):
        if self.pair is not None and isinstance(e, ast.Subscript) and isinstance(e.value, ast.Name) and e.value.id == self.pair \
                and isinstance(e.slice, ast.Constant) and isinstance(e.slice.value, int):
            return e.slice.value
        return None

    def is_key(self, e):
        return (isinstance(e, ast.Name) and self.k is not None and e.id == self.k) or self._idx(e) in (0, -2)

    def is_val(self, e):
        return (isinstance(e, ast.Name) and self.v is not None and e.id == self.v) or self._idx(e) in (1, -1)

    def is_pair(self, e):
        return isinstance(e, ast.Name) and self.pair is not None and e.id == self.pair


_PAIR_WRAPPERS = ("list", "tuple", "iter", "sorted", "reversed")


def _is_pairs_source(fi, e, sources):
    if isinstance(e, ast.Name) and e.id not in sources and not isinstance(fi.node, ast.Lambda):
        e = resolve_local(fi.node, e)
    if isinstance(e, ast.Call) and chain(e.func) in _PAIR_WRAPPERS and len(e.args) == 1:
        return _is_pairs_source(fi, e.args[0], sources)
    return chain(e) in sources


def _unpack_of(roots, name):
    """(k, v) when the region unpacks local `name` into two names: `k, v = name`."""
    for root in roots:
        for s in ast.walk(root):
            if isinstance(s, ast.Assign) and len(s.targets) == 1 and isinstance(s.targets[0], (ast.Tuple, ast.List)) and len(s.targets[0].elts) == 2 \
                    and all(isinstance(x, ast.Name) for x in s.targets[0].elts) and isinstance(s.value, ast.Name) and s.value.id == name:
                return s.targets[0].elts[0].id, s.targets[0].elts[1].id
    return None, None


def pair_contexts(prog, outer, attr="attr_pairs"):
    """Places of `outer`, of its closures and of the functions of its module it hands `self` or the pair list
    to, where the key and the value of one element of self.<attr> are bound -> [PairCtx].
    Binding forms: `for k, v in PAIRS` / `for p in PAIRS` (statement or comprehension; `k, v = p` or
    `p[0]`, `p[1]` inside), a callable f (closure, lambda, method, module function, functools.partial of one)
    called as f(k, v) / f(*p) / f(p) / f(p[0], p[1]) inside such a region, `itertools.starmap(f, PAIRS)`,
    `map(f, PAIRS)`.  PAIRS is `self.<attr>`, possibly through list()/tuple()/iter()/sorted()/reversed(), a
    single-assignment local, or a parameter that received it."""
    ctxs = []
    done = set()

    def add(scope, k, v, pair, roots, base, stmts):
        ctxs.append(PairCtx(scope, k, v, pair, roots, base, stmts))

    def callable_ctx(fi, f, npos):
        """f is called with the key and the value (npos == 2) or with the whole pair (npos == 1)."""
        if isinstance(f, ast.Name) and not isinstance(fi.node, ast.Lambda):
            r = resolve_local(fi.node, f)
            if r is not f and isinstance(r, ast.Lambda):
                f = r
        if isinstance(f, ast.Lambda):
            a = f.args
            ps = [x.arg for x in a.posonlyargs + a.args]
            if len(ps) == npos == 2:
                add(None, ps[0], ps[1], None, [f.body], [], False)
            elif len(ps) == npos == 1:
                add(None, None, None, ps[0], [f.body], [], False)
            return
        r = callable_target(prog, fi, f) if not isinstance(fi.node, ast.Lambda) or not isinstance(f, ast.Name) else None
        if r is None and isinstance(f, ast.Name):
            g = fi
            while g is not None and r is None:
                t = prog.funcs.get(g.qn + ".<locals>." + f.id)
                r = (t, {}) if t is not None else None
                g = g.parent
        if r is None:
            return
        tgt, bound = r
        if isinstance(tgt.node, ast.Lambda):
            return callable_ctx(fi, tgt.node, npos)
        ps = all_params(tgt)
        if tgt.cls is not None and not is_static(tgt) and ps:
            ps = ps[1:]
        ps = [p for p in ps if p not in bound]
        if ("ctx", tgt.qn) in done:
            return
        body = list(tgt.node.body)
        if npos == 2 and len(ps) == 2:
            done.add(("ctx", tgt.qn))
            add(tgt, ps[0], ps[1], None, body, [], True)
            region_calls(tgt, body, ps[0], ps[1], None)
        elif npos == 1 and len(ps) == 1:
            done.add(("ctx", tgt.qn))
            k, v = _unpack_of(body, ps[0])
            add(tgt, k, v, ps[0], body, [], True)
            region_calls(tgt, body, k, v, ps[0])

    def region_calls(fi, roots, k, v, pair):
        c = PairCtx(fi, k, v, pair, roots, [], True)
        for root in roots:
            for n in ast.walk(root):
                if not isinstance(n, ast.Call) or n.keywords:
                    continue
                if len(n.args) == 2 and c.is_key(n.args[0]) and c.is_val(n.args[1]):
                    callable_ctx(fi, n.func, 2)
                elif len(n.args) == 1 and isinstance(n.args[0], ast.Starred) and c.is_pair(n.args[0].value):
                    callable_ctx(fi, n.func, 2)
                elif len(n.args) == 1 and c.is_pair(n.args[0]) and chain(n.func) not in _PAIR_WRAPPERS + ("len", "str", "repr"):
                    callable_ctx(fi, n.func, 1)

    def scan(fi, sources, depth):
        if (fi.qn, tuple(sorted(sources))) in done or depth > 3:
            return
        done.add((fi.qn, tuple(sorted(sources))))
        for n in walk_no_nested(fi.node):
            target = it = None
            roots, emit, base, stmts = [], [], [], False
            if isinstance(n, (ast.For, ast.AsyncFor)):
                target, it, roots = n.target, n.iter, list(n.body)
                emit, stmts = roots, True
            elif isinstance(n, (ast.ListComp, ast.SetComp, ast.GeneratorExp, ast.DictComp)):
                for gi, g in enumerate(n.generators):
                    if _is_pairs_source(fi, g.iter, sources):
                        target, it = g.target, g.iter
                        emit = [n.elt] if not isinstance(n, ast.DictComp) else [ast.Tuple(elts=[n.key, n.value], ctx=ast.Load())]
                        roots = emit + list(g.ifs) + [x for g2 in n.generators[gi + 1:] for x in [g2.iter] + list(g2.ifs)]
                        base = [(c, True) for g2 in n.generators[gi:] for c in g2.ifs]
                        break
            elif isinstance(n, ast.Call) and not n.keywords and len(n.args) == 2 and (chain(n.func) or "").split(".")[-1] in ("starmap", "map") \
                    and _is_pairs_source(fi, n.args[1], sources):
                callable_ctx(fi, n.args[0], 2 if (chain(n.func) or "").split(".")[-1] == "starmap" else 1)
                continue
            elif isinstance(n, ast.Call):
                # self / the pair list handed to another function of the module: its loops are scanned too
                r = resolve_callee(prog, fi, n)
                if r is not None and r[0].module is fi.module and not any(isinstance(a, ast.Starred) for a in n.args):
                    callee, bm = r
                    b = bind_call(n, callee, bm) or {}
                    new = set()
                    for p, a in b.items():
                        if _is_pairs_source(fi, a, sources):
                            new.add(p)
                        elif isinstance(a, ast.Name) and (a.id + "." + attr) in sources:
                            new.add(p + "." + attr)
                    if bm and isinstance(n.func, ast.Attribute) and (chain(n.func.value) or "") + "." + attr in sources:
                        ps = callee.node.args.posonlyargs + callee.node.args.args
                        if ps:
                            new.add(ps[0].arg + "." + attr)
                    if new:
                        scan(callee, frozenset(new), depth + 1)
                continue
            if target is None or not _is_pairs_source(fi, it, sources):
                continue
            if isinstance(target, (ast.Tuple, ast.List)) and len(target.elts) == 2 and all(isinstance(x, ast.Name) for x in target.elts):
                k, v = target.elts[0].id, target.elts[1].id
                add(fi, k, v, None, emit, base, stmts)
                region_calls(fi, roots, k, v, None)
            elif isinstance(target, ast.Name):
                k, v = _unpack_of(roots, target.id)
                add(fi, k, v, target.id, emit, base, stmts)
                region_calls(fi, roots, k, v, target.id)
        for q, f in list(prog.funcs.items()):
            if f.parent is fi:
                scan(f, sources, depth + 1)

    scan(outer, frozenset({"self." + attr}), 0)
    return ctxs


_UNK = object()
_STR_METHODS = {"strip", "lstrip", "rstrip", "lower", "upper", "startswith", "endswith", "isdigit", "isalnum", "isalpha", "isspace", "replace", "encode", "casefold", "title"}


def _sample_value(e, ctx, s):
    """Value of the pure expression e when the pair's value is the string s (key and everything else
    unknown); _UNK when it does not follow."""
    if isinstance(e, ast.Constant):
        return e.value
    if ctx.is_val(e):
        return s
    if isinstance(e, (ast.Tuple, ast.List, ast.Set)):
        vals = [_sample_value(x, ctx, s) for x in e.elts]
        if any(x is _UNK for x in vals):
            return _UNK
        return tuple(vals)
    if isinstance(e, ast.Call) and isinstance(e.func, ast.Name) and e.func.id == "isinstance":
        if len(e.args) != 2 or e.keywords:
            return _UNK
        names = [chain(x) for x in (e.args[1].elts if isinstance(e.args[1], ast.Tuple) else [e.args[1]])]
        known = {"str": str, "bytes": bytes, "int": int, "float": float, "bool": bool, "list": list, "tuple": tuple, "dict": dict}
        obj = _sample_value(e.args[0], ctx, s)
        if obj is _UNK or not all(nm in known for nm in names):
            return _UNK
        return isinstance(obj, tuple(known[nm] for nm in names))
    if isinstance(e, ast.Call) and not e.keywords and not any(isinstance(a, ast.Starred) for a in e.args):
        args = [_sample_value(a, ctx, s) for a in e.args]
        if any(a is _UNK for a in args):
            return _UNK
        try:
            if isinstance(e.func, ast.Name) and e.func.id in ("len", "str", "bool", "repr") and len(args) == 1:
                return {"len": len, "str": str, "bool": bool, "repr": repr}[e.func.id](args[0])
            if isinstance(e.func, ast.Attribute) and e.func.attr in _STR_METHODS:
                recv = _sample_value(e.func.value, ctx, s)
                if isinstance(recv, str):
                    return getattr(recv, e.func.attr)(*args)
        except Exception:
            return _UNK
        return _UNK
    if isinstance(e, ast.Call):
        return _UNK
    t = _sample_truth(e, ctx, s, values=False)
    return _UNK if t is None else t


def _sample_truth(e, ctx, s, values=True):
    """Three-valued truth of e when the pair's value is the string s."""
    if isinstance(e, ast.UnaryOp) and isinstance(e.op, ast.Not):
        t = _sample_truth(e.operand, ctx, s)
        return None if t is None else not t
    if isinstance(e, ast.BoolOp):
        ts = [_sample_truth(x, ctx, s) for x in e.values]
        if isinstance(e.op, ast.And):
            return False if any(t is False for t in ts) else (True if all(t is True for t in ts) else None)
        return True if any(t is True for t in ts) else (False if all(t is False for t in ts) else None)
    if isinstance(e, ast.Compare) and len(e.ops) == 1:
        l, r = _sample_value(e.left, ctx, s), _sample_value(e.comparators[0], ctx, s)
        op = e.ops[0]
        if isinstance(op, (ast.Is, ast.IsNot)):
            # identity is only decided against the singleton None
            if l is _UNK or r is _UNK or not (l is None or r is None):
                return None
            res = l is None and r is None
            return res if isinstance(op, ast.Is) else not res
        if l is _UNK or r is _UNK:
            return None
        try:
            if isinstance(op, ast.Eq):
                return l == r
            if isinstance(op, ast.NotEq):
                return l != r
            if isinstance(op, ast.In):
                return l in r
            if isinstance(op, ast.NotIn):
                return l not in r
            if isinstance(op, ast.Lt):
                return l < r
            if isinstance(op, ast.LtE):
                return l <= r
            if isinstance(op, ast.Gt):
                return l > r
            if isinstance(op, ast.GtE):
                return l >= r
        except Exception:
            return None
        return None
    if isinstance(e, ast.Compare):
        return None
    if isinstance(e, ast.BinOp) and isinstance(e.op, ast.Mod) and isinstance(e.left, ast.Constant) and isinstance(e.left.value, str):
        # a %-template with literal characters renders a non-empty string
        import re as _re
        return True if _re.sub(r"%(\([^)]*\))?[-#0 +]*\d*(\.\d+)?[sdrifxXeEgGcoa%]", "", e.left.value) else None
    if isinstance(e, ast.JoinedStr):
        return True if any(isinstance(x, ast.Constant) and x.value for x in e.values) else None
    if not values:
        return None
    v = _sample_value(e, ctx, s)
    if v is _UNK:
        return None
    try:
        return bool(v)
    except Exception:
        return None


def only_for_none(conds, ctx, samples=("", "x")):
    """The conjunction of the conditions [(expr, polarity)] cannot hold when the pair's value is a string
    (decided for the empty and for a non-empty sample string by three-valued evaluation: `v is None`,
    `v is not None`, `v == None`, `not v`, `v == ""`, `len(v)`, `isinstance(v, str)`, and/or/not over them,
    in any spelling): link-format attribute values are strings or None, so the conditions imply `v is None`."""
    for s in samples:
        if not any((lambda t: t is not None and t != pol)(_sample_truth(e, ctx, s)) for e, pol in conds):
            return False
    return True


class _Subst(ast.NodeTransformer):
    def __init__(self, bind):
        self.bind = bind

    def visit_Name(self, n):
        if isinstance(n.ctx, ast.Load) and n.id in self.bind:
            return self.bind[n.id]
        return n


class PairRendering:
    """Abstract execution of the region of one PairCtx.  Every local of the region carries the set of the
    pair components ('K', 'V') its value is computed from; plain bindings of pure expressions are
    remembered so that a named condition is read as the expression it names.  The region is executed path
    by path (if / else, early return / continue / break, match on constants, conditional expressions and
    value-level and / or fork), so that every *emission* -- an expression statement, return, yield, store
    to a non-local target or accumulation onto a name that is not a local of the region -- is seen together
    with the branch outcomes under which it is reached and with the definitions of the locals that are
    live there.  `emissions` lists (node, components, conditions) of those that mention the key."""

    CAP = 48
    MAXSTATES = 96

    def __init__(self, ctx):
        self.ctx = ctx
        self.emissions = []
        self._seen = set()
        if ctx.stmts:
            self.run(list(ctx.roots), [({}, {}, tuple(ctx.base))])
        else:
            for root in ctx.roots:
                self.emit(root, root, ({}, {}, tuple(ctx.base)))

    # -- expressions
    def subst(self, e, st):
        bind = st[1]
        if not bind or not any(isinstance(n, ast.Name) and n.id in bind for n in ast.walk(e)):
            return e
        import copy
        out = e
        for _ in range(4):
            out = _Subst(bind).visit(copy.deepcopy(out))
            if not any(isinstance(n, ast.Name) and isinstance(n.ctx, ast.Load) and n.id in bind for n in ast.walk(out)):
                break
        return ast.fix_missing_locations(out)

    def _product(self, lists):
        out = [(frozenset(), ())]
        for alts in lists:
            if len(alts) == 1:
                t, c = alts[0]
                out = [(o | t, oc + c) for o, oc in out]
            elif len(out) * len(alts) > self.CAP:
                t = frozenset().union(*[a for a, _ in alts])
                out = [(o | t, oc) for o, oc in out]
            else:
                out = [(o | t, oc + c) for o, oc in out for t, c in alts]
        return out

    def ealts(self, e, st):
        """[(components the value is computed from, conditions of this alternative)]"""
        ctx, env = self.ctx, st[0]
        if e is None:
            return [(frozenset(), ())]
        if ctx.is_key(e):
            return [(frozenset("K"), ())]
        if ctx.is_val(e):
            return [(frozenset("V"), ())]
        if ctx.is_pair(e):
            return [(frozenset("KV"), ())]
        if isinstance(e, ast.Name):
            return [(env.get(e.id, frozenset()), ())]
        if isinstance(e, ast.Constant):
            return [(frozenset(), ())]
        if isinstance(e, ast.Lambda):
            return [(frozenset(), ())]
        if isinstance(e, ast.IfExp):
            t = self.subst(e.test, st)
            return [(a, ((t, True),) + c) for a, c in self.ealts(e.body, st)] + [(a, ((t, False),) + c) for a, c in self.ealts(e.orelse, st)]
        if isinstance(e, ast.BoolOp) and len(e.values) >= 2:
            # value-level `a and b` / `a or b`: the result is the first operand that decides, else the last
            out, pre = [], ()
            for i, x in enumerate(e.values):
                xt = self.subst(x, st)
                last = i == len(e.values) - 1
                for a, c in self.ealts(x, st):
                    out.append((a, pre + c + (() if last else ((xt, isinstance(e.op, ast.Or)),))))
                pre = pre + ((xt, isinstance(e.op, ast.And)),)
            return out[: self.CAP] if len(out) <= self.CAP else [(frozenset().union(*[a for a, _ in out]), ())]
        if isinstance(e, (ast.ListComp, ast.SetComp, ast.GeneratorExp, ast.DictComp)):
            gt = frozenset()
            for g in e.generators:
                for a, _ in self.ealts(g.iter, st):
                    gt |= a
            filt = tuple((self.subst(c, st), True) for g in e.generators for c in g.ifs)
            elts = [e.elt] if not isinstance(e, ast.DictComp) else [e.key, e.value]
            return [(a | gt, filt + c) for a, c in self._product([self.ealts(x, st) for x in elts])]
        kids = []
        for ch in ast.iter_child_nodes(e):
            if isinstance(ch, ast.keyword):
                ch = ch.value
            if isinstance(ch, ast.expr):
                kids.append(self.ealts(ch, st))
        return self._product(kids)

    def emit(self, node, e, st):
        for comps, conds in self.ealts(e, st):
            if "K" not in comps:
                continue
            sig = (id(node), comps, tuple((dump(c), p) for c, p in st[2] + conds))
            if sig in self._seen:
                continue
            self._seen.add(sig)
            self.emissions.append((node, comps, list(st[2] + conds)))

    # -- statements
    def _assign(self, name, value, states, aug=False):
        out = []
        for st in states:
            env, bind, conds = st
            if aug and name not in env:
                self.emit(value, value, st)  # accumulation onto a name the region did not define
                out.append(st)
                continue
            for comps, c in self.ealts(value, st):
                e2, b2 = dict(env), dict(bind)
                e2[name] = (env.get(name, frozenset()) | comps) if aug else comps
                b2.pop(name, None)
                for k_ in [k_ for k_, v_ in b2.items() if any(isinstance(n, ast.Name) and n.id == name for n in ast.walk(v_))]:
                    b2.pop(k_)
                if not aug and pure_value(value) and not any(isinstance(n, ast.Name) and n.id == name for n in ast.walk(value)):
                    b2[name] = self.subst(value, st)
                out.append((e2, b2, conds + c))
        return out

    def _targets_names(self, t):
        if isinstance(t, ast.Name):
            return [t.id]
        if isinstance(t, (ast.Tuple, ast.List)):
            return [x for el in t.elts for x in (self._targets_names(el) or [None])]
        if isinstance(t, ast.Starred):
            return self._targets_names(t.value)
        return [None]

    def run(self, stmts, states):
        """-> states that fall off the end of the statement list"""
        for s in stmts:
            if not states:
                break
            if len(states) > self.MAXSTATES:
                raise AnalysisError("Link.__str__: more than %d paths through the rendering of one attribute pair" % self.MAXSTATES)
            states = self.step(s, states)
        return states

    def step(self, s, states):
        ctx = self.ctx
        if isinstance(s, (ast.FunctionDef, ast.AsyncFunctionDef, ast.ClassDef, ast.Pass, ast.Global, ast.Nonlocal, ast.Assert, ast.Import, ast.ImportFrom, ast.Delete)):
            return states
        if isinstance(s, (ast.Continue, ast.Break)):
            return []
        if isinstance(s, ast.Raise):
            return []
        if isinstance(s, ast.Return):
            if s.value is not None:
                for st in states:
                    self.emit(s, s.value, st)
            return []
        if isinstance(s, ast.Expr):
            if isinstance(s.value, ast.Call) and is_log_call(s.value):
                return states
            for st in states:
                self.emit(s, s.value, st)
            return states
        if isinstance(s, ast.Assign) or (isinstance(s, ast.AnnAssign) and s.value is not None):
            targets = s.targets if isinstance(s, ast.Assign) else [s.target]
            names = [n for t in targets for n in self._targets_names(t)]
            if all(n is not None for n in names):
                self_ref = [n for n in names if any(isinstance(x, ast.Name) and x.id == n and isinstance(x.ctx, ast.Load) for x in ast.walk(s.value))]
                out = []
                for st in states:
                    if any(n not in st[0] for n in self_ref):
                        self.emit(s, s.value, st)  # `acc = acc + piece` on a name the region did not define
                        out.append(st)
                        continue
                    sts = [st]
                    for n in names:
                        sts = self._assign(n, s.value, sts)
                    if len(names) > 1:
                        sts = [(e_, {k_: v_ for k_, v_ in b_.items() if k_ not in names}, c_) for e_, b_, c_ in sts]
                    out += sts
                return out
            for st in states:
                self.emit(s, ast.Tuple(elts=[t for t in targets if not isinstance(t, ast.Name)] + [s.value], ctx=ast.Load()), st)
            return states
        if isinstance(s, ast.AugAssign):
            if isinstance(s.target, ast.Name):
                return self._assign(s.target.id, s.value, states, aug=True)
            for st in states:
                self.emit(s, ast.Tuple(elts=[s.target, s.value], ctx=ast.Load()), st)
            return states
        if isinstance(s, ast.If):
            out = []
            for st in states:
                t = self.subst(s.test, st)
                out += self.run(s.body, [(st[0], st[1], st[2] + ((t, True),))])
                out += self.run(s.orelse, [(st[0], st[1], st[2] + ((t, False),))])
            return out
        if isinstance(s, (ast.For, ast.AsyncFor, ast.While)):
            out = list(states)
            for st in states:
                inner = [st]
                if not isinstance(s, ast.While):
                    comps = frozenset().union(*[a for a, _ in self.ealts(s.iter, st)])
                    e2 = dict(st[0])
                    for n in self._targets_names(s.target):
                        if n is not None:
                            e2[n] = comps
                    inner = [(e2, {k_: v_ for k_, v_ in st[1].items() if k_ not in self._targets_names(s.target)}, st[2])]
                else:
                    inner = [(st[0], st[1], st[2] + ((self.subst(s.test, st), True),))]
                # a local accumulated in the loop body keeps what it held before: one iteration is representative
                out += self.run(s.body, inner)
            return self.run(s.orelse, out) if s.orelse else out
        if isinstance(s, (ast.With, ast.AsyncWith)):
            return self.run(s.body, states)
        if isinstance(s, ast.Try) or s.__class__.__name__ == "TryStar":
            out = self.run(s.body, states)
            out = self.run(s.orelse, out) if s.orelse else out
            for h in s.handlers:
                out += self.run(h.body, list(states))
            return self.run(s.finalbody, out) if s.finalbody else out
        if isinstance(s, ast.Match):
            out = []
            for st in states:
                subj = self.subst(s.subject, st)
                neg = ()
                for case in s.cases:
                    tests = self._pattern_tests(subj, case.pattern)
                    cond = st[2] + neg
                    if tests is not None and tests != "any":
                        t = tests[0] if len(tests) == 1 else ast.BoolOp(op=ast.Or(), values=tests)
                        cond = cond + ((t, True),)
                        if case.guard is None:
                            neg = neg + ((t, False),)
                    if case.guard is not None:
                        cond = cond + ((self.subst(case.guard, st), True),)
                    out += self.run(case.body, [(st[0], st[1], cond)])
                    if tests == "any" and case.guard is None:
                        break
                else:
                    out.append((st[0], st[1], st[2] + neg))
            return out
        # anything else: an emission of whatever it mentions
        for st in states:
            for n in ast.iter_child_nodes(s):
                if isinstance(n, ast.expr):
                    self.emit(s, n, st)
        return states

    @staticmethod
    def _pattern_tests(subj, p):
        """[test expressions] whose disjunction is the pattern's match condition; 'any' for a wildcard /
        capture; None when the pattern is not understood (no condition follows)."""
        if isinstance(p, ast.MatchSingleton):
            return [ast.Compare(left=subj, ops=[ast.Is()], comparators=[ast.Constant(value=p.value)])]
        if isinstance(p, ast.MatchValue):
            return [ast.Compare(left=subj, ops=[ast.Eq()], comparators=[p.value])]
        if isinstance(p, ast.MatchAs) and p.pattern is None:
            return "any"
        if isinstance(p, ast.MatchOr):
            out = []
            for q in p.patterns:
                t = PairRendering._pattern_tests(subj, q)
                if t is None or t == "any":
                    return t
                out += t
            return out
        return None


def valueless_emissions(ctx):
    """[(node, conditions)]: the emissions of the region that are computed from the key but not from the
    value (the value-less form `key` of a link attribute)."""
    return [(node, conds) for node, comps, conds in PairRendering(ctx).emissions if "V" not in comps]


# ---------------------------------------------------------------------------
# callables: nested def, module function, bound method, functools.partial, lambda (with default-argument binding)


def callable_target(prog, fi, e, depth=0):
    """(target FuncInfo, {target parameter: expression in the scope of fi}) for a function-valued
    expression of fi: a nested def / module-level function / `self.m`, a single-assignment local holding
    one, `functools.partial(f, a, k=b)` (arguments bound), `lambda [p=d]: f(x, ...)` (the call's arguments
    bound, default-argument parameters replaced by their defaults); a lambda whose body is not a call is its
    own target.  None when the expression is not understood."""
    if depth > 4 or e is None:
        return None
    if isinstance(e, ast.Name):
        g = fi
        while g is not None:
            q = g.qn + ".<locals>." + e.id
            if q in prog.funcs:
                return prog.funcs[q], {}
            g = g.parent
        if not isinstance(fi.node, ast.Lambda) and writes_to_name(fi.node, e.id):
            ws = writes_to_name(fi.node, e.id)
            if len(ws) == 1 and isinstance(ws[0], ast.Assign) and len(ws[0].targets) == 1 and isinstance(ws[0].targets[0], ast.Name):
                return callable_target(prog, fi, ws[0].value, depth + 1)
            return None
        q = fi.module.name + "." + e.id
        if q in prog.funcs:
            return prog.funcs[q], {}
        return None
    if isinstance(e, ast.Attribute) and chain(e.value) in ("self", "cls"):
        oc = owner_class(fi)
        m = prog.lookup_method(oc, e.attr) if oc else None
        return (m, {}) if m is not None else None
    if isinstance(e, ast.Call) and (chain(e.func) or "").split(".")[-1] == "partial" and e.args and not any(isinstance(a, ast.Starred) for a in e.args):
        inner = callable_target(prog, fi, e.args[0], depth + 1)
        if inner is None:
            return None
        t, b = inner
        b = dict(b)
        free = [p for p in params(t) if p not in b] if not isinstance(t.node, ast.Lambda) else [x.arg for x in t.node.args.args if x.arg not in b]
        for p, a in zip(free, e.args[1:]):
            b[p] = a
        for k in e.keywords:
            if k.arg is None:
                return None
            b[k.arg] = k.value
        return t, b
    if isinstance(e, ast.Lambda):
        a = e.args
        pos = a.posonlyargs + a.args
        dflt = {}
        for p, d in zip(pos[len(pos) - len(a.defaults):], a.defaults):
            dflt[p.arg] = d
        for p, d in zip(a.kwonlyargs, a.kw_defaults):
            if d is not None:
                dflt[p.arg] = d
        lparams = {x.arg for x in pos + a.kwonlyargs}
        body = e.body
        if isinstance(body, ast.Call) and not any(isinstance(x, ast.Starred) for x in body.args) and all(k.arg for k in body.keywords):
            inner = callable_target(prog, fi, body.func, depth + 1)
            if inner is not None:
                t, b = inner
                b = dict(b)
                free = [p for p in params(t) if p not in b] if not isinstance(t.node, ast.Lambda) else [x.arg for x in t.node.args.args if x.arg not in b]
                pairs = list(zip(free, body.args)) + [(k.arg, k.value) for k in body.keywords]
                for p, x in pairs:
                    if isinstance(x, ast.Name) and x.id in lparams:
                        if x.id in dflt:
                            b[p] = dflt[x.id]
                        # else: supplied by the caller of the lambda
                    elif not (names_in(x) & lparams):
                        b[p] = x
                return t, b
        return lambda_info(fi, e), dflt
    return None


# ---------------------------------------------------------------------------
# C20.e: what a method computes from its receiver


def _is_property(fi):
    for d in getattr(fi.node, "decorator_list", []):
        c = chain(d) or ""
        if c in ("property", "functools.cached_property", "cached_property") or c.endswith(".getter"):
            return True
    return False


class ReceiverFlow:
    """Everything a method evaluates on behalf of its receiver, independent of how the computation is split up:
    the method's own body, its closures / lambdas / comprehensions, and -- transitively -- the functions of the
    analysed program it hands the receiver (or something read from the receiver) to: `self.m(..)`,
    `helper(self, ..)`, `helper(self.base, ..)`, a property of the receiver, a bound method or a
    functools.partial / forwarding lambda passed on as a value (`map(self.m, xs)`).

    * `reads`  -- attribute chains rooted at the receiver (`self.links.links`) that are evaluated; a chain is
                  followed through single-assignment locals, `getattr(x, "name")`, parameters of callees that
                  receive a receiver chain, and properties of the receiver's class;
    * `calls`  -- every call site seen, as (scope FuncInfo, env, call) where env maps the names of the scope that
                  are known to hold a receiver chain to that chain;
    * `units`  -- every function visited (FuncInfo), the root first.

    Each callee is visited once per binding of its parameters.  Nothing depends on helper or local names."""

    def __init__(self, prog, root, receiver=None):
        self.prog = prog
        self.root = root
        self.cls = owner_class(root)
        self.reads = set()
        self.calls = []
        self.units = []
        self._done = set()
        p = all_params(root)
        recv = receiver or (p[0] if p else None)
        self.visit(root, {recv: "self"} if recv else {}, 0)

    # -- receiver chains -------------------------------------------------------
    def rchain(self, scope, env, e, depth=0):
        """Canonical chain (`self.a.b`) when e denotes the receiver or something reached from it by attribute
        reads only; else None."""
        if e is None or depth > 6:
            return None
        if isinstance(e, ast.NamedExpr):
            return self.rchain(scope, env, e.value, depth + 1)
        if isinstance(e, ast.Name):
            if e.id in env:
                return env[e.id]
            if scope is not None and not isinstance(scope.node, ast.Lambda):
                v = assigned_value(scope.node, e.id)
                if v is not None and len(writes_to_name(scope.node, e.id)) == 1:
                    return self.rchain(scope, env, v, depth + 1)
            return None
        if isinstance(e, ast.Attribute):
            b = self.rchain(scope, env, e.value, depth + 1)
            return None if b is None else b + "." + e.attr
        if isinstance(e, ast.Call) and chain(e.func) == "getattr" and len(e.args) in (2, 3) and not e.keywords \
                and isinstance(e.args[1], ast.Constant) and isinstance(e.args[1].value, str):
            b = self.rchain(scope, env, e.args[0], depth + 1)
            return None if b is None else b + "." + e.args[1].value
        return None

    # -- traversal -------------------------------------------------------------
    def _scope_env(self, fi, env):
        """env restricted to the names that keep their entry value: a rebound parameter is unknown."""
        if isinstance(fi.node, ast.Lambda):
            return dict(env)
        return {k: v for k, v in env.items() if not writes_to_name(fi.node, k)}

    def visit(self, fi, env, depth):
        env = self._scope_env(fi, env)
        key = (fi.qn, tuple(sorted(env.items())))
        if key in self._done or depth > 6 or len(self._done) > 150:
            return
        self._done.add(key)
        if fi not in self.units:
            self.units.append(fi)
        body = fi.node.body if isinstance(fi.node.body, list) else [fi.node.body]
        for st in body:
            self._walk(st, fi, env, depth)

    @staticmethod
    def _closure_env(fnode, env):
        a = fnode.args
        own = {x.arg for x in a.posonlyargs + a.args + a.kwonlyargs} | ({a.vararg.arg} if a.vararg else set()) | ({a.kwarg.arg} if a.kwarg else set())
        return {k: v for k, v in env.items() if k not in own}

    def _walk(self, n, scope, env, depth):
        if isinstance(n, (ast.FunctionDef, ast.AsyncFunctionDef)):
            # a named closure is entered where it is called (parameters bound) or passed on as a value, not
            # where it is defined: a definition alone evaluates only its defaults and decorators
            for d in n.args.defaults + [x for x in n.args.kw_defaults if x is not None] + n.decorator_list:
                self._walk(d, scope, env, depth)
            return
        if isinstance(n, ast.Lambda):
            # evaluated by whoever receives it: it sees the enclosing bindings except its own parameters
            a = n.args
            for d in a.defaults + [x for x in a.kw_defaults if x is not None]:
                self._walk(d, scope, env, depth)
            g = lambda_info(scope, n)
            self._walk(n.body, g, self._closure_env(n, env), depth)
            return
        if isinstance(n, ast.ClassDef):
            return
        if isinstance(n, (ast.ListComp, ast.SetComp, ast.DictComp, ast.GeneratorExp)):
            sub = dict(env)
            for gen in n.generators:
                self._walk(gen.iter, scope, sub, depth)
                for x in ast.walk(gen.target):
                    if isinstance(x, ast.Name):
                        sub.pop(x.id, None)
                for c in gen.ifs:
                    self._walk(c, scope, sub, depth)
            for part in ([n.key, n.value] if isinstance(n, ast.DictComp) else [n.elt]):
                self._walk(part, scope, sub, depth)
            return
        if isinstance(n, ast.Attribute) and isinstance(n.ctx, ast.Load):
            self._attribute(scope, env, n, depth, called=False)
        elif isinstance(n, ast.Call):
            self.calls.append((scope, env, n))
            c = self.rchain(scope, env, n)  # getattr(x, "name")
            if c is not None:
                self.reads.add(c)
            entered = self._call(scope, env, n, depth)
            # the callee expression: entered above with the arguments bound -- do not enter it a second time
            # as a mere function value (without bindings)
            f = n.func
            if isinstance(f, ast.Attribute):
                self._attribute(scope, env, f, depth, called=True)
                self._walk(f.value, scope, env, depth)
            elif not (entered and isinstance(f, ast.Name)):
                self._walk(f, scope, env, depth)
            args = list(n.args)
            if entered and (chain(f) or "").split(".")[-1] == "partial" and args:
                a0 = args.pop(0)
                if isinstance(a0, ast.Attribute):
                    self._attribute(scope, env, a0, depth, called=True)
                    self._walk(a0.value, scope, env, depth)
                elif not isinstance(a0, ast.Name):
                    self._walk(a0, scope, env, depth)
            for a in args:
                self._walk(a, scope, env, depth)
            for k in n.keywords:
                self._walk(k.value, scope, env, depth)
            return
        elif isinstance(n, ast.Name) and isinstance(n.ctx, ast.Load) and n.id not in env:
            # a function of the program passed on as a value
            t = callable_target(self.prog, scope, n) if not self._is_local_value(scope, n.id) else None
            if t is not None and not isinstance(t[0].node, ast.Lambda):
                self.visit(t[0], self._closure_env(t[0].node, env) if t[0].parent is not None else {}, depth + 1)
        for ch in ast.iter_child_nodes(n):
            self._walk(ch, scope, env, depth)

    def _attribute(self, scope, env, n, depth, called):
        c = self.rchain(scope, env, n)
        if c is not None:
            self.reads.add(c)
            self._member(scope, env, n, c, depth, called)

    def _is_local_value(self, scope, name):
        return not isinstance(scope.node, ast.Lambda) and bool(writes_to_name(scope.node, name))

    def _member(self, scope, env, n, c, depth, called):
        """`<receiver>.name` where name is a property or a method of the receiver's class: the property body /
        the method (when the bound method is passed on as a value) is part of the computation."""
        base = c.rsplit(".", 1)[0]
        if base != "self" or not self.cls:
            return
        m = self.prog.lookup_method(self.cls, n.attr)
        if m is None:
            return
        p = all_params(m)
        if not p or is_static(m):
            return
        if _is_property(m) or not called:
            self.visit(m, {p[0]: "self"}, depth + 1)

    def _call(self, scope, env, call, depth):
        f = call.func
        target = None  # (callee, {param: arg expr}, receiver chain or None)
        if isinstance(f, ast.Attribute):
            rc = self.rchain(scope, env, f.value)
            if rc == "self" and self.cls:
                m = self.prog.lookup_method(self.cls, f.attr)
                if m is not None and not _is_property(m):
                    b = bind_call(call, m, not is_static(m))
                    target = (m, b or {}, None if is_static(m) else "self")
        if target is None and (chain(f) or "").split(".")[-1] == "partial":
            t = callable_target(self.prog, scope, call)
            if t is not None:
                target = (t[0], t[1], "self" if isinstance(call.args[0], ast.Attribute) and self.rchain(scope, env, call.args[0].value) == "self" else None)
        if target is None:
            r = resolve_callee(self.prog, scope, call) if not (isinstance(f, ast.Name) and f.id in env) else None
            if r is not None:
                callee, bm = r
                rc = self.rchain(scope, env, f.value) if bm and isinstance(f, ast.Attribute) else None
                if not bm or rc is not None:
                    target = (callee, bind_call(call, callee, bm) or {}, rc if bm else None)
        if target is None:
            return False
        callee, b, rc = target
        # a closure called from (a scope nested in) its defining scope sees that scope's bindings
        sub = self._closure_env(callee.node, env) if callee.parent is not None else {}
        for p, a in b.items():
            ch = self.rchain(scope, env, a)
            if ch is not None:
                sub[p] = ch
        if rc is not None:
            p = all_params(callee)
            if p:
                sub[p[0]] = rc
        self.visit(callee, sub, depth + 1)
        return True


def _pair_values(scope, e, key, limit=40):
    """Value expressions of the `[key, X]` / `(key, X)` displays among everything that may become an element of
    the list expression e: e itself, the definitions of the locals it mentions (plain, augmented, annotated
    assignments), and what is appended / inserted / extended onto those locals."""
    out, seen, todo = [], set(), [e]
    fnode = None if scope is None or isinstance(scope.node, ast.Lambda) else scope.node
    while todo and limit:
        limit -= 1
        x = todo.pop()
        for n in ast.walk(x):
            if isinstance(n, (ast.List, ast.Tuple)) and len(n.elts) == 2 and isinstance(n.elts[0], ast.Constant) and n.elts[0].value == key:
                out.append(n.elts[1])
            elif isinstance(n, ast.Name) and fnode is not None and n.id not in seen:
                seen.add(n.id)
                for w in writes_to_name(fnode, n.id):
                    v = getattr(w, "value", None)
                    if isinstance(w, (ast.Assign, ast.AugAssign, ast.AnnAssign, ast.NamedExpr)) and v is not None:
                        todo.append(v)
                for c in walk_no_nested(fnode):
                    if isinstance(c, ast.Call) and isinstance(c.func, ast.Attribute) and isinstance(c.func.value, ast.Name) and c.func.value.id == n.id \
                            and c.func.attr in ("append", "extend", "insert", "__iadd__"):
                        todo.extend(c.args)
    return out


def ctor_attribute(scope, call, key, positional=None, pairs_param="attr_pairs"):
    """How a `Link(href, attr_pairs=None, **kwargs)`-style construction is given attribute `key`:
    (value expressions, opaque).  The spellings of one fact: the keyword `key=X`, an entry of a `**{..}` /
    `**dict(..)` display, the positional argument number `positional` (for the target `href`), or -- for the
    attributes the constructor appends to its pair list -- a `[key, X]` pair in the attr_pairs argument.
    opaque: the call passes `*args` or a `**mapping` that is not a display, so the answer may be incomplete."""
    fnode = None if scope is None or isinstance(scope.node, ast.Lambda) else scope.node
    vals, opaque = [], any(isinstance(a, ast.Starred) for a in call.args)
    kws = {}
    for k in call.keywords:
        if k.arg is not None:
            kws.setdefault(k.arg, []).append(k.value)
            continue
        d = resolve_local(fnode, k.value) if fnode is not None else k.value
        if isinstance(d, ast.Dict) and all(isinstance(x, ast.Constant) for x in d.keys):
            for kk, vv in zip(d.keys, d.values):
                kws.setdefault(kk.value, []).append(vv)
        elif isinstance(d, ast.Call) and chain(d.func) == "dict" and not d.args and all(x.arg is not None for x in d.keywords):
            for x in d.keywords:
                kws.setdefault(x.arg, []).append(x.value)
        else:
            opaque = True
    vals += kws.get(key, [])
    if positional is not None and len(call.args) > positional and not any(isinstance(a, ast.Starred) for a in call.args[:positional + 1]):
        vals.append(call.args[positional])
    if pairs_param is not None and key != pairs_param:
        ap = kws.get(pairs_param, [])
        if not ap and len(call.args) > 1 and not any(isinstance(a, ast.Starred) for a in call.args[:2]):
            ap = [call.args[1]]
        for a in ap:
            vals += _pair_values(scope, a, key)
    return vals, opaque


# ---------------------------------------------------------------------------
# C20.k: LinkFlow -- abstract interpretation of link-format structures
#
# Decides whether a function hands on *every* link of a parsed link-format document, each with its target and
# *every* attribute pair (repeated attribute names included), by evaluating the code over abstract values:
#
#   Obj(cls, attrs)   an instance of a class of the program with the abstract values of its attributes
#   Seq(elem, src)    a sequence with one element (of abstract value elem) per element of `src`
#                     (("links",) all links of the document / ("pairs",) all attribute pairs of the current
#                     link), in order; `loss` = (reason, node, fi) when elements may be missing
#   Tup(items)        a list / tuple display of known length ([key, value] pair, [href, pairs] of to_py())
#   Atom(kind)        the target / an attribute name / an attribute value of the current link / pair
#   Map               a mapping keyed by the attribute name (dict(pairs), {k: v for k, v in pairs}, **kwargs);
#                     a mapping has one entry per *distinct* name, so everything read back from it is lossy
#   NONE, OPAQUE      None / a value that has nothing to do with the links (the text, a flag)
#   Unknown           a value that involves the links in a way this evaluator does not interpret (-> refusal)
#
# Constructors and methods (Link(...), LinkHeader(...), .to_py()) are not tabulated: their bodies are evaluated
# by the same interpreter, so `Link(href, pairs)`, `Link(*item)`, `Link(href, **mapping)`, `LinkFormat(to_py())`
# mean whatever the classes of the analysed tree make of them.


class _LV:
    tracked = True


class _Plain(_LV):
    tracked = False

    def __init__(self, name):
        self.name = name

    def __repr__(self):
        return self.name


OPAQUE = _Plain("OPAQUE")
NONE = _Plain("NONE")


class Unknown(_LV):
    def __init__(self, reason, node=None, fi=None, origin=None):
        self.reason, self.node, self.fi = reason, node, fi
        self.origin = origin  # the tracked container an uninterpreted part was taken from (`seq[0]`)

    def __repr__(self):
        return "Unknown(%s)" % self.reason


class Atom(_LV):
    def __init__(self, kind):
        self.kind = kind

    def __repr__(self):
        return "<%s>" % self.kind


class Tup(_LV):
    def __init__(self, items):
        self.items = list(items)

    def __repr__(self):
        return "Tup%r" % (self.items,)


class Seq(_LV):
    def __init__(self, elem=None, src=None, loss=None):
        self.elem, self.src, self.loss = elem, src, loss

    @property
    def empty(self):
        return self.elem is None and self.src is None

    def __repr__(self):
        return "Seq(%r over %s%s)" % (self.elem, self.src, ", LOSSY: %s" % self.loss[0] if self.loss else "")


class Map(_LV):
    def __init__(self, loss=None, empty=False):
        self.loss, self.empty = loss, empty

    def __repr__(self):
        return "Map(%s)" % ("empty" if self.empty else self.loss[0] if self.loss else "?")


class Obj(_LV):
    def __init__(self, cls, attrs=None):
        self.cls, self.attrs = cls, dict(attrs or {})

    def __repr__(self):
        return "Obj(%s, %r)" % (self.cls.split(".")[-1], self.attrs)


class Fn(_LV):
    tracked = False

    def __init__(self, fi, env):
        self.fi, self.env = fi, env


def _skey(v, depth=0):
    """structural identity of an abstract value (for joining the environments of two branches)"""
    if depth > 8:
        return ("deep",)
    if isinstance(v, _Plain):
        return (v.name,)
    if isinstance(v, Atom):
        return ("atom", v.kind)
    if isinstance(v, Tup):
        return ("tup",) + tuple(_skey(x, depth + 1) for x in v.items)
    if isinstance(v, Seq):
        return ("seq", _skey(v.elem, depth + 1) if v.elem is not None else None, v.src, id(v.loss[1]) if v.loss else None)
    if isinstance(v, Map):
        return ("map", v.empty, id(v.loss[1]) if v.loss else None)
    if isinstance(v, Obj):
        return ("obj", v.cls) + tuple((k, _skey(x, depth + 1)) for k, x in sorted(v.attrs.items()))
    if isinstance(v, Fn):
        return ("fn", id(v.fi.node))
    return ("unknown", id(v))


def _clone(v, memo):
    """copy of the mutable structure of an abstract value (loss markers, atoms and Unknowns are shared)"""
    if not isinstance(v, (Obj, Seq, Tup, Map)):
        return v
    if id(v) in memo:
        return memo[id(v)]
    c = object.__new__(type(v))
    memo[id(v)] = c
    for k, x in v.__dict__.items():
        if isinstance(x, list):
            c.__dict__[k] = [_clone(y, memo) for y in x]
        elif isinstance(x, dict):
            c.__dict__[k] = {a: _clone(y, memo) for a, y in x.items()}
        else:
            c.__dict__[k] = _clone(x, memo)
    return c


class _NoEval(Exception):
    pass


class _Return(Exception):
    pass


_LF_BUILTINS = {"list", "tuple", "dict", "iter", "set", "frozenset", "sorted", "reversed", "map", "filter", "zip", "enumerate", "len",
                "isinstance", "str", "repr", "bool", "any", "all", "print", "type", "id", "hasattr", "getattr"}
_LF_REMOVERS = {"pop", "remove", "clear", "popitem", "discard"}
_LF_MUTATORS = {"append", "extend", "insert", "sort", "reverse", "update", "setdefault", "add"} | _LF_REMOVERS


class LinkFlow:
    SRC = "aiocoap.util.vendored.link_header.parse"
    HDR = "aiocoap.util.vendored.link_header.LinkHeader"
    LNK = "aiocoap.util.vendored.link_header.Link"
    MAXDEPTH = 6

    def __init__(self, prog):
        self.prog = prog
        self.fi = None
        self.depth = 0
        self.outer = 0  # loop nesting of the callers
        self.loops = []  # [(Seq iterated, len(self.conds) at entry, unsupported control flow in the body)]
        self.conds = []  # [(test, polarity, env)] branch conditions entered since the function / loop began

    def _depth(self):
        return self.outer + len(self.loops)

    def _empty(self):
        """a new empty list, stamped with the loop nesting it is created at (accumulators)"""
        s = Seq()
        s._born = self._depth()
        return s

    # ---- the document as the vendored parser hands it over ----------------
    def pairs(self):
        return Seq(Tup([Atom("key"), Atom("val")]), ("pairs",))

    def link(self, cls=None):
        return Obj(cls or self.LNK, {"href": Atom("href"), "attr_pairs": self.pairs()})

    def source(self):
        return Obj(self.HDR, {"links": Seq(self.link(), ("links",))})

    # ---- result predicates -------------------------------------------------
    def defect(self, v, what):
        """None when v is `what` ('header' | 'link' | 'pairs') carrying everything of the document;
        ('loss', (reason, node, fi)) when something is provably dropped; ('unknown', text) otherwise."""
        if isinstance(v, Unknown):
            return ("unknown", "%s%s" % (v.reason, " (%s)" % stmt_text(v.node, 60) if v.node is not None else ""))
        if what == "header":
            if not (isinstance(v, Obj) and (v.cls == self.HDR or self.prog.is_subclass(v.cls, self.HDR))):
                return ("unknown", "the value is not a LinkHeader object: %r" % (v,))
            ls = v.attrs.get("links")
            if not isinstance(ls, Seq):
                return self.defect(ls, "x") if isinstance(ls, Unknown) else ("unknown", "the links of the header are %r" % (ls,))
            if ls.loss:
                return ("loss", ls.loss)
            if isinstance(ls.elem, Unknown):
                return self.defect(ls.elem, "x")
            if ls.src != ("links",):
                return ("unknown", "the links of the header are not one per parsed link: %r" % (ls,))
            return self.defect(ls.elem, "link")
        if what == "link":
            if not (isinstance(v, Obj) and (v.cls == self.LNK or self.prog.is_subclass(v.cls, self.LNK))):
                return ("unknown", "an element of the header's links is not a Link object: %r" % (v,))
            h = v.attrs.get("href")
            if not (isinstance(h, Atom) and h.kind == "href"):
                return self.defect(h, "x") if isinstance(h, Unknown) else ("unknown", "the target of a link is %r" % (h,))
            return self.defect(v.attrs.get("attr_pairs"), "pairs")
        if what == "pairs":
            if not isinstance(v, Seq):
                return ("unknown", "the attribute pairs of a link are %r" % (v,))
            if v.loss:
                return ("loss", v.loss)
            if isinstance(v.elem, Unknown):
                return self.defect(v.elem, "x")
            if v.src != ("pairs",):
                return ("unknown", "the attribute pairs are not one per parsed pair: %r" % (v,))
            p = v.elem
            if isinstance(p, Unknown):
                return self.defect(p, "x")
            if not (isinstance(p, Tup) and len(p.items) == 2 and all(isinstance(x, Atom) for x in p.items) and [x.kind for x in p.items] == ["key", "val"]):
                return ("unknown", "an attribute pair is %r" % (p,))
            return None
        return ("unknown", "uninterpreted value %r" % (v,))

    # ---- which functions can produce link data at all ----------------------------
    def reaches_source(self, fi, seen=None):
        """fi (transitively, through calls resolved by name) calls the vendored parser"""
        memo = self.__dict__.setdefault("_reach", {})
        if fi.qn in memo:
            return memo[fi.qn]
        seen = seen if seen is not None else set()
        if fi.qn in seen:
            return False
        seen.add(fi.qn)
        res = False
        for n in ast.walk(fi.node):
            if not isinstance(n, ast.Call):
                continue
            c = chain(n.func)
            q = None
            if c:
                try:
                    q = self.prog.resolve_in_module(fi.module, c)
                except Exception:
                    q = None
                if q not in self.prog.funcs and q not in self.prog.classes and isinstance(n.func, ast.Name):
                    g = fi
                    while g is not None and q not in self.prog.funcs:
                        q = g.qn + ".<locals>." + c
                        g = g.parent
            if q == self.SRC:
                res = True
                break
            if q in self.prog.funcs and self.reaches_source(self.prog.funcs[q], seen):
                res = True
                break
        memo[fi.qn] = res
        return res

    def _escape(self, vals, node):
        """link data handed to code that is not interpreted may be changed in place"""
        u = self._unk("link data is handed to a function that is not interpreted", node)
        for v in vals:
            if isinstance(v, (Seq, Tup)):
                self._poison(v, u)
            elif isinstance(v, Obj):
                for k in list(v.attrs):
                    v.attrs[k] = u
        return u

    # ---- names ----------------------------------------------------------------
    def _resolve(self, dotted):
        try:
            return self.prog.resolve_in_module(self.fi.module, dotted)
        except Exception:
            return None

    def _unk(self, reason, node, origin=None):
        return Unknown(reason, node, self.fi, origin)

    def _taint(self, u, node):
        """something is done to an uninterpreted part of a tracked container: the container is no longer known"""
        o = getattr(u, "origin", None)
        if o is not None:
            self._escape([o], node)

    def _any_tracked(self, vals):
        return any(isinstance(v, _LV) and v.tracked for v in vals)

    # ---- functions --------------------------------------------------------------
    def call_function(self, fi, pos, kws, starmap=None, env=None, self_obj=None, node=None):
        """Evaluate a function / lambda of the program on abstract arguments -> abstract result."""
        if self.depth >= self.MAXDEPTH:
            return self._unk("call nesting too deep", node)
        fnode = fi.node
        bound = self._bind(fnode.args, pos, kws, starmap, self_obj, fi)
        if bound is None:
            return self._unk("the arguments of the call cannot be matched to the parameters of %s" % fi.name, node)
        new_env = dict(env or {})
        new_env.update(bound)
        saved = (self.fi, self.loops, self.conds, self.outer)
        self.outer = self._depth()
        self.fi, self.loops, self.conds = fi, [], []
        self.depth += 1
        try:
            if isinstance(fnode, ast.Lambda):
                return self.ev(fnode.body, new_env)
            rets = []
            if self.run(fnode.body, new_env, rets) and rets:
                rets.append(NONE)
            if not rets:
                return NONE
            if len({_skey(r) for r in rets}) == 1:
                return rets[0]
            bad = [r for r in rets if isinstance(r, Unknown)]
            if bad:
                return bad[0]
            if not self._any_tracked(rets):
                return OPAQUE
            return self._unk("%s returns different things on different paths" % fi.name, node)
        finally:
            self.depth -= 1
            self.fi, self.loops, self.conds, self.outer = saved

    def _bind(self, a, pos, kws, starmap, self_obj, fi):
        params_ = [x.arg for x in a.posonlyargs + a.args]
        out = {}
        pos = list(pos)
        if self_obj is not None:
            pos = [self_obj] + pos
        for p, v in zip(params_, pos):
            out[p] = v
        extra = pos[len(params_):]
        if extra:
            if a.vararg is None:
                return None
            out[a.vararg.arg] = Tup(extra)
        elif a.vararg is not None:
            out[a.vararg.arg] = Tup([])
        rest = {}
        for k, v in kws.items():
            if k in params_ or k in [x.arg for x in a.kwonlyargs]:
                if k in out:
                    return None
                out[k] = v
            else:
                rest[k] = v
        if rest or starmap is not None:
            if a.kwarg is None:
                return None
            if rest:
                # explicit additional keywords become attributes of their own: not interpreted
                out[a.kwarg.arg] = Unknown("keyword arguments %s collected by **%s" % (sorted(rest), a.kwarg.arg), None, fi)
            else:
                out[a.kwarg.arg] = starmap
        elif a.kwarg is not None:
            out[a.kwarg.arg] = Map(empty=True)
        dpos = a.posonlyargs + a.args
        for p, d in list(zip(dpos[len(dpos) - len(a.defaults):], a.defaults)) + [(p, d) for p, d in zip(a.kwonlyargs, a.kw_defaults) if d is not None]:
            if p.arg not in out:
                out[p.arg] = NONE if isinstance(d, ast.Constant) and d.value is None else OPAQUE
        if any(p not in out for p in params_):
            return None
        return out

    def construct(self, cls, pos, kws, starmap=None, node=None):
        obj = Obj(cls)
        init = self.prog.lookup_method(cls, "__init__")
        if init is None:
            return obj if not (pos or kws or starmap) else self._unk("class %s without __init__ called with arguments" % cls, node)
        r = self.call_function(init, pos, kws, starmap, self_obj=obj, node=node)
        return r if isinstance(r, Unknown) else obj

    # ---- truth --------------------------------------------------------------------
    def truth(self, e, env):
        """True / False when the test is decided by the abstract values, else None."""
        if isinstance(e, ast.UnaryOp) and isinstance(e.op, ast.Not):
            t = self.truth(e.operand, env)
            return None if t is None else not t
        if isinstance(e, ast.BoolOp):
            ts = [self.truth(x, env) for x in e.values]
            if isinstance(e.op, ast.And):
                return False if any(t is False for t in ts) else (True if all(t is True for t in ts) else None)
            return True if any(t is True for t in ts) else (False if all(t is False for t in ts) else None)
        if isinstance(e, ast.Call) and isinstance(e.func, ast.Name) and e.func.id == "isinstance" and len(e.args) == 2 and e.func.id not in env:
            v = self.ev(e.args[0], env)
            res = []
            for c in (e.args[1].elts if isinstance(e.args[1], ast.Tuple) else [e.args[1]]):
                q = self._resolve(chain(c)) if chain(c) else None
                if q in self.prog.classes:
                    if isinstance(v, Obj):
                        res.append(v.cls == q or self.prog.is_subclass(v.cls, q))
                    elif isinstance(v, (Tup, Seq, Map, Atom)) or v is NONE:
                        res.append(False)
                    else:
                        res.append(None)
                else:
                    res.append(None)
            return True if any(r is True for r in res) else (False if all(r is False for r in res) else None)
        if isinstance(e, ast.Compare) and len(e.ops) == 1 and isinstance(e.ops[0], (ast.Is, ast.IsNot, ast.Eq, ast.NotEq)):
            l, r = e.left, e.comparators[0]
            o = l if isinstance(r, ast.Constant) and r.value is None else (r if isinstance(l, ast.Constant) and l.value is None else None)
            if o is not None:
                v = self.ev(o, env)
                isnone = True if v is NONE else (False if isinstance(v, (Obj, Seq, Tup, Map)) or (isinstance(v, Atom) and v.kind != "val") else None)
                if isnone is None:
                    return None
                return isnone if isinstance(e.ops[0], (ast.Is, ast.Eq)) else not isnone
            return None
        if isinstance(e, (ast.Name, ast.Attribute)):
            v = self.ev(e, env)
            if v is NONE:
                return False
            if isinstance(v, Obj):
                return True
            if (isinstance(v, Map) or isinstance(v, Seq)) and v.empty:
                return False
        return None

    # ---- filters: is there a document for which the condition drops an element? -----
    def _consts(self, e):
        return [n.value for n in ast.walk(e) if isinstance(n, ast.Constant) and isinstance(n.value, str)]

    def _conc(self, e, env, sample):
        if isinstance(e, ast.Constant):
            return e.value
        if isinstance(e, (ast.Name, ast.Attribute, ast.Subscript)) and not (isinstance(e, ast.Subscript) and isinstance(e.slice, ast.Slice)):
            return self._concretise(self.ev(e, env), sample)
        if isinstance(e, (ast.Tuple, ast.List, ast.Set)):
            return tuple(self._conc(x, env, sample) for x in e.elts)
        if isinstance(e, ast.UnaryOp) and isinstance(e.op, ast.Not):
            return not self._conc(e.operand, env, sample)
        if isinstance(e, ast.BoolOp):
            v = None
            for x in e.values:
                v = self._conc(x, env, sample)
                if isinstance(e.op, ast.And) and not v:
                    return v
                if isinstance(e.op, ast.Or) and v:
                    return v
            return v
        if isinstance(e, ast.Compare):
            l = self._conc(e.left, env, sample)
            for op, c in zip(e.ops, e.comparators):
                r = self._conc(c, env, sample)
                try:
                    if isinstance(op, (ast.Is, ast.IsNot)):
                        if not (l is None or r is None):
                            raise _NoEval()
                        ok = (l is None and r is None) == isinstance(op, ast.Is)
                    else:
                        ok = {ast.Eq: lambda: l == r, ast.NotEq: lambda: l != r, ast.In: lambda: l in r, ast.NotIn: lambda: l not in r,
                              ast.Lt: lambda: l < r, ast.LtE: lambda: l <= r, ast.Gt: lambda: l > r, ast.GtE: lambda: l >= r}[type(op)]()
                except _NoEval:
                    raise
                except Exception:
                    raise _NoEval()
                if not ok:
                    return False
                l = r
            return True
        if isinstance(e, ast.Call) and not e.keywords and not any(isinstance(a, ast.Starred) for a in e.args):
            args = [self._conc(a, env, sample) for a in e.args]
            try:
                if isinstance(e.func, ast.Name) and e.func.id in ("len", "str", "bool") and len(args) == 1 and e.func.id not in env:
                    return {"len": len, "str": str, "bool": bool}[e.func.id](args[0])
                if isinstance(e.func, ast.Attribute) and e.func.attr in _STR_METHODS:
                    recv = self._conc(e.func.value, env, sample)
                    if isinstance(recv, str):
                        return getattr(recv, e.func.attr)(*args)
            except _NoEval:
                raise
            except Exception:
                raise _NoEval()
        raise _NoEval()

    def _concretise(self, v, sample):
        if v is NONE:
            return None
        if isinstance(v, Atom):
            return sample[v.kind]
        if isinstance(v, Tup):
            return tuple(self._concretise(x, sample) for x in v.items)
        raise _NoEval()

    def falsifiable(self, conds):
        """True: some document makes the conjunction of the conditions [(test, polarity, env)] false (a witness
        assignment of target / attribute name / attribute value exists: names are non-empty tokens, values are
        strings or None, targets are strings); False: not for the sampled documents; None: cannot be evaluated."""
        import re as _re
        consts = [c for t, _, _ in conds for c in self._consts(t)]
        keys = ["a"] + [c for c in consts if _re.fullmatch(r"[^()<>@,;:\"\[\]?={}\s]+", c)]  # what the parser accepts as a name
        vals = [None, "", "x"] + consts
        hrefs = ["", "/x"] + [c for c in consts if ">" not in c]
        try:
            for k in keys:
                for v in vals:
                    for h in hrefs:
                        sample = {"key": k, "val": v, "href": h}
                        if not all(bool(self._conc(t, env, sample)) == pol for t, pol, env in conds):
                            return True
        except _NoEval:
            return None
        return False

    def _filter_loss(self, conds, node):
        """loss marker / Unknown / None for an element that is only kept under the conditions"""
        if not conds:
            return None
        f = self.falsifiable(conds)
        if f is True:
            return ("elements are dropped by a condition on their content (%s)" % " and ".join(("%s" if pol else "not (%s)") % stmt_text(t, 50) for t, pol, _ in conds), node, self.fi)
        return self._unk("elements are kept only under a condition that cannot be evaluated on sample documents", node)

    # ---- expressions -----------------------------------------------------------------
    def ev(self, e, env):
        if isinstance(e, ast.Constant):
            return NONE if e.value is None else OPAQUE
        if isinstance(e, ast.Name):
            if e.id in env:
                return env[e.id]
            return OPAQUE
        if isinstance(e, ast.Await):
            return self.ev(e.value, env)
        if isinstance(e, ast.NamedExpr):
            v = self.ev(e.value, env)
            env[e.target.id] = v
            return v
        if isinstance(e, ast.Attribute):
            v = self.ev(e.value, env)
            if isinstance(v, Unknown):
                return v
            if isinstance(v, Obj):
                if e.attr in v.attrs:
                    return v.attrs[e.attr]
                if e.attr == "__class__":
                    return OPAQUE
                m = self.prog.lookup_method(v.cls, e.attr)
                if m is not None and _is_property(m):
                    return self.call_function(m, [], {}, self_obj=v, node=e)
                return self._unk("attribute .%s of a %s object" % (e.attr, v.cls.split(".")[-1]), e)
            if v.tracked:
                return self._unk("attribute .%s of %r" % (e.attr, v), e)
            return OPAQUE
        if isinstance(e, ast.Subscript):
            v = self.ev(e.value, env)
            if isinstance(v, Unknown):
                return v
            if isinstance(e.slice, ast.Slice):
                s = e.slice
                if isinstance(v, (Seq, Tup)):
                    full = (s.lower is None or (isinstance(s.lower, ast.Constant) and s.lower.value in (0, None))) and (s.upper is None or (isinstance(s.upper, ast.Constant) and s.upper.value is None)) \
                        and (s.step is None or (isinstance(s.step, ast.Constant) and s.step.value in (1, None)))
                    if full:
                        return v
                    plain_step = s.step is None or (isinstance(s.step, ast.Constant) and s.step.value in (1, None))
                    if isinstance(v, Seq) and not v.empty and plain_step and all(x is None or (isinstance(x, ast.Constant) and (x.value is None or type(x.value) is int)) for x in (s.lower, s.upper)):
                        # [:n] / [n:] / [a:b] with integer constants: a document with enough elements loses some
                        return Seq(v.elem, v.src, v.loss or ("a slice with constant bounds keeps only part of the elements", e, self.fi))
                    return self._unk("slice of %r" % (v,), e)
                return OPAQUE if not v.tracked else self._unk("slice of %r" % (v,), e)
            if isinstance(v, Tup) and isinstance(e.slice, ast.Constant) and isinstance(e.slice.value, int) and -len(v.items) <= e.slice.value < len(v.items):
                return v.items[e.slice.value]
            if v.tracked:
                return self._unk("item of %r" % (v,), e, origin=v if isinstance(v, (Seq, Obj)) else None)
            return OPAQUE
        if isinstance(e, (ast.List, ast.Tuple)):
            if any(isinstance(x, ast.Starred) for x in e.elts):
                parts = [self.ev(x.value, env) if isinstance(x, ast.Starred) else Tup([self.ev(x, env)]) for x in e.elts]
                return self._concat(parts, e)
            if not e.elts and isinstance(e, ast.List):
                return self._empty()
            items = [self.ev(x, env) for x in e.elts]
            bad = [x for x in items if isinstance(x, Unknown)]
            return bad[0] if bad else Tup(items)
        if isinstance(e, ast.Dict):
            if not e.keys:
                return Map(empty=True)
            vs = [self.ev(x, env) for x in e.values if x is not None] + [self.ev(k, env) for k in e.keys if k is not None]
            return self._unk("dict display over link data", e) if self._any_tracked(vs) else OPAQUE
        if isinstance(e, ast.BinOp) and isinstance(e.op, ast.Add):
            return self._concat([self.ev(e.left, env), self.ev(e.right, env)], e)
        if isinstance(e, ast.BoolOp) and isinstance(e.op, ast.Or) and len(e.values) == 2:
            a = self.ev(e.values[0], env)
            if isinstance(a, Unknown):
                return a
            if a is NONE or (isinstance(a, Map) and a.empty) or (isinstance(a, Seq) and a.empty):
                return self.ev(e.values[1], env)
            b = self.ev(e.values[1], env)
            if isinstance(a, Seq) and isinstance(b, Seq) and b.empty:
                return a  # a falsy list is the empty list: `x or []` is x
            if isinstance(a, Obj):
                return a
            if isinstance(a, Map) and isinstance(b, Map) and b.empty:
                return a
            if not a.tracked and not b.tracked:
                return OPAQUE
            return self._unk("`or` over link data", e)
        if isinstance(e, ast.IfExp):
            t = self.truth(e.test, env)
            if t is not None:
                return self.ev(e.body if t else e.orelse, env)
            a, b = self.ev(e.body, env), self.ev(e.orelse, env)
            if _skey(a) == _skey(b):
                return a
            for x in (a, b):
                if isinstance(x, Unknown):
                    return x
            if not a.tracked and not b.tracked:
                return OPAQUE
            return self._unk("conditional expression with different link data in its arms", e)
        if isinstance(e, (ast.ListComp, ast.GeneratorExp, ast.SetComp, ast.DictComp)):
            return self._comp(e, env)
        if isinstance(e, ast.Lambda):
            return Fn(lambda_info(self.fi, e), env)
        if isinstance(e, ast.Call):
            return self._call(e, env)
        if isinstance(e, ast.Starred):
            return self._unk("star expression", e)
        # anything else: arithmetic, comparisons, f-strings ... over values that are not link data
        vs = [self.ev(x, env) for x in ast.iter_child_nodes(e) if isinstance(x, ast.expr)]
        bad = [x for x in vs if isinstance(x, Unknown)]
        if bad:
            return bad[0]
        if isinstance(e, (ast.Compare, ast.BoolOp, ast.UnaryOp, ast.JoinedStr, ast.FormattedValue)):
            return OPAQUE
        return self._unk("expression over link data", e) if self._any_tracked(vs) else OPAQUE

    def _concat(self, parts, node):
        bad = [x for x in parts if isinstance(x, Unknown)]
        if bad:
            return bad[0]
        parts = [p for p in parts if not ((isinstance(p, Seq) and p.empty) or (isinstance(p, Tup) and not p.items))]
        if not parts:
            return self._empty()
        if len(parts) == 1 and isinstance(parts[0], (Seq, Tup)):
            return parts[0]
        if all(isinstance(p, Tup) for p in parts):
            return Tup([x for p in parts for x in p.items])
        if not self._any_tracked(parts):
            return OPAQUE
        return self._unk("concatenation of link data with further elements", node)

    def _bind_target(self, t, v, env, node):
        """bind a loop / comprehension / assignment target to an abstract value; False when not understood"""
        if isinstance(t, ast.Name):
            env[t.id] = v
            return True
        if isinstance(t, (ast.Tuple, ast.List)) and not any(isinstance(x, ast.Starred) for x in t.elts):
            if isinstance(v, Tup) and len(v.items) == len(t.elts):
                return all(self._bind_target(x, y, env, node) for x, y in zip(t.elts, v.items))
            if not v.tracked:
                return all(self._bind_target(x, OPAQUE, env, node) for x in t.elts)
            u = v if isinstance(v, Unknown) else self._unk("unpacking of %r" % (v,), node)
            for n in ast.walk(t):
                if isinstance(n, ast.Name):
                    env[n.id] = u
            return True
        return False

    def _comp(self, e, env):
        env = dict(env)
        if len(e.generators) != 1 or e.generators[0].is_async:
            vs = [self.ev(g.iter, env) for g in e.generators]
            return self._unk("comprehension with several `for` clauses over link data", e) if self._any_tracked(vs) else OPAQUE
        g = e.generators[0]
        it = self.ev(g.iter, env)
        if isinstance(it, Unknown):
            return it
        if isinstance(it, Map) and not it.empty:
            return self._unk("iteration over a mapping of the attribute pairs", e)
        if isinstance(it, Tup):
            # a display of known length: element-wise
            items = []
            for x in it.items:
                env2 = dict(env)
                if not self._bind_target(g.target, x, env2, e) or g.ifs:
                    return self._unk("comprehension over a display of link data", e)
                items.append(self.ev(e.elt, env2) if not isinstance(e, ast.DictComp) else self._unk("dict comprehension", e))
            bad = [x for x in items if isinstance(x, Unknown)]
            return bad[0] if bad else Tup(items)
        if not isinstance(it, Seq):
            if not self._bind_target(g.target, OPAQUE, env, e):
                return OPAQUE
            saved = self.loops
            self.loops = self.loops + [(None, len(self.conds), False)]
            try:
                vs = [self.ev(e.elt, env)] if not isinstance(e, ast.DictComp) else [self.ev(e.key, env), self.ev(e.value, env)]
            finally:
                self.loops = saved
            bad = [x for x in vs if isinstance(x, Unknown)]
            return bad[0] if bad else (self._unk("comprehension over something else that yields link data", e) if self._any_tracked(vs) else OPAQUE)
        if it.empty:
            return self._empty() if not isinstance(e, ast.DictComp) else Map(empty=True)
        if any(l[0] is not None and l[0].src == it.src for l in self.loops):
            return self._unk("nested iteration over the same collection", e)
        if not self._bind_target(g.target, it.elem, env, e):
            return self._unk("comprehension target", e)
        loss = it.loss
        if g.ifs:
            fl = self._filter_loss([(t, True, env) for t in g.ifs], g.ifs[0])
            if isinstance(fl, Unknown):
                return fl
            loss = loss or fl
        saved = self.loops
        self.loops = self.loops + [(it, len(self.conds), False)]
        try:
            if isinstance(e, ast.DictComp):
                k, v = self.ev(e.key, env), self.ev(e.value, env)
                for x in (k, v):
                    if isinstance(x, Unknown):
                        return x
                if isinstance(k, Atom) and k.kind == "key" and it.src == ("pairs",):
                    return Map(loss=loss or ("the pairs are collected into a mapping keyed by the attribute name: an attribute that occurs more than once keeps only its last value", e, self.fi))
                return self._unk("dict comprehension over link data", e)
            elt = self.ev(e.elt, env)
        finally:
            self.loops = saved
        if isinstance(elt, Unknown):
            return elt
        if isinstance(e, ast.SetComp):
            return self._unk("set comprehension over link data", e)
        return Seq(elt, it.src, loss)

    def _callee(self, f, env):
        """('class', qn) | ('func', FuncInfo) | ('fn', Fn) | ('builtin', name) | ('method', receiver value, name) | None"""
        if isinstance(f, ast.Name):
            if f.id in env:
                v = env[f.id]
                return ("fn", v) if isinstance(v, Fn) else None
            g = self.fi
            while g is not None:
                q = g.qn + ".<locals>." + f.id
                if q in self.prog.funcs:
                    return ("func", self.prog.funcs[q])
                g = g.parent
            q = self._resolve(f.id)
            if q in self.prog.classes:
                return ("class", q)
            if q in self.prog.funcs:
                return ("func", self.prog.funcs[q])
            if f.id in _LF_BUILTINS and q == f.id:
                return ("builtin", f.id)
            if q in ("typing.cast", "copy.copy", "copy.deepcopy", "itertools.starmap", "collections.OrderedDict"):
                return ("builtin", {"typing.cast": "cast", "copy.copy": "copy", "copy.deepcopy": "copy", "itertools.starmap": "starmap", "collections.OrderedDict": "dict"}[q])
            return None
        if isinstance(f, ast.Attribute):
            c = chain(f)
            root = c.split(".")[0] if c else None
            if c and root not in env:
                q = self._resolve(c)
                if q in self.prog.classes:
                    return ("class", q)
                if q in self.prog.funcs:
                    return ("func", self.prog.funcs[q])
                if q in ("collections.OrderedDict", "collections.defaultdict", "OrderedDict"):
                    return ("builtin", "dict")
                if q in ("copy.copy", "copy.deepcopy"):
                    return ("builtin", "copy")
                if q == "typing.cast":
                    return ("builtin", "cast")
                if q in ("itertools.starmap",):
                    return ("builtin", "starmap")
                if root not in ("self", "cls"):
                    return None
            return ("method", self.ev(f.value, env), f.attr)
        if isinstance(f, ast.Lambda):
            return ("fn", Fn(lambda_info(self.fi, f), env))
        return None

    def _args(self, call, env):
        """(positional values, keyword values, ** mapping) or an Unknown"""
        pos, kws, sm = [], {}, None
        for a in call.args:
            if isinstance(a, ast.Starred):
                v = self.ev(a.value, env)
                if isinstance(v, Tup):
                    pos += v.items
                elif isinstance(v, Unknown):
                    return v
                else:
                    return self._unk("* argument %r" % (v,), call)
            else:
                pos.append(self.ev(a, env))
        for k in call.keywords:
            v = self.ev(k.value, env)
            if k.arg is None:
                if isinstance(v, Unknown):
                    return v
                if not isinstance(v, Map) or sm is not None:
                    return self._unk("** argument %r" % (v,), call)
                sm = v
            else:
                kws[k.arg] = v
        return pos, kws, sm

    def _call(self, call, env):
        tgt = self._callee(call.func, env)
        args = self._args(call, env)
        if isinstance(args, Unknown):
            return args
        pos, kws, sm = args
        allv = pos + list(kws.values()) + ([sm] if sm is not None else [])
        bad = [x for x in allv if isinstance(x, Unknown)]
        if tgt is None:
            if bad:
                return bad[0]
            if isinstance(call.func, ast.Attribute):
                r = self.ev(call.func.value, env)
                if isinstance(r, Unknown):
                    return r
                allv = allv + [r]
            if is_log_call(call) or not self._any_tracked(allv):
                return OPAQUE
            return self._escape(allv, call)
        kind = tgt[0]
        if kind == "class":
            if not self._any_tracked(allv) and not bad and not (tgt[1] in (self.HDR, self.LNK) or self.prog.is_subclass(tgt[1], self.HDR) or self.prog.is_subclass(tgt[1], self.LNK)):
                return OPAQUE
            return self.construct(tgt[1], pos, kws, sm, node=call)
        if kind == "func":
            if tgt[1].qn == self.SRC:
                return self.source()
            if not self._any_tracked(allv) and not bad and not self.reaches_source(tgt[1]):
                return OPAQUE
            return self.call_function(tgt[1], pos, kws, sm, node=call)
        if kind == "fn":
            return self.call_function(tgt[1].fi, pos, kws, sm, env=tgt[1].env, node=call)
        if bad:
            return bad[0]
        if kind == "builtin":
            return self._builtin(tgt[1], call, pos, kws, sm, env)
        recv, name = tgt[1], tgt[2]
        if isinstance(recv, Unknown):
            self._taint(recv, call)
            return recv
        if isinstance(recv, Obj):
            m = self.prog.lookup_method(recv.cls, name)
            if m is None:
                return self._unk("method .%s of a %s object" % (name, recv.cls.split(".")[-1]), call)
            return self.call_function(m, pos, kws, sm, self_obj=None if is_static(m) else recv, node=call)
        if isinstance(recv, Map):
            if name == "items" and not allv:
                if recv.empty:
                    return self._empty()
                return Seq(Tup([Atom("key"), Atom("val")]), ("pairs",), recv.loss or ("read back from a mapping keyed by the attribute name", call, self.fi))
            if name == "copy" and not allv:
                return recv
            return self._unk("method .%s of a mapping of the attribute pairs" % name, call)
        if isinstance(recv, (Seq, Tup)):
            if name == "copy" and not allv:
                return recv
            return self._mutate(recv, name, call, pos, env)
        if isinstance(recv, Atom):
            return self._unk("the %s of a link is transformed by .%s()" % ({"key": "attribute name", "val": "attribute value", "href": "target"}[recv.kind], name), call)
        return self._escape(allv, call) if self._any_tracked(allv) else OPAQUE

    def _builtin(self, name, call, pos, kws, sm, env):
        allv = pos + list(kws.values()) + ([sm] if sm is not None else [])
        if not allv and name in ("list", "tuple", "dict"):
            return {"list": self._empty(), "tuple": Tup([]), "dict": Map(empty=True)}[name]
        if not self._any_tracked(allv):
            return OPAQUE
        if name in ("len", "isinstance", "bool", "any", "all", "print", "repr", "str", "type", "id", "hasattr"):
            return OPAQUE
        if name == "cast" and len(pos) == 2 and not kws:
            return pos[1]  # typing.cast(T, x) is x
        if name == "copy" and len(pos) == 1 and not kws and isinstance(pos[0], (Obj, Seq, Tup, Map)):
            return _clone(pos[0], {})
        if name in ("list", "tuple", "iter") and len(pos) == 1 and not kws and sm is None:
            v = pos[0]
            if isinstance(v, (Seq, Tup)):
                return v
            if isinstance(v, Map):
                return self._unk("the keys of a mapping of the attribute pairs", call)
        if name == "dict" and not kws:
            if len(pos) == 1 and sm is None:
                v = pos[0]
                if isinstance(v, Map):
                    return v
                if isinstance(v, Seq) and v.empty:
                    return Map(empty=True)
                if isinstance(v, Seq) and v.src == ("pairs",) and isinstance(v.elem, Tup) and len(v.elem.items) == 2 and isinstance(v.elem.items[0], Atom) and v.elem.items[0].kind == "key":
                    return Map(loss=v.loss or ("the pairs are collected into a mapping keyed by the attribute name: an attribute that occurs more than once keeps only its last value", call, self.fi))
            if not pos and sm is not None:
                return sm
        if name in ("map", "starmap") and len(pos) == 2 and isinstance(pos[0], Fn) and isinstance(pos[1], Seq) and not kws:
            f, it = pos
            if it.empty:
                return self._empty()
            saved = self.loops
            self.loops = self.loops + [(it, len(self.conds), False)]
            try:
                if name == "starmap":
                    if not isinstance(it.elem, Tup):
                        return self._unk("starmap over %r" % (it,), call)
                    elt = self.call_function(f.fi, list(it.elem.items), {}, env=f.env, node=call)
                else:
                    elt = self.call_function(f.fi, [it.elem], {}, env=f.env, node=call)
            finally:
                self.loops = saved
            return elt if isinstance(elt, Unknown) else Seq(elt, it.src, it.loss)
        if name == "map" and len(pos) == 2 and isinstance(pos[1], Seq) and not kws and len(call.args) == 2:
            # map(Class, seq) / map(function, seq)
            it = pos[1]
            t = self._callee(call.args[0], env)
            if it.empty:
                return self._empty()
            if t is not None and t[0] in ("class", "func"):
                elt = self.construct(t[1], [it.elem], {}, node=call) if t[0] == "class" else self.call_function(t[1], [it.elem], {}, node=call)
                return elt if isinstance(elt, Unknown) else Seq(elt, it.src, it.loss)
        if name == "filter" and len(pos) == 2 and isinstance(pos[1], Seq) and not pos[1].empty and isinstance(call.args[0], ast.Lambda) and len(call.args[0].args.args) == 1:
            lam = call.args[0]
            env2 = dict(env)
            env2[lam.args.args[0].arg] = pos[1].elem
            fl = self._filter_loss([(lam.body, True, env2)], call)
            return fl if isinstance(fl, Unknown) else Seq(pos[1].elem, pos[1].src, pos[1].loss or fl)
        return self._unk("%s() over link data" % name, call)

    def _in_loop_over(self):
        return self.loops[-1] if self.loops else None

    def _mutate(self, recv, name, call, pos, env):
        """a method call on a list: accumulation (`acc.append(x)` once per iteration, `acc.extend(seq)`),
        removal (-> loss), anything else -> Unknown"""
        if name not in _LF_MUTATORS:
            if name in ("index", "count", "__len__", "__contains__"):
                return OPAQUE
            return self._unk("method .%s of %r" % (name, recv), call)
        if isinstance(recv, Tup):
            return self._poison(recv, self._unk("in-place change of a display of link data", call))
        if name in _LF_REMOVERS:
            if recv.empty:
                return OPAQUE
            if not recv.loss:
                recv.loss = ("elements are removed in place (.%s)" % name, call, self.fi)
            return OPAQUE
        if name == "append" and len(pos) == 1:
            v = pos[0]
            if isinstance(v, Unknown):
                return self._poison(recv, v)
            lp = self._in_loop_over()
            if lp is None or lp[0] is None:
                if recv.empty and not v.tracked:
                    return OPAQUE
                return self._poison(recv, self._unk("a single element is appended to a list of link data", call))
            it, ncond, bad_flow = lp
            if not recv.empty or bad_flow or getattr(recv, "_born", None) != self._depth() - 1:
                return self._poison(recv, self._unk("accumulation that is not one append per iteration", call))
            loss = it.loss
            conds = self.conds[ncond:]
            if conds:
                fl = self._filter_loss(conds, call)
                if isinstance(fl, Unknown):
                    return self._poison(recv, fl)
                loss = loss or fl
            recv.elem, recv.src, recv.loss = v, it.src, loss
            return OPAQUE
        if name == "extend" and len(pos) == 1:
            v = pos[0]
            if isinstance(v, Unknown):
                return self._poison(recv, v)
            if isinstance(v, Seq) and (v.empty or (recv.empty and getattr(recv, "_born", None) == self._depth())):
                if not v.empty:
                    recv.elem, recv.src, recv.loss = v.elem, v.src, v.loss
                return OPAQUE
            if not v.tracked and recv.empty:
                return OPAQUE
            return self._poison(recv, self._unk("a list of link data is extended", call))
        return self._poison(recv, self._unk("in-place change of a list of link data (.%s)" % name, call))

    def _poison(self, recv, unk):
        if isinstance(recv, Seq):
            recv.elem, recv.src, recv.loss = unk, ("?",), None
        elif isinstance(recv, Tup):
            recv.items = [unk]
        return OPAQUE

    # ---- statements ----------------------------------------------------------------------
    def run(self, stmts, env, rets, loop_body=False):
        """Execute a statement list; returns False when control cannot fall off its end."""
        pushed = 0
        try:
            for st in stmts:
                if loop_body and isinstance(st, ast.If) and not st.orelse and len(st.body) == 1 and isinstance(st.body[0], ast.Continue):
                    # `if c: ...; continue` -- the rest of the loop body runs under `not c`
                    self.conds.append((st.test, False, dict(env)))
                    pushed += 1
                    continue
                if not self.step(st, env, rets):
                    return False
            return True
        finally:
            for _ in range(pushed):
                self.conds.pop()

    def _join(self, env, envs):
        names = set()
        for x in envs:
            names |= set(x)
        for n in names:
            vals = [x.get(n, OPAQUE) for x in envs]
            if len({_skey(v) for v in vals}) == 1:
                env[n] = vals[0]
                continue
            if all(isinstance(v, Seq) for v in vals):
                # an accumulator that receives its element of this iteration on some branches only: on the others
                # the element is dropped -- the append was already judged under its branch condition (_mutate)
                filled = [v for v in vals if not v.empty]
                if filled and len(filled) < len(vals) and len({_skey(v) for v in filled}) == 1 and filled[0].loss:
                    env[n] = filled[0]
                    continue
            bad = [v for v in vals if isinstance(v, Unknown)]
            if bad:
                env[n] = bad[0]
            elif not self._any_tracked(vals):
                env[n] = OPAQUE
            else:
                env[n] = Unknown("%s holds different link data depending on the branch taken" % n, None, self.fi)

    def _exec_branches(self, st, env, rets):
        t = self.truth(st.test, env)
        if t is not None:
            return self.run(st.body if t else st.orelse, env, rets)
        outs = []
        before = dict(env)
        for body, pol in ((st.body, True), (st.orelse, False)):
            memo = {}
            e2 = {k: _clone(v, memo) for k, v in env.items()}
            self.conds.append((st.test, pol, dict(e2)))
            try:
                if self.run(body, e2, rets):
                    outs.append(e2)
            finally:
                self.conds.pop()
        if not outs:
            return False
        # in-place changes made in a branch are seen through the joined environment only: keep the objects
        # of the first surviving branch and require the others to agree structurally
        joined = dict(outs[0])
        self._join(joined, outs)
        # objects that existed before the statement keep their identity (they may be referenced from outside
        # this environment, e.g. the object under construction): the joined state is written back into them
        for n, orig in before.items():
            j = joined.get(n)
            if isinstance(orig, (Obj, Seq, Tup, Map)) and type(j) is type(orig) and j is not orig:
                orig.__dict__.clear()
                orig.__dict__.update(j.__dict__)
                joined[n] = orig
        env.clear()
        env.update(joined)
        return True

    def step(self, st, env, rets):
        if isinstance(st, (ast.Pass, ast.Import, ast.ImportFrom, ast.Global, ast.Nonlocal, ast.Assert)):
            return True
        if isinstance(st, (ast.FunctionDef, ast.AsyncFunctionDef)):
            q = self.fi.qn + ".<locals>." + st.name
            f = self.prog.funcs.get(q)
            env[st.name] = Fn(f, env) if f is not None else OPAQUE
            return True
        if isinstance(st, ast.ClassDef):
            return True
        if isinstance(st, ast.Return):
            rets.append(self.ev(st.value, env) if st.value is not None else NONE)
            return False
        if isinstance(st, ast.Raise):
            return False
        if isinstance(st, (ast.Continue, ast.Break)):
            if self.loops:
                self.loops[-1] = (self.loops[-1][0], self.loops[-1][1], True)
            return False
        if isinstance(st, ast.Expr):
            if isinstance(st.value, ast.Constant):
                return True
            if isinstance(st.value, ast.Call) and is_log_call(st.value):
                return True
            self.ev(st.value, env)
            return True
        if isinstance(st, (ast.Assign, ast.AnnAssign)):
            if st.value is None:
                return True
            v = self.ev(st.value, env)
            for t in (st.targets if isinstance(st, ast.Assign) else [st.target]):
                self._store(t, v, env, st)
            return True
        if isinstance(st, ast.AugAssign):
            if isinstance(st.op, ast.Add) and isinstance(st.target, ast.Name):
                cur = env.get(st.target.id, OPAQUE)
                v = self.ev(st.value, env)
                if isinstance(cur, Seq):
                    # acc += [x] / acc += seq
                    if isinstance(v, Tup) and len(v.items) == 1:
                        self._mutate(cur, "append", st, [v.items[0]], env)
                    else:
                        self._mutate(cur, "extend", st, [v], env)
                    return True
                if cur.tracked or v.tracked:
                    env[st.target.id] = v if isinstance(v, Unknown) else self._unk("augmented assignment over link data", st)
                return True
            v = self.ev(st.value, env)
            tv = self.ev(st.target, env) if not isinstance(st.target, ast.Name) else env.get(st.target.id, OPAQUE)
            if v.tracked or tv.tracked:
                self._store(st.target, self._unk("augmented assignment over link data", st), env, st)
            return True
        if isinstance(st, ast.Delete):
            for t in st.targets:
                if isinstance(t, ast.Subscript):
                    v = self.ev(t.value, env)
                    if isinstance(v, Seq) and not v.empty and not v.loss:
                        v.loss = ("elements are deleted in place", st, self.fi)
                    elif isinstance(v, Unknown):
                        self._taint(v, st)
                    elif isinstance(v, (Tup, Map, Obj)):
                        self._escape([v], st)
                elif isinstance(t, ast.Name):
                    env.pop(t.id, None)
                elif isinstance(t, ast.Attribute):
                    v = self.ev(t.value, env)
                    if isinstance(v, Obj):
                        v.attrs[t.attr] = self._unk("deleted attribute", st)
            return True
        if isinstance(st, ast.If):
            return self._exec_branches(st, env, rets)
        if isinstance(st, (ast.For, ast.AsyncFor)):
            return self._for(st, env, rets)
        if isinstance(st, ast.While):
            return self._opaque_block(st, env, rets, "while loop")
        if isinstance(st, (ast.With, ast.AsyncWith)):
            for it in st.items:
                v = self.ev(it.context_expr, env)
                if it.optional_vars is not None:
                    self._bind_target(it.optional_vars, OPAQUE if not v.tracked else self._unk("context manager over link data", st), env, st)
            return self.run(st.body, env, rets)
        if isinstance(st, ast.Try):
            # handlers that only translate the error (every path raises) do not produce a result
            for h in st.handlers:
                if not _always_raises(h.body):
                    return self._opaque_block(st, env, rets, "try statement with a handler that continues")
            ok = self.run(st.body, env, rets)
            if ok and st.orelse:
                ok = self.run(st.orelse, env, rets)
            if st.finalbody:
                ok2 = self.run(st.finalbody, env, rets)
                ok = ok and ok2
            return ok
        return self._opaque_block(st, env, rets, type(st).__name__)

    def _opaque_block(self, st, env, rets, what):
        """a statement that is not interpreted: harmless when it neither reads nor binds link data"""
        names = {n.id for n in ast.walk(st) if isinstance(n, ast.Name)}
        touched = [n for n in names if isinstance(env.get(n), _LV) and env[n].tracked]
        u = self._unk("%s over link data is not interpreted" % what, st)
        if touched or any(isinstance(n, ast.Return) for n in ast.walk(st)):
            for n in touched:
                if isinstance(env[n], (Seq, Tup)):
                    self._poison(env[n], u)
                env[n] = u
            if any(isinstance(n, ast.Return) and n.value is not None for n in ast.walk(st)):
                rets.append(u)
        for n in ast.walk(st):
            if isinstance(n, ast.Name) and isinstance(n.ctx, ast.Store) and n.id not in touched:
                env[n.id] = OPAQUE if not touched else u
        return True

    def _store(self, t, v, env, st):
        if isinstance(t, ast.Name):
            env[t.id] = v
            return
        if isinstance(t, (ast.Tuple, ast.List)):
            if not self._bind_target(t, v, env, st):
                for n in ast.walk(t):
                    if isinstance(n, ast.Name):
                        env[n.id] = self._unk("unpacking", st) if v.tracked else OPAQUE
            return
        if isinstance(t, ast.Attribute):
            o = self.ev(t.value, env)
            if isinstance(o, Obj):
                if t.attr == "__class__":
                    q = self._resolve(chain(st.value)) if isinstance(st, (ast.Assign, ast.AnnAssign)) and chain(st.value) else None
                    if q in self.prog.classes:
                        o.cls = q
                    return
                lp = self._in_loop_over()
                if lp is not None and self.conds[lp[1]:] and t.attr in o.attrs:
                    v = v if isinstance(v, Unknown) else self._unk("an attribute of the links is replaced under a condition", st)
                o.attrs[t.attr] = v
            elif isinstance(o, Unknown):
                self._taint(o, st)
            elif isinstance(o, _LV) and o.tracked:
                self._poison(o, self._unk("attribute store on link data", st))
            return
        if isinstance(t, ast.Subscript):
            o = self.ev(t.value, env)
            if isinstance(o, (Seq, Tup)) and (not (isinstance(o, Seq) and o.empty) or v.tracked):
                self._poison(o, self._unk("item store into a list of link data", st))
            elif isinstance(o, Map):
                o.loss, o.empty = ("a mapping keyed by the attribute name is filled item by item", st, self.fi), False
            elif isinstance(o, Unknown):
                self._taint(o, st)
            return

    def _for(self, st, env, rets):
        it = self.ev(st.iter, env)
        if isinstance(it, Tup):
            # a display of known length: unrolled
            for x in it.items:
                if not self._bind_target(st.target, x, env, st):
                    return self._opaque_block(st, env, rets, "loop")
                self.loops.append((None, len(self.conds), False))
                try:
                    self.run(st.body, env, rets)
                finally:
                    self.loops.pop()
            return True
        if not isinstance(it, Seq) or it.empty:
            if isinstance(it, Seq):
                return True if not st.orelse else self.run(st.orelse, env, rets)
            if isinstance(it, Unknown) or it.tracked:
                u = it if isinstance(it, Unknown) else self._unk("loop over %r" % (it,), st)
                self._bind_target(st.target, u, env, st)
            else:
                self._bind_target(st.target, OPAQUE, env, st)
            self.loops.append((None, len(self.conds), False))
            try:
                self.run(st.body, env, rets)
            finally:
                self.loops.pop()
            return True
        if any(l[0] is not None and l[0].src == it.src for l in self.loops):
            return self._opaque_block(st, env, rets, "nested loop over the same collection")
        if not self._bind_target(st.target, it.elem, env, st):
            return self._opaque_block(st, env, rets, "loop target")
        assigned = {n.id for s in st.body for n in ast.walk(s) if isinstance(n, ast.Name) and isinstance(n.ctx, ast.Store)} | {n.id for n in ast.walk(st.target) if isinstance(n, ast.Name)}
        # control flow this evaluator does not follow: break / return inside the loop, continue other than `if c: continue`
        odd = False
        for s in st.body:
            for n in ast.walk(s):
                if isinstance(n, (ast.Break, ast.Return)):
                    odd = True
        self.loops.append((it, len(self.conds), odd))
        nret = len(rets)
        try:
            self.run(st.body, env, rets, loop_body=True)
        finally:
            self.loops.pop()
        if len(rets) > nret:
            rets[nret:] = [self._unk("return inside a loop over link data", st)]
        for n in assigned:
            v = env.get(n)
            if isinstance(v, _LV) and v.tracked:
                env[n] = self._unk("value of the last iteration of a loop over link data", st)
        if st.orelse:
            self.run(st.orelse, env, rets)
        return True

    # ---- entry points -----------------------------------------------------------------------
    def result_of(self, fi, pos=None):
        """abstract result of calling fi (parameters opaque unless given)"""
        self.depth = 0
        n = len([x for x in fi.node.args.posonlyargs + fi.node.args.args])
        return self.call_function(fi, list(pos) if pos is not None else [OPAQUE] * n, {})


def _always_raises(stmts):
    """every way through the statement list ends in `raise`"""
    if not stmts:
        return False
    last = stmts[-1]
    if isinstance(last, ast.Raise):
        return True
    if isinstance(last, ast.If):
        return bool(last.orelse) and _always_raises(last.body) and _always_raises(last.orelse)
    return False
