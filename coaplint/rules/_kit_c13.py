"""Helpers of rules/c13.py: value resolution that does not depend on how the code is spelled.

* `qual`          -- dotted name of a callee with the module's imports resolved (`mkstemp` -> `tempfile.mkstemp`)
* `deep_resolve`  -- single-assignment locals substituted everywhere inside an expression
* `full_resolve`  -- the same plus read-only `@property` getters of the class expanded
* `path_parts`    -- (directory expression, constant file name) of every spelling of "a file in a directory"
* `tail_expanded` -- a method whose last statement is `self.helper(...)` with the helper's body put in its place
                     (a return of the helper *is* a return of the caller there, so returns inside try/with are fine)
* `DictStates`    -- the contents of a dict-valued local at a program point, per path of the path model
* `arms`          -- the leaves of a conditional expression with the conditions under which each is chosen
* `key_read`, `field_assigns`, `callable_target`, `recv_is`
* `choices_as_branches` -- conditional expressions / min / max in pure assignments rewritten (private copy) as the if/else
                     ladders they stand for, so that a path-wise symbolic execution sees one value per path
* `RegionPaths`   -- feasible paths from a CFG node to the ends of the function, exceptional edges included, with the
                     constants / tokens bound to locals propagated and the branches they decide pruned
                     (`const_eval`, `entry_constants`, `Token`)
"""

import ast
import copy

from ..rulekit import *
from ..model import FuncInfo
from ..norm import consteval, NormError
from ..paths import PathModel, Path
from ..inline import baseline

# ---------------------------------------------------------------------------
# names


def qual(fi, e):
    """Dotted name of expression `e` with the head resolved through the module's imports."""
    c = chain(e)
    if c is None:
        return None
    head, _, rest = c.partition(".")
    if head in ("self", "cls"):
        return c
    if head in params(fi, skip_self=False) or writes_to_name(fi.node, head):
        return c
    imp = fi.module.imports.get(head)
    if imp:
        return imp + ("." + rest if rest else "")
    return c


def _single_values(fnode):
    """{local name: value expr} for names bound exactly once, by `x = v` or the parallel form `a, b = v, w`."""
    cache = getattr(fnode, "_c13_single", None)
    if cache is not None:
        return cache
    a = fnode.args
    prm = {x.arg for x in a.posonlyargs + a.args + a.kwonlyargs}
    if a.vararg:
        prm.add(a.vararg.arg)
    if a.kwarg:
        prm.add(a.kwarg.arg)
    cand = {}
    for n in walk_no_nested(fnode):
        if isinstance(n, ast.Assign) and len(n.targets) == 1:
            t = n.targets[0]
            if isinstance(t, ast.Name):
                cand.setdefault(t.id, []).append(n.value)
            elif isinstance(t, (ast.Tuple, ast.List)) and isinstance(n.value, (ast.Tuple, ast.List)) and len(t.elts) == len(n.value.elts) \
                    and not any(isinstance(x, ast.Starred) for x in list(t.elts) + list(n.value.elts)):
                for tt, vv in zip(t.elts, n.value.elts):
                    if isinstance(tt, ast.Name):
                        cand.setdefault(tt.id, []).append(vv)
    out = {}
    for name, vals in cand.items():
        if name in prm or len(vals) != 1 or len(writes_to_name(fnode, name)) != 1:
            continue
        out[name] = vals[0]
    try:
        fnode._c13_single = out
    except Exception:
        pass
    return out


class _NameSubst(ast.NodeTransformer):
    def __init__(self, mapping):
        self.mapping = mapping
        self.hit = False

    def visit_Name(self, n):
        if isinstance(n.ctx, ast.Load) and n.id in self.mapping:
            self.hit = True
            return copy.deepcopy(self.mapping[n.id])
        return n

    def _scoped(self, n, bound):
        saved = self.mapping
        self.mapping = {k: v for k, v in saved.items() if k not in bound}
        self.generic_visit(n)
        self.mapping = saved
        return n

    def visit_Lambda(self, n):
        a = n.args
        return self._scoped(n, {x.arg for x in a.posonlyargs + a.args + a.kwonlyargs})

    def visit_FunctionDef(self, n):
        a = n.args
        bound = {x.arg for x in a.posonlyargs + a.args + a.kwonlyargs}
        if a.vararg:
            bound.add(a.vararg.arg)
        if a.kwarg:
            bound.add(a.kwarg.arg)
        return self._scoped(n, bound)

    visit_AsyncFunctionDef = visit_FunctionDef


def subst_names(e, mapping):
    """copy of e with the loads of the mapped names replaced; (expr, changed?)"""
    s = _NameSubst(mapping)
    r = s.visit(copy.deepcopy(e))
    return r, s.hit


def deep_resolve(fnode, e, depth=4, keep=()):
    """`e` with every single-assignment local replaced by its value, recursively.  (As with resolve_local the
    value is the one at the assignment; the callers use it for expressions over state the function does not
    change in between, or check that separately.)"""
    if e is None:
        return None
    single = _single_values(fnode)
    cur = e
    for _ in range(depth):
        used = ({n.id for n in ast.walk(cur) if isinstance(n, ast.Name) and isinstance(n.ctx, ast.Load)} & set(single)) - set(keep)
        if not used:
            break
        cur, hit = subst_names(cur, {k: single[k] for k in used})
        if not hit:
            break
    return cur


def rchain(fnode, e):
    """attribute chain of e after resolving locals (`lockfile.release` -> `self.lockfile.release`)"""
    return chain(deep_resolve(fnode, e)) if e is not None else None


# ---------------------------------------------------------------------------
# properties / constants of the class


def _is_property(fn):
    for d in fn.decorator_list:
        t = chain(d) or ""
        if t in ("property", "functools.cached_property", "cached_property"):
            return True
    return False


def _property_getter(prog, cls, name):
    """FunctionDef of a read-only, non-overridden property `name` of class `cls` whose body is one return."""
    if cls is None:
        return None
    h = prog.lookup_method(cls.qn, name)
    if h is None or not _is_property(h.node):
        return None
    for sub in prog.subclasses(cls.qn):
        if prog.lookup_method(sub, name) is not h:
            return None  # dynamically dispatched
    body = [s for s in h.node.body if not (isinstance(s, ast.Expr) and isinstance(s.value, ast.Constant) and isinstance(s.value.value, str))]
    if len(body) != 1 or not isinstance(body[0], ast.Return) or body[0].value is None:
        return None
    ps = h.node.args.args
    if len(ps) != 1:
        return None
    return h.node, body[0].value, ps[0].arg


class _PropExpand(ast.NodeTransformer):
    def __init__(self, prog, cls, selfname):
        self.prog, self.cls, self.selfname = prog, cls, selfname
        self.hit = False

    def visit_Attribute(self, n):
        self.generic_visit(n)
        if isinstance(n.ctx, ast.Load) and isinstance(n.value, ast.Name) and n.value.id == self.selfname:
            g = _property_getter(self.prog, self.cls, n.attr)
            if g is not None:
                _, val, pself = g
                self.hit = True
                v, _ = subst_names(val, {pself: ast.Name(id=self.selfname, ctx=ast.Load())})
                return v
        return n


def full_resolve(prog, fi, e, depth=3):
    """deep_resolve + expansion of single-return property getters of fi's class (`self._sequence_file`)."""
    if e is None:
        return None
    cur = deep_resolve(fi.node, e)
    ps = params(fi, skip_self=False)
    if fi.cls is None or not ps:
        return cur
    for _ in range(depth):
        px = _PropExpand(prog, fi.cls, ps[0])
        cur = px.visit(copy.deepcopy(cur))
        if not px.hit:
            break
        cur = deep_resolve(fi.node, cur)
    return cur


def const_str(prog, fi, e):
    """The string `e` denotes when that is decidable: literal, module constant, class-level constant read through
    self/cls/type(self)/the class name (and never stored as an attribute anywhere in the module)."""
    e = deep_resolve(fi.node, e)
    if isinstance(e, ast.Constant):
        return e.value if isinstance(e.value, str) else None
    if isinstance(e, ast.Name):
        if e.id in params(fi, skip_self=False) or writes_to_name(fi.node, e.id):
            return None
        try:
            v = prog.module_const(fi.module.name, e.id)
        except AnalysisError:
            return None
        return v.value if isinstance(v, ast.Constant) and isinstance(v.value, str) else None
    if isinstance(e, ast.Attribute) and fi.cls is not None:
        base = stmt_text(e.value)
        ps = params(fi, skip_self=False)
        if base in ((ps[0] if ps else "self"), "type(self)", "self.__class__", fi.cls.qn.rsplit(".", 1)[-1]):
            v, _ = prog.class_attr(fi.cls.qn, e.attr)
            if isinstance(v, ast.Constant) and isinstance(v.value, str) and not field_writers(prog, e.attr, modules=[fi.module.name]):
                return v.value
    return None


def path_parts(prog, fi, e):
    """(directory expr, file name) when `e` denotes <directory>/<constant name>:
    os.path.join(D, N), D + "/" + N, D + os.sep + N, D + "/name", f"{D}/name", "%s/name" % D -- after resolving
    locals and property getters.  None otherwise."""
    e = full_resolve(prog, fi, e)
    if isinstance(e, ast.Call) and qual(fi, e.func) == "os.path.join" and len(e.args) == 2 and not e.keywords:
        n = const_str(prog, fi, e.args[1])
        if n is not None and "/" not in n:
            return e.args[0], n
        return None
    if isinstance(e, ast.BinOp) and isinstance(e.op, ast.Add):
        n = const_str(prog, fi, e.right)
        if n is None:
            return None
        left = e.left
        if n.startswith("/") and "/" not in n[1:] and len(n) > 1:
            return left, n[1:]
        if "/" in n:
            return None
        if isinstance(left, ast.BinOp) and isinstance(left.op, ast.Add):
            sep = left.right
            if (isinstance(sep, ast.Constant) and sep.value == "/") or qual(fi, sep) in ("os.sep", "os.path.sep"):
                return left.left, n
        return None
    if isinstance(e, ast.JoinedStr) and len(e.values) == 2:
        d, n = e.values
        if isinstance(d, ast.FormattedValue) and d.conversion == -1 and d.format_spec is None and isinstance(n, ast.Constant) \
                and isinstance(n.value, str) and n.value.startswith("/") and "/" not in n.value[1:] and len(n.value) > 1:
            return d.value, n.value[1:]
        return None
    if isinstance(e, ast.BinOp) and isinstance(e.op, ast.Mod) and isinstance(e.left, ast.Constant) and isinstance(e.left.value, str):
        f = e.left.value
        if f.startswith("%s/") and "%" not in f[2:] and "/" not in f[3:] and len(f) > 3:
            d = e.right
            if isinstance(d, ast.Tuple):
                if len(d.elts) != 1:
                    return None
                d = d.elts[0]
            return d, f[3:]
    return None


# ---------------------------------------------------------------------------
# tail-call expansion


def _tail_slots(body):
    """(statement list, index) of every statement in tail position (last statement, through if/else arms)."""
    if not body:
        return
    last = body[-1]
    if isinstance(last, ast.If):
        yield from _tail_slots(last.body)
        yield from _tail_slots(last.orelse)
    else:
        yield body, len(body) - 1


def _strip_doc(body):
    if body and isinstance(body[0], ast.Expr) and isinstance(body[0].value, ast.Constant) and isinstance(body[0].value.value, str):
        return body[1:]
    return body


def _bound_names(fn):
    out = set()
    a = fn.args
    out |= {x.arg for x in a.posonlyargs + a.args + a.kwonlyargs}
    for n in ast.walk(fn):
        if isinstance(n, ast.Name):
            out.add(n.id)
        elif isinstance(n, (ast.FunctionDef, ast.AsyncFunctionDef)) and n is not fn:
            out.add(n.name)
        elif isinstance(n, ast.ExceptHandler) and n.name:
            out.add(n.name)
    return out


def _simple_arg(e):
    if isinstance(e, (ast.Constant, ast.Name)):
        return True
    if isinstance(e, ast.Attribute):
        return _simple_arg(e.value)
    return False


class _Rename(ast.NodeTransformer):
    """rename locals of the callee (all contexts); nested scopes that rebind a name shadow it"""

    def __init__(self, rename):
        self.rename = rename

    def visit_Name(self, n):
        if n.id in self.rename:
            return ast.copy_location(ast.Name(id=self.rename[n.id], ctx=n.ctx), n)
        return n

    def visit_ExceptHandler(self, n):
        if n.name and n.name in self.rename:
            n.name = self.rename[n.name]
        self.generic_visit(n)
        return n

    def _scoped(self, n, bound):
        saved = self.rename
        self.rename = {k: v for k, v in saved.items() if k not in bound}
        self.generic_visit(n)
        self.rename = saved
        return n

    def visit_Lambda(self, n):
        a = n.args
        return self._scoped(n, {x.arg for x in a.posonlyargs + a.args + a.kwonlyargs})

    def visit_FunctionDef(self, n):
        a = n.args
        bound = {x.arg for x in a.posonlyargs + a.args + a.kwonlyargs}
        if n.name in self.rename:
            n.name = self.rename[n.name]
        return self._scoped(n, bound)

    visit_AsyncFunctionDef = visit_FunctionDef


class _GiveUp(Exception):
    pass


def _has_return(stmts):
    todo = list(stmts)
    while todo:
        n = todo.pop()
        if isinstance(n, ast.Return):
            return True
        if isinstance(n, (ast.FunctionDef, ast.AsyncFunctionDef, ast.Lambda, ast.ClassDef)):
            continue
        todo.extend(ast.iter_child_nodes(n))
    return False


def _cps(stmts, k):
    """Statement list equivalent to `stmts` followed by `k`, where a `return` inside `stmts` means "go on with k" and
    `k` runs to the end of the enclosing function.  The continuation is copied into the places control reaches it from:
    after a return, at the end of if arms, and -- for `try: A except E: H` -- into H and into the `else` clause (neither
    is covered by the handlers of that try, exactly like code after the statement).  Returns inside the protected body
    of a try, inside with blocks and inside loops are not expressible this way (_GiveUp)."""
    for j, s in enumerate(stmts):
        if not _has_return([s]):
            continue
        pre, post = list(stmts[:j]), list(stmts[j + 1:])
        if isinstance(s, ast.Return):
            if s.value is not None and not isinstance(s.value, ast.Constant):
                pre.append(ast.copy_location(ast.Expr(value=s.value), s))
            return pre + copy.deepcopy(k)
        if isinstance(s, ast.If):
            nb = _cps(list(s.body) + copy.deepcopy(post), k)
            no = _cps(list(s.orelse) + copy.deepcopy(post), k)
            return pre + [ast.copy_location(ast.If(test=s.test, body=nb or [ast.copy_location(ast.Pass(), s)], orelse=no), s)]
        if isinstance(s, ast.Try) and not s.finalbody and not _has_return(s.body):
            used = {n.id for x in post + list(k) for n in ast.walk(x) if isinstance(n, ast.Name)}
            hs = []
            for h in s.handlers:
                if h.name and h.name in used:
                    raise _GiveUp()
                nh = copy.copy(h)
                nh.body = _cps(list(h.body) + copy.deepcopy(post), k) or [ast.copy_location(ast.Pass(), h)]
                hs.append(nh)
            ne = _cps(list(s.orelse) + copy.deepcopy(post), k)
            return pre + [ast.copy_location(ast.Try(body=s.body, handlers=hs, orelse=ne, finalbody=[]), s)]
        raise _GiveUp()
    return list(stmts) + copy.deepcopy(k)


def _expand_call_once(prog, fi, fnode):
    """new FunctionDef with one statement `self.h(...)` (h not a function of the confirmed tree) replaced by h's body,
    or None.  Sites: statements in tail position (any helper shape), and statements of the function's top-level body
    followed by further statements (helper shapes _cps can express)."""
    if fi.cls is None:
        return None
    ps = [x.arg for x in fnode.args.posonlyargs + fnode.args.args]
    if not ps:
        return None
    selfname = ps[0]
    slots = [(lst, i, True) for lst, i in _tail_slots(fnode.body)]
    slots += [(fnode.body, i, False) for i in range(len(fnode.body) - 1)]
    for lst, i, tail in slots:
        st = lst[i]
        if not (isinstance(st, ast.Expr) and isinstance(st.value, ast.Call)):
            continue
        call = st.value
        f = call.func
        if not (isinstance(f, ast.Attribute) and isinstance(f.value, ast.Name) and f.value.id == selfname):
            continue
        h = prog.lookup_method(fi.cls.qn, f.attr)
        if h is None or h.module is not fi.module or h.node is fi.node or h.node.name == fnode.name:
            continue
        if h.qn in baseline():
            continue  # an anchored function of the confirmed tree: the rules want to see the call (same policy as inline.py)
        hn = h.node
        if not isinstance(hn, ast.FunctionDef) or hn.decorator_list or isinstance(fnode, ast.AsyncFunctionDef):
            continue
        ha = hn.args
        if ha.vararg or ha.kwarg or ha.posonlyargs or not ha.args:
            continue
        if any(isinstance(n, (ast.Yield, ast.YieldFrom, ast.Await, ast.Global, ast.Nonlocal)) for n in walk_no_nested(hn)):
            continue
        if any(isinstance(n, ast.Call) and isinstance(n.func, ast.Attribute) and n.func.attr == hn.name for n in ast.walk(hn)):
            continue  # (possibly) recursive
        if any(prog.lookup_method(sub, f.attr) is not h for sub in prog.subclasses(fi.cls.qn)):
            continue  # dynamically dispatched
        if any(isinstance(a, ast.Starred) for a in call.args) or any(k.arg is None for k in call.keywords):
            continue
        hps = [x.arg for x in ha.args]
        hself, hps = hps[0], hps[1:]
        allps = hps + [k.arg for k in ha.kwonlyargs]
        defaults = dict(zip(hps[len(hps) - len(ha.defaults):], ha.defaults)) if ha.defaults else {}
        for k, d in zip(ha.kwonlyargs, ha.kw_defaults):
            if d is not None:
                defaults[k.arg] = d
        bound = {}
        if len(call.args) > len(hps):
            continue
        for p, a in zip(hps, call.args):
            bound[p] = a
        bad = False
        for k in call.keywords:
            if k.arg not in allps or k.arg in bound:
                bad = True
            bound[k.arg] = k.value
        for p in allps:
            if p not in bound:
                if p in defaults:
                    bound[p] = defaults[p]
                else:
                    bad = True
        if bad:
            continue
        body = copy.deepcopy(_strip_doc(hn.body))
        holder = ast.Module(body=body, type_ignores=[])
        assigned = {n.id for n in ast.walk(holder) if isinstance(n, ast.Name) and isinstance(n.ctx, (ast.Store, ast.Del))}
        if hself in assigned:
            continue
        caller_names = _bound_names(fnode)
        callee_locals = set(assigned)
        for n in ast.walk(holder):
            if isinstance(n, ast.ExceptHandler) and n.name:
                callee_locals.add(n.name)
            elif isinstance(n, (ast.FunctionDef, ast.AsyncFunctionDef)):
                callee_locals.add(n.name)
        taken = set(caller_names) | callee_locals | set(allps)
        rename = {}

        def fresh(base):
            k = 1
            while "%s_t%d" % (base, k) in taken:
                k += 1
            taken.add("%s_t%d" % (base, k))
            return "%s_t%d" % (base, k)

        for l in sorted((callee_locals | set(allps)) - {hself}):
            if l in caller_names:
                rename[l] = fresh(l)
        mapping = {hself: ast.Name(id=selfname, ctx=ast.Load())} if hself != selfname else {}
        prelude = []
        for p in allps:
            a = bound[p]
            if p not in assigned and _simple_arg(a):
                mapping[p] = a
            else:
                prelude.append(ast.copy_location(ast.Assign(targets=[ast.Name(id=rename.get(p, p), ctx=ast.Store())], value=copy.deepcopy(a)), st))
        holder = _Rename(rename).visit(holder)
        if mapping:
            holder = _NameSubst({rename.get(k, k): v for k, v in mapping.items()}).visit(holder)
        if tail:
            # a `return v` of the helper ends the caller as well (the value is dropped, its evaluation is kept)
            class _Ret(ast.NodeTransformer):
                def visit_Return(self, n):
                    if n.value is None or isinstance(n.value, ast.Constant):
                        return ast.copy_location(ast.Return(value=None), n)
                    return [ast.copy_location(ast.Expr(value=n.value), n), ast.copy_location(ast.Return(value=None), n)]

                def visit_FunctionDef(self, n):
                    return n

                visit_AsyncFunctionDef = visit_FunctionDef
                visit_Lambda = visit_FunctionDef

            holder = _Ret().visit(holder)
            new_stmts = prelude + list(holder.body) or [ast.copy_location(ast.Pass(), st)]
            keep = lst[:i]
        else:
            try:
                new_stmts = prelude + _cps(list(holder.body), lst[i + 1:])
            except _GiveUp:
                continue
            keep = lst[:i]

        # rebuild the caller with the slot replaced (identity of the other statements is kept)
        def rebuild(body):
            if body is lst:
                return keep + new_stmts
            if body and isinstance(body[-1], ast.If):
                last = body[-1]
                nb, no = rebuild(last.body), rebuild(last.orelse)
                if nb is not last.body or no is not last.orelse:
                    new_if = ast.copy_location(ast.If(test=last.test, body=nb, orelse=no), last)
                    return body[:-1] + [new_if]
            return body

        nbody = rebuild(fnode.body)
        if nbody is fnode.body:
            continue
        new = copy.copy(fnode)
        new.body = nbody
        ast.fix_missing_locations(new)
        return new, h
    return None


def unexpanded_helper_calls(prog, fi):
    """statement/expression calls `self.h(...)` left in fi where h is a method that is not part of the confirmed tree"""
    if fi.cls is None:
        return []
    ps = params(fi, skip_self=False)
    out = []
    for c in calls_in(fi.node):
        f = c.func
        if isinstance(f, ast.Attribute) and isinstance(f.value, ast.Name) and ps and f.value.id == ps[0]:
            h = prog.lookup_method(fi.cls.qn, f.attr)
            if h is not None and h.qn not in baseline():
                out.append(c)
    return out


def tail_expanded(prog, fi, depth=4):
    """FuncInfo of `fi` with the helper methods inline.py left as calls expanded in place where that is still possible:
    * `self.helper(...)` in tail position (last statement, also at the end of if/else arms): sound without restriction
      on the helper's shape -- when the call is the last thing the caller does, `return` in the helper and falling off
      the caller's end coincide, so returns inside try/with/loops need no restructuring (what stops inline.py there);
    * `self.helper(...)` as a top-level statement followed by more statements: the rest of the caller becomes the
      continuation of every `return` of the helper (_cps)."""
    cache = prog.__dict__.setdefault("_c13_tail", {})
    if fi.qn in cache:
        return cache[fi.qn]
    node = fi.node
    expanded = []
    for _ in range(depth):
        r = _expand_call_once(prog, fi, node)
        if r is None:
            break
        node, h = r
        expanded.append(h.short)
    if not expanded:
        cache[fi.qn] = fi
        return fi
    nfi = FuncInfo(fi.qn, node, fi.module, fi.cls, fi.parent)
    nfi.tail_expanded = expanded
    cache[fi.qn] = nfi
    return nfi


# ---------------------------------------------------------------------------
# dict contents per path


class DictVal:
    def __init__(self):
        self.entries = {}  # key -> (value expr, statement)
        self.opaque = None  # reason the contents are not known exactly

    def copy(self):
        d = DictVal()
        d.entries = dict(self.entries)
        d.opaque = self.opaque
        return d


_DICT_READS = {"get", "items", "keys", "values", "copy", "__contains__", "__getitem__"}


class DictStates:
    """Contents of dict-valued locals of a function at a CFG node, for every path of the path model that reaches the
    node: literal `{..}` (with `**other`), `dict(..)`, `d[k] = v`, `d.update(..)`, `d.setdefault(k, v)`, `del d[k]`,
    `d.pop(k)`, `d.clear()`, aliases `e = d`, copies `dict(d)` / `d.copy()` / `{**d}`.  Values are kept as expressions
    with the locals assigned earlier on the same path substituted."""

    def __init__(self, fi, pm=None, const=None):
        """const: optional `expr -> str | None` resolving named string constants used as keys"""
        self.fi = fi
        self.pm = pm or PathModel(fi)
        self.cfg = self.pm.cfg
        self.const = const

    def _key(self, k):
        if isinstance(k, ast.Constant):
            return k.value if isinstance(k.value, str) else None
        return self.const(k) if self.const is not None else None

    # -- expression evaluation under an environment
    def _subst(self, env, e):
        m = {k: v for k, v in env.items() if isinstance(v, ast.AST)}
        used = {n.id for n in ast.walk(e) if isinstance(n, ast.Name) and isinstance(n.ctx, ast.Load)} & set(m)
        if not used:
            return e
        r, _ = subst_names(e, {k: m[k] for k in used})
        return ast.copy_location(r, e)

    def _merge_pairs(self, d, env, keys, values, stmt):
        for k, v in zip(keys, values):
            if k is None:  # **spread
                src = self.value(env, v)
                if isinstance(src, DictVal):
                    d.entries.update(src.entries)
                    d.opaque = d.opaque or src.opaque
                else:
                    d.opaque = "spread of %s" % stmt_text(v, 40)
                continue
            ks = self._key(k)
            if ks is not None:
                d.entries[ks] = (self._subst(env, v), stmt)
            else:
                d.opaque = "non-constant key %s" % stmt_text(k, 40)

    def _from_call(self, env, call, stmt, into=None):
        """dict(...) / d.update(...) argument forms"""
        d = into if into is not None else DictVal()
        if len(call.args) > 1 or any(isinstance(a, ast.Starred) for a in call.args):
            d.opaque = "argument form of %s" % stmt_text(call, 40)
            return d
        if call.args:
            a = call.args[0]
            src = self.value(env, a)
            if isinstance(src, DictVal):
                d.entries.update(src.entries)
                d.opaque = d.opaque or src.opaque
            elif isinstance(a, (ast.List, ast.Tuple)) and all(isinstance(x, (ast.Tuple, ast.List)) and len(x.elts) == 2 for x in a.elts):
                self._merge_pairs(d, env, [x.elts[0] for x in a.elts], [x.elts[1] for x in a.elts], stmt)
            else:
                d.opaque = "argument %s" % stmt_text(a, 40)
        for k in call.keywords:
            if k.arg is None:
                self._merge_pairs(d, env, [None], [k.value], stmt)
            else:
                d.entries[k.arg] = (self._subst(env, k.value), stmt)
        return d

    def value(self, env, e, stmt=None):
        """DictVal when `e` builds / names a dict the model knows, else the expression with locals substituted"""
        stmt = stmt if stmt is not None else e
        if isinstance(e, ast.Name):
            v = env.get(e.id)
            return v if v is not None else e
        if isinstance(e, ast.Dict):
            d = DictVal()
            self._merge_pairs(d, env, e.keys, e.values, stmt)
            return d
        if isinstance(e, ast.Call):
            if isinstance(e.func, ast.Name) and e.func.id == "dict" and "dict" not in env:
                return self._from_call(env, e, stmt)
            if isinstance(e.func, ast.Attribute) and e.func.attr == "copy" and not e.args and not e.keywords:
                src = self.value(env, e.func.value)
                if isinstance(src, DictVal):
                    return src.copy()
        return self._subst(env, e)

    # -- statements
    def _escapes(self, env, root, skip=()):
        """dict-valued locals handed to a call that might change them (anything but logging / json.dumps / json.dump)"""
        for c in walk_no_nested(root):
            if not isinstance(c, ast.Call) or is_log_call(c):
                continue
            cn = qual(self.fi, c.func) or ""
            if cn in ("json.dumps", "json.dump", "dict", "len", "repr", "str", "sorted", "list", "tuple", "isinstance", "bool"):
                continue
            for a in list(c.args) + [k.value for k in c.keywords]:
                if isinstance(a, ast.Starred):
                    a = a.value
                if isinstance(a, ast.Name) and isinstance(env.get(a.id), DictVal):
                    env[a.id].opaque = "passed to %s" % stmt_text(c.func, 40)

    def _bind(self, env, target, value, stmt):
        if isinstance(target, ast.Name):
            if value is None:
                env.pop(target.id, None)
            else:
                env[target.id] = value
        elif isinstance(target, (ast.Tuple, ast.List)):
            for el in target.elts:
                self._bind(env, el.value if isinstance(el, ast.Starred) else el, None, stmt)
        elif isinstance(target, ast.Subscript) and isinstance(target.value, ast.Name):
            d = env.get(target.value.id)
            if isinstance(d, DictVal):
                ks = self._key(target.slice)
                if ks is not None:
                    raw = getattr(stmt, "value", None)
                    d.entries[ks] = (value if isinstance(value, ast.AST) else (raw if isinstance(raw, ast.AST) else ast.Name(id="<dict>", ctx=ast.Load())), stmt)
                else:
                    d.opaque = "non-constant key in %s" % stmt_text(stmt, 60)

    def exec_stmt(self, env, node):
        a = node.ast
        k = node.kind
        if k == "with":
            for it in a.items:
                self._escapes(env, it.context_expr)
                if it.optional_vars is not None:
                    self._bind(env, it.optional_vars, None, a)
            return
        if k == "for":
            self._bind(env, a.target, None, a)
            return
        if k == "handler":
            if a.name:
                env.pop(a.name, None)
            return
        if k in ("test", "return"):
            if a is not None:
                self._escapes(env, a)
            return
        if k != "stmt" or a is None:
            return
        if isinstance(a, ast.Assign):
            self._escapes(env, a.value)
            if len(a.targets) == 1 and isinstance(a.targets[0], (ast.Tuple, ast.List)) and isinstance(a.value, (ast.Tuple, ast.List)) \
                    and len(a.targets[0].elts) == len(a.value.elts) and not any(isinstance(x, ast.Starred) for x in list(a.targets[0].elts) + list(a.value.elts)):
                vals = [self.value(env, v, a) for v in a.value.elts]
                for t, v in zip(a.targets[0].elts, vals):
                    self._bind(env, t, v, a)
                return
            v = self.value(env, a.value, a)
            for t in a.targets:
                self._bind(env, t, v, a)
        elif isinstance(a, ast.AnnAssign):
            if a.value is not None:
                self._escapes(env, a.value)
                self._bind(env, a.target, self.value(env, a.value, a), a)
        elif isinstance(a, ast.AugAssign):
            self._escapes(env, a.value)
            if isinstance(a.target, ast.Name):
                d = env.get(a.target.id)
                if isinstance(d, DictVal) and isinstance(a.op, ast.BitOr):  # d |= {...}
                    src = self.value(env, a.value, a)
                    if isinstance(src, DictVal):
                        d.entries.update({k_: (v_[0], a) for k_, v_ in src.entries.items()})
                        d.opaque = d.opaque or src.opaque
                    else:
                        d.opaque = "|= %s" % stmt_text(a.value, 40)
                else:
                    env.pop(a.target.id, None)
            elif isinstance(a.target, ast.Subscript) and isinstance(a.target.value, ast.Name) and isinstance(env.get(a.target.value.id), DictVal):
                env[a.target.value.id].opaque = "augmented store %s" % stmt_text(a, 60)
        elif isinstance(a, ast.Delete):
            for t in a.targets:
                if isinstance(t, ast.Name):
                    env.pop(t.id, None)
                elif isinstance(t, ast.Subscript) and isinstance(t.value, ast.Name) and isinstance(env.get(t.value.id), DictVal):
                    d = env[t.value.id]
                    if self._key(t.slice) is not None:
                        d.entries.pop(self._key(t.slice), None)
                    else:
                        d.opaque = "del with non-constant key"
        elif isinstance(a, ast.Expr) and isinstance(a.value, ast.Call):
            c = a.value
            f = c.func
            if isinstance(f, ast.Attribute) and isinstance(f.value, ast.Name) and isinstance(env.get(f.value.id), DictVal):
                d = env[f.value.id]
                for x in c.args:
                    self._escapes(env, x)
                if f.attr == "update":
                    self._from_call(env, c, a, into=d)
                elif f.attr == "setdefault" and len(c.args) == 2 and self._key(c.args[0]) is not None:
                    d.entries.setdefault(self._key(c.args[0]), (self._subst(env, c.args[1]), a))
                elif f.attr == "pop" and c.args and self._key(c.args[0]) is not None:
                    d.entries.pop(self._key(c.args[0]), None)
                elif f.attr == "clear" and not c.args:
                    d.entries.clear()
                elif f.attr not in _DICT_READS:
                    d.opaque = "method %s" % f.attr
            else:
                self._escapes(env, c)
        else:
            self._escapes(env, a)

    def at(self, nid, expr):
        """[(path, value)] -- value of `expr` (DictVal or expression) just before node `nid` on every path through it"""
        out = []
        for p in self.pm.paths_through(nid):
            env = {}
            # DictVals are mutable and shared between aliases of one path only
            for n in p.nodes[: p.nodes.index(nid)]:
                self.exec_stmt(env, self.cfg.nodes[n])
            v = self.value(env, expr)
            out.append((p, v.copy() if isinstance(v, DictVal) else v))
        return out


def arms(e, hyps=()):
    """[(leaf expr, ((test, polarity), ...))] -- the values a conditional expression can take and when"""
    if isinstance(e, ast.IfExp):
        return arms(e.body, tuple(hyps) + ((e.test, True),)) + arms(e.orelse, tuple(hyps) + ((e.test, False),))
    return [(e, tuple(hyps))]


def _atomic_facts(e, pol):
    if isinstance(e, ast.UnaryOp) and isinstance(e.op, ast.Not):
        return _atomic_facts(e.operand, not pol)
    if isinstance(e, ast.BoolOp):
        if isinstance(e.op, ast.And) == pol:
            out = []
            for v in e.values:
                out.extend(_atomic_facts(v, pol))
            return out
        return []
    return [(e, pol)]


def truth_under(pm, path, hyps, e):
    """three-valued truth of `e` on `path` with the additional hypotheses (test, polarity) assumed"""
    from ..paths import atom_key

    dec = dict(path.decisions)
    for t, pol in hyps:
        for x, p in _atomic_facts(t, pol):
            k, kp = atom_key(x)
            dec.setdefault(k, p == kp)
    return pm.truth(e, Path(path.nodes, dec, path.values, path.end))


# ---------------------------------------------------------------------------
# reads of a mapping, field assignments, callables


def _kstr(k, const):
    if isinstance(k, ast.Constant):
        return k.value if isinstance(k.value, str) else None
    return const(k) if const is not None else None


def key_read(e, var, const=None):
    """(key, node) when `e` reads one constant key of the mapping local `var`:
    var[K], var.get(K), var.get(K, None), var.pop(K); key None = non-constant key; result None = not a read of var.
    const: optional `expr -> str | None` resolving named string constants"""
    if isinstance(e, ast.Subscript) and isinstance(e.value, ast.Name) and e.value.id == var:
        return _kstr(e.slice, const), e
    if isinstance(e, ast.Call) and isinstance(e.func, ast.Attribute) and e.func.attr in ("get", "pop", "__getitem__") \
            and isinstance(e.func.value, ast.Name) and e.func.value.id == var and e.args:
        return _kstr(e.args[0], const), e
    return None


def key_reads_in(root, var, const=None):
    out = []
    for n in (walk_no_nested(root) if isinstance(root, (ast.FunctionDef, ast.AsyncFunctionDef)) else ast.walk(root)):
        r = key_read(n, var, const)
        if r is not None:
            out.append(r)
    return out


def is_verbatim_read(e, var, key, const=None):
    """`e` is exactly the stored value: var[key] or var.get(key) / var.get(key, None) (an absent key then gives None)"""
    r = key_read(e, var, const)
    if r is None or r[0] != key:
        return False
    if isinstance(e, ast.Subscript):
        return True
    if e.func.attr == "get":
        return len(e.args) == 1 or (len(e.args) == 2 and isinstance(e.args[1], ast.Constant) and e.args[1].value is None)
    return e.func.attr == "__getitem__" and len(e.args) == 1


def field_assigns(fnode):
    """[(attribute chain, value expr or None, statement)] of every plain assignment to an attribute chain,
    including the parallel form `self.a, self.b = x, y` (value None when the right side cannot be split)"""
    out = []
    for n in walk_no_nested(fnode):
        if isinstance(n, ast.Assign):
            for t in n.targets:
                if isinstance(t, (ast.Tuple, ast.List)):
                    split = isinstance(n.value, (ast.Tuple, ast.List)) and len(n.value.elts) == len(t.elts) \
                        and not any(isinstance(x, ast.Starred) for x in list(t.elts) + list(n.value.elts))
                    for i, tt in enumerate(t.elts):
                        c = chain(tt)
                        if c and isinstance(tt, ast.Attribute):
                            out.append((c, n.value.elts[i] if split else None, n))
                elif isinstance(t, ast.Attribute):
                    c = chain(t)
                    if c:
                        out.append((c, n.value, n))
        elif isinstance(n, ast.AnnAssign) and isinstance(n.target, ast.Attribute) and n.value is not None:
            c = chain(n.target)
            if c:
                out.append((c, n.value, n))
        elif isinstance(n, ast.AugAssign) and isinstance(n.target, ast.Attribute):
            c = chain(n.target)
            if c:
                out.append((c, None, n))
    return out


def recv_aliases(fnode, field_chain):
    """local names that denote the object in `field_chain`: `x = self.f` or `self.f = x` (x bound once)"""
    single = _single_values(fnode)
    out = set()
    for name, v in single.items():
        if chain(v) == field_chain:
            out.add(name)
    for c, v, st in field_assigns(fnode):
        if c == field_chain and isinstance(v, ast.Name) and v.id in single:
            out.add(v.id)
    return out


def recv_is(fnode, e, field_chain):
    if chain(e) == field_chain:
        return True
    return isinstance(e, ast.Name) and e.id in recv_aliases(fnode, field_chain)


def callable_target(fi, e):
    """Attribute chain of the function that calling `e` with no arguments calls with no arguments:
    `self.m`, `lambda: self.m()`, `functools.partial(self.m)`, a local `def cb(): self.m()` / `return self.m()`."""
    fnode = fi.node
    e = deep_resolve(fnode, e)
    if isinstance(e, ast.Attribute):
        return chain(e)
    if isinstance(e, ast.Lambda):
        a = e.args
        if a.posonlyargs or a.args or a.vararg or a.kwonlyargs or a.kwarg:
            return None
        b = e.body
        if isinstance(b, ast.Call) and not b.args and not b.keywords:
            return chain(b.func)
        return None
    if isinstance(e, ast.Call) and qual(fi, e.func) in ("functools.partial",) and len(e.args) == 1 and not e.keywords:
        return callable_target(fi, e.args[0])
    if isinstance(e, ast.Name):
        defs = [n for n in walk_no_nested(fnode) if isinstance(n, ast.FunctionDef) and n is not fnode and n.name == e.id]
        if len(defs) == 1 and not writes_to_name(fnode, e.id):
            d = defs[0]
            a = d.args
            if a.posonlyargs or a.args or a.vararg or a.kwonlyargs or a.kwarg or d.decorator_list:
                return None
            body = _strip_doc(d.body)
            if len(body) == 1 and isinstance(body[0], (ast.Expr, ast.Return)) and isinstance(body[0].value, ast.Call):
                b = body[0].value
                if not b.args and not b.keywords:
                    return chain(b.func)
    return None


# ---------------------------------------------------------------------------
# choice expressions as branches


def _is_builtin_call(fnode, e, names):
    return isinstance(e, ast.Call) and isinstance(e.func, ast.Name) and e.func.id in names and not writes_to_name(fnode, e.func.id)


def _choice_of(fnode, e):
    """(test, value if true, value if false) when `e` *is* a choice between values: `A if c else B`, `min(A, B, ...)`,
    `max(A, B, ...)` (n-ary forms are folded from the left: min(A, B, C) = min(A, min(B, C)))."""
    if isinstance(e, ast.IfExp):
        return e.test, e.body, e.orelse
    if _is_builtin_call(fnode, e, ("min", "max")) and len(e.args) >= 2 and not e.keywords and not any(isinstance(a, ast.Starred) for a in e.args):
        a = e.args[0]
        b = e.args[1] if len(e.args) == 2 else ast.copy_location(ast.Call(func=e.func, args=list(e.args[1:]), keywords=[]), e)
        op = ast.LtE() if e.func.id == "min" else ast.GtE()
        return ast.copy_location(ast.Compare(left=a, ops=[op], comparators=[b]), e), a, b
    return None


def _first_choice(fnode, e):
    """the first (outermost, leftmost) choice sub-expression of e outside nested scopes, or None"""
    todo = [e]
    while todo:
        n = todo.pop(0)
        if isinstance(n, (ast.Lambda, ast.ListComp, ast.SetComp, ast.DictComp, ast.GeneratorExp)):
            continue
        if _choice_of(fnode, n) is not None:
            return n
        todo.extend(ast.iter_child_nodes(n))
    return None


def _pure_arith(fnode, e):
    """no call other than min/max/abs/int/len, no await/yield/walrus: evaluating e (or parts of it) twice or not at
    all changes nothing"""
    for n in ast.walk(e):
        if isinstance(n, (ast.Await, ast.Yield, ast.YieldFrom, ast.NamedExpr, ast.Lambda)):
            return False
        if isinstance(n, ast.Call) and not _is_builtin_call(fnode, n, ("min", "max", "abs", "int", "len")):
            return False
    return True


def _replace_node(root, old, new):
    """fresh copy of the tree `root` with the node `old` (by identity) replaced by a copy of `new`"""
    if root is old:
        return copy.deepcopy(new)
    if not isinstance(root, ast.AST):
        return root
    kw = {}
    for f, v in ast.iter_fields(root):
        if isinstance(v, list):
            kw[f] = [_replace_node(x, old, new) for x in v]
        else:
            kw[f] = _replace_node(v, old, new)
    n = type(root)(**kw)
    return ast.copy_location(n, root) if hasattr(root, "lineno") else n


class _ChoiceToIf(ast.NodeTransformer):
    """`t = E[choice(c, A, B)]` -> `if c: t = E[A]  else: t = E[B]`, repeatedly, for assignments whose value is pure
    arithmetic.  In the original the condition (for min/max: the comparison of the operands) decides which operand is
    the value; the rewritten form makes that decision a branch, so a path-wise symbolic execution sees every value the
    target can take together with the condition under which it takes it."""

    def __init__(self, fnode, budget=64):
        self.fnode = fnode
        self.budget = budget

    def _split(self, st, mk):
        v = st.value
        if v is None or not _pure_arith(self.fnode, v) or self.budget <= 0:
            return st
        ch = _first_choice(self.fnode, v)
        if ch is None:
            return st
        self.budget -= 1
        test, a, b = _choice_of(self.fnode, ch)
        sa = ast.copy_location(mk(_replace_node(v, ch, a)), st)
        sb = ast.copy_location(mk(_replace_node(v, ch, b)), st)
        return ast.copy_location(ast.If(test=copy.deepcopy(test), body=[self.visit(sa)], orelse=[self.visit(sb)]), st)

    def visit_Assign(self, st):
        return self._split(st, lambda v: ast.Assign(targets=copy.deepcopy(st.targets), value=v))

    def visit_AugAssign(self, st):
        return self._split(st, lambda v: ast.AugAssign(target=copy.deepcopy(st.target), op=st.op, value=v))

    def visit_AnnAssign(self, st):
        return self._split(st, lambda v: ast.AnnAssign(target=copy.deepcopy(st.target), annotation=st.annotation, value=v, simple=st.simple))

    def visit_FunctionDef(self, n):
        return n

    visit_AsyncFunctionDef = visit_FunctionDef
    visit_Lambda = visit_FunctionDef
    visit_ClassDef = visit_FunctionDef


def choices_as_branches(prog, fi):
    """FuncInfo of a private copy of fi in which every pure assignment from a choice expression (conditional
    expression, min, max -- also nested in arithmetic or in each other) is an if/else ladder; fi itself when there is
    nothing to rewrite."""
    cache = prog.__dict__.setdefault("_c13_choices", {})
    if fi.qn in cache:
        return cache[fi.qn]
    node = copy.deepcopy(fi.node)

    tr = _ChoiceToIf(node)
    tr.generic_visit(node)
    ast.fix_missing_locations(node)
    if ast.dump(node) == ast.dump(fi.node):
        cache[fi.qn] = fi
    else:
        cache[fi.qn] = FuncInfo(fi.qn, node, fi.module, fi.cls, fi.parent)
    return cache[fi.qn]


# ---------------------------------------------------------------------------
# feasible paths of a region under constant propagation


class _Unknown:
    def __repr__(self):
        return "?"


UNKNOWN = _Unknown()


class Token:
    """an opaque run-time object with an identity the rule knows (e.g. "what json.load returned for the state file",
    "the object a class-level sentinel was bound to once").  What is known about it beyond its identity:
      is_object    it is an instance of a class of the analysed program (or a bare object() / a fresh mutable display):
                   never None, never a number / string / bool, so `tok is <constant>` is false;
      identity_eq  additionally its class leaves __eq__ to object: `tok == x` is `tok is x` (and the reflected
                   comparison falls back to it whenever x's own __eq__ declines, as the builtin data types do);
      plain_data   it is built from None / bool / numbers / strings / lists / dicts only (decoded JSON): its __eq__
                   declines any program object, and it is never identical to an object the program created itself."""

    def __init__(self, name, identity_eq=False, plain_data=False, is_object=False):
        self.name = name
        self.identity_eq = identity_eq
        self.plain_data = plain_data
        self.is_object = is_object or identity_eq

    def __repr__(self):
        return "<%s>" % self.name


# reserved key of an environment (not an identifier, so no local can collide): a callable expr -> value | UNKNOWN that
# gives a value to what is not a local -- names of module-level sentinels, attribute chains naming class-level ones,
# constructor calls that make a fresh object (see Sentinels).  It travels with every copy of the environment.
RESOLVE = "<resolve>"


def _is_plain_const(v):
    return v is None or isinstance(v, (bool, int, float, str, bytes))


def _identical(a, b):
    """a is b, for values of const_eval (constants / tokens): True / False / UNKNOWN"""
    ta, tb = isinstance(a, Token), isinstance(b, Token)
    if ta and tb:
        # distinct tokens stand for distinct objects: each token is one creation event (a definition evaluated once, one
        # execution of a constructor call, the one json.load of the state file), and decoded JSON never is an object
        # the program made
        return a is b
    if ta or tb:
        tok, c = (a, b) if ta else (b, a)
        if tok.is_object and (_is_plain_const(c) or isinstance(c, tuple)):
            return False
        return UNKNOWN
    if a is None or b is None or isinstance(a, bool) or isinstance(b, bool):
        return a is b
    return UNKNOWN


def _equal(a, b):
    """a == b, for values of const_eval: True / False / UNKNOWN"""
    ta, tb = isinstance(a, Token), isinstance(b, Token)
    if ta and tb:
        if a is b:
            return True if a.identity_eq else UNKNOWN
        # x == y with x an identity-compared object: x.__eq__ declines, y.__eq__ decides; y identity-compared or plain
        # data (whose __eq__ declines foreign objects): both decline, the result is `x is y`, i.e. False
        if (a.identity_eq and (b.identity_eq or b.plain_data)) or (b.identity_eq and a.plain_data):
            return False
        return UNKNOWN
    if ta or tb:
        tok, c = (a, b) if ta else (b, a)
        if tok.identity_eq and (_is_plain_const(c) or isinstance(c, tuple)):
            return False
        return UNKNOWN
    try:
        return a == b
    except TypeError:
        return UNKNOWN


def const_eval(e, env):
    """Value of `e` when it is decided by the constants / tokens the names stand for in `env`, else UNKNOWN.
    Only total operations on constants are interpreted (boolean operators, identity / equality / membership / order
    comparisons, conditional expressions); nothing of the analysed program is executed."""
    if isinstance(e, ast.Constant):
        return e.value
    if isinstance(e, ast.Name):
        if e.id in env:
            return env[e.id]
        r = env.get(RESOLVE)
        return r(e) if r is not None else UNKNOWN
    if isinstance(e, (ast.Attribute, ast.Call)):
        r = env.get(RESOLVE)
        return r(e) if r is not None else UNKNOWN
    if isinstance(e, ast.UnaryOp) and isinstance(e.op, ast.Not):
        v = const_eval(e.operand, env)
        if v is UNKNOWN or isinstance(v, Token):
            return UNKNOWN  # (the truth value of a token is not known)
        return not bool(v)
    if isinstance(e, ast.BoolOp):
        isand = isinstance(e.op, ast.And)
        last = UNKNOWN
        for x in e.values:
            v = const_eval(x, env)
            if v is UNKNOWN or isinstance(v, Token):
                return UNKNOWN
            last = v
            if bool(v) != isand:
                return v
        return last
    if isinstance(e, ast.IfExp):
        t = const_eval(e.test, env)
        if t is UNKNOWN or isinstance(t, Token):
            a, b = const_eval(e.body, env), const_eval(e.orelse, env)
            if a is not UNKNOWN and not isinstance(a, Token) and type(a) is type(b) and a == b:
                return a
            return UNKNOWN
        return const_eval(e.body if t else e.orelse, env)
    if isinstance(e, (ast.Tuple, ast.List)):
        vs = [const_eval(x, env) for x in e.elts]
        if any(v is UNKNOWN or isinstance(v, Token) for v in vs):
            return UNKNOWN
        return tuple(vs)
    if isinstance(e, ast.Compare):
        left = const_eval(e.left, env)
        res = True
        for op, r in zip(e.ops, e.comparators):
            if isinstance(op, (ast.In, ast.NotIn)) and isinstance(r, (ast.Tuple, ast.List, ast.Set)) and not any(isinstance(x, ast.Starred) for x in r.elts):
                # membership in a display: identical or equal to one of the elements (tokens allowed)
                if left is UNKNOWN:
                    return UNKNOWN
                found = False
                for x in r.elts:
                    xv = const_eval(x, env)
                    if xv is UNKNOWN:
                        found = UNKNOWN
                        continue
                    same_ = _identical(left, xv)
                    if same_ is not True:
                        same_ = _equal(left, xv)
                    if same_ is True:
                        found = True
                        break
                    if same_ is UNKNOWN:
                        found = UNKNOWN
                if found is UNKNOWN:
                    return UNKNOWN
                v = found == isinstance(op, ast.In)
                if not v:
                    return False
                left = UNKNOWN  # (a display is not chained on)
                continue
            right = const_eval(r, env)
            if left is UNKNOWN or right is UNKNOWN:
                return UNKNOWN
            if isinstance(op, (ast.Is, ast.IsNot)):
                v = _identical(left, right)
                if v is not UNKNOWN and isinstance(op, ast.IsNot):
                    v = not v
            elif isinstance(op, (ast.Eq, ast.NotEq)):
                v = _equal(left, right)
                if v is not UNKNOWN and isinstance(op, ast.NotEq):
                    v = not v
            elif isinstance(left, Token) or isinstance(right, Token):
                return UNKNOWN  # the identity of a token is known, its value is not
            else:
                try:
                    if isinstance(op, ast.In):
                        v = left in right
                    elif isinstance(op, ast.NotIn):
                        v = left not in right
                    elif isinstance(op, ast.Lt):
                        v = left < right
                    elif isinstance(op, ast.LtE):
                        v = left <= right
                    elif isinstance(op, ast.Gt):
                        v = left > right
                    elif isinstance(op, ast.GtE):
                        v = left >= right
                    else:
                        return UNKNOWN
                except TypeError:
                    return UNKNOWN
            if v is UNKNOWN:
                return UNKNOWN
            if not v:
                return False
            left = right
        return res
    return UNKNOWN


# ---------------------------------------------------------------------------
# sentinels: objects with a fixed identity that stand for "no value"


_ENUM_BASES = {"enum.Enum": True, "enum.Flag": True, "enum.IntEnum": False, "enum.IntFlag": False, "enum.StrEnum": False}


class Sentinels:
    """Gives an identity (Token) to expressions that denote one particular object made by the analysed program itself,
    whatever the spelling:

      * a class-level constant `X = <fresh object>` read as `self.X`, `cls.X`, `type(self).X`, `self.__class__.X`,
        `Class.X`, `module.Class.X`;
      * a module-level constant read by its name, through `from m import X`, or as `module.X`;
      * an alias of one of these bound at module level (`Y = X`);
      * a member of an Enum class (`State.MISSING`);
      * a constructor call evaluated in the function itself (`missing = object()`): one new Token per evaluation.

    <fresh object> is `object()`, a call of a class of the program that is instantiated the ordinary way (every base
    in the program or `object`, no __new__, no metaclass, no class decorator), or a list / dict / set display.  The
    binding must be the only one of that name in its scope and nothing in the program may store to an attribute of
    that name (on any receiver) or rebind the module-level name (`global`), so the expression denotes the same object
    on every evaluation; for `self.X` no subclass may define X differently.  Anything else is UNKNOWN -- the caller
    then simply does not know the value, which can only add paths, never remove feasible ones.

    Why this is sound for pruning: a branch is pruned only when const_eval decides its test, and for tokens it decides
    identity / equality only (a) between two tokens -- one object or two different creation events -- and (b)
    between an `is_object` token and a constant, which an instance of a program class never is."""

    def __init__(self, prog):
        self.prog = prog
        self.tokens = {}  # (scope qn, name) -> Token | UNKNOWN
        self._stored = {}
        self._fresh = 0

    # -- facts about the whole program
    def attr_stored(self, name):
        """some statement of the program stores to / deletes an attribute of that name (any receiver), or does so through
        setattr / delattr with a literal name"""
        if name not in self._stored:
            hit = False
            for m in self.prog.modules.values():
                for n in ast.walk(m.tree):
                    if isinstance(n, ast.Attribute) and n.attr == name and isinstance(n.ctx, (ast.Store, ast.Del)):
                        hit = True
                    elif isinstance(n, ast.Call) and isinstance(n.func, ast.Name) and n.func.id in ("setattr", "delattr") and len(n.args) >= 2 \
                            and isinstance(n.args[1], ast.Constant) and n.args[1].value == name:
                        hit = True
                if hit:
                    break
            self._stored[name] = hit
        return self._stored[name]

    @staticmethod
    def _scope_bindings(body_owner, name):
        """every binding of `name` in the scope of a module / class body (nested functions and classes excluded, their
        own names included)"""
        out = []
        for n in walk_no_nested(body_owner, include_root=False) if not isinstance(body_owner, ast.Module) else _walk_module_scope(body_owner):
            if isinstance(n, ast.Name) and n.id == name and isinstance(n.ctx, (ast.Store, ast.Del)):
                out.append(n)
            elif isinstance(n, (ast.FunctionDef, ast.AsyncFunctionDef, ast.ClassDef)) and n.name == name:
                out.append(n)
            elif isinstance(n, (ast.Import, ast.ImportFrom)):
                for al in n.names:
                    if (al.asname or al.name).split(".")[0] == name:
                        out.append(n)
            elif isinstance(n, ast.ExceptHandler) and n.name == name:
                out.append(n)
        return out

    @staticmethod
    def _direct_value(body, name):
        """the value of the unconditional simple binding `name = v` / `name: T = v` among the statements `body`"""
        found = []
        for st in body:
            if isinstance(st, ast.Assign) and len(st.targets) == 1 and isinstance(st.targets[0], ast.Name) and st.targets[0].id == name:
                found.append(st.value)
            elif isinstance(st, ast.AnnAssign) and isinstance(st.target, ast.Name) and st.target.id == name and st.value is not None:
                found.append(st.value)
        return found[0] if len(found) == 1 else None

    def _plain_class(self, q):
        """(instantiated the ordinary way, compares by identity) for class q of the program"""
        eq = True
        for k in self.prog.mro(q):
            if k == "object":
                continue
            ci = self.prog.classes.get(k)
            if ci is None or ci.node.keywords or ci.node.decorator_list:
                return False, False
            if "__new__" in ci.methods or "__new__" in ci.attrs or "__init_subclass__" in ci.methods:
                return False, False
            if "__eq__" in ci.methods or "__eq__" in ci.attrs:
                eq = False
        return True, eq

    def _new_token(self, what, **kw):
        self._fresh += 1
        return Token("%s #%d" % (what, self._fresh), **kw)

    def fresh_object(self, m, e, local_names=()):
        """a new Token when `e`, evaluated in module m, makes a new object of its own: object(), Class(...), a display"""
        if isinstance(e, (ast.List, ast.Dict, ast.Set, ast.ListComp, ast.DictComp, ast.SetComp)):
            return self._new_token("fresh %s" % type(e).__name__.lower(), is_object=True)
        if not isinstance(e, ast.Call):
            return UNKNOWN
        c = chain(e.func)
        if c is None or c.split(".")[0] in local_names:
            return UNKNOWN
        if c == "object" and not e.args and not e.keywords and "object" not in m.imports and not self._scope_bindings(m.tree, "object"):
            return self._new_token("object()", identity_eq=True)
        q = self.prog.resolve_in_module(m, c)
        if q in self.prog.classes:
            plain, eq = self._plain_class(q)
            if plain:
                return self._new_token("%s(..)" % q.rsplit(".", 1)[-1], identity_eq=eq, is_object=True)
        return UNKNOWN

    # -- definitions
    def module_name(self, m, name, depth=0):
        """the object the module-level name `name` of module m denotes"""
        key = (m.name, name)
        if key in self.tokens:
            return self.tokens[key]
        self.tokens[key] = UNKNOWN  # (cycles)
        v = UNKNOWN
        if depth <= 4 and not self.attr_stored(name) and not _declared_global(m, name):
            binds = self._scope_bindings(m.tree, name)
            if not binds and name in m.imports:
                v = self._qualified(m.imports[name], depth + 1)
            elif len(binds) == 1:
                if isinstance(binds[0], ast.ImportFrom) and name in m.imports:
                    v = self._qualified(m.imports[name], depth + 1)
                else:
                    val = self._direct_value(m.tree.body, name)
                    if val is not None:
                        v = self._value(m, val, "%s.%s" % (m.name, name), depth + 1)
        self.tokens[key] = v
        return v

    def _qualified(self, q, depth):
        """the object a qualified name `pkg.mod.NAME` / `pkg.mod.Class.NAME` denotes"""
        parts = q.split(".")
        for i in range(len(parts) - 1, 0, -1):
            head = ".".join(parts[:i])
            if head in self.prog.classes and i == len(parts) - 1:
                return self.class_attr(head, parts[-1], exact=True, depth=depth)
            if head in self.prog.modules:
                if i == len(parts) - 1:
                    return self.module_name(self.prog.modules[head], parts[-1], depth)
                return UNKNOWN
        return UNKNOWN

    def _value(self, m, val, label, depth):
        if isinstance(val, ast.Name):
            return self.module_name(m, val.id, depth)  # alias
        if isinstance(val, ast.Attribute):
            c = chain(val)
            if c is not None:
                return self._qualified(self.prog.resolve_in_module(m, c), depth)
            return UNKNOWN
        tok = self.fresh_object(m, val)
        if isinstance(tok, Token):
            tok.name = label
        return tok

    def class_attr(self, clsqn, name, exact, depth=0):
        """the object `C.name` denotes (exact: the receiver is class clsqn itself; otherwise it is an instance / subclass
        of clsqn, so every subclass in the program must inherit the same definition)"""
        key = (clsqn, name, exact)
        if key in self.tokens:
            return self.tokens[key]
        self.tokens[key] = UNKNOWN
        self.tokens[key] = v = self._class_attr(clsqn, name, exact, depth)
        return v

    def _class_attr(self, clsqn, name, exact, depth):
        prog = self.prog
        if depth > 4 or self.attr_stored(name) or clsqn not in prog.classes:
            return UNKNOWN
        owner = None
        for start in ([clsqn] if exact else prog.subclasses(clsqn)):
            found = None
            for k in prog.mro(start):
                if k == "object":
                    continue
                ci = prog.classes.get(k)
                if ci is None:
                    return UNKNOWN  # a base outside the program may define the name (or attribute access itself)
                if "__getattribute__" in ci.methods:
                    return UNKNOWN
                if self._scope_bindings(ci.node, name):
                    found = ci
                    break
            if found is None or (owner is not None and found is not owner):
                return UNKNOWN
            owner = found
        if owner is None:
            return UNKNOWN
        dkey = (owner.qn, name)
        if dkey in self.tokens:
            return self.tokens[dkey]
        self.tokens[dkey] = UNKNOWN
        v = UNKNOWN
        binds = self._scope_bindings(owner.node, name)
        val = self._direct_value(owner.node.body, name)
        if len(binds) == 1 and val is not None:
            enum_id = self._enum_class(owner.qn)
            if enum_id is not None:
                v = self._enum_member(owner, name, enum_id)
            elif isinstance(val, (ast.Name, ast.Attribute)):
                # alias evaluated in the class body: a name of the class scope first, else of the module
                if isinstance(val, ast.Name) and self._scope_bindings(owner.node, val.id):
                    v = self.class_attr(owner.qn, val.id, exact=True, depth=depth + 1)
                else:
                    v = self._value(owner.module, val, "%s.%s" % (owner.qn, name), depth + 1)
            else:
                v = self._value(owner.module, val, "%s.%s" % (owner.qn, name), depth + 1)
        self.tokens[dkey] = v
        return v

    def _enum_class(self, q):
        """None, or whether members of Enum class q compare by identity"""
        ident = None
        for k in self.prog.mro(q):
            if k in _ENUM_BASES:
                ident = _ENUM_BASES[k] if ident is None else (ident and _ENUM_BASES[k])
        if ident is None:
            return None
        for k in self.prog.mro(q):
            ci = self.prog.classes.get(k)
            if ci is not None and ("__eq__" in ci.methods or "__new__" in ci.methods):
                ident = False
        return ident

    def _enum_member(self, owner, name, ident):
        """members are singletons; two names with equal values are one member, so all values must be distinct constants
        (or auto())"""
        if name.startswith("_"):
            return UNKNOWN
        seen = []
        for st in owner.node.body:
            if isinstance(st, ast.Assign) and len(st.targets) == 1 and isinstance(st.targets[0], ast.Name) and not st.targets[0].id.startswith("_"):
                v = st.value
                if isinstance(v, ast.Call) and chain(v.func) in ("auto", "enum.auto") and not v.args:
                    continue
                if not isinstance(v, ast.Constant) or any(type(v.value) is type(o) and v.value == o for o in seen):
                    return UNKNOWN
                seen.append(v.value)
            elif isinstance(st, (ast.Assign, ast.AnnAssign, ast.AugAssign)):
                return UNKNOWN
        if any(isinstance(st, ast.Assign) and isinstance(st.value, ast.Call) for st in owner.node.body) and seen:
            return UNKNOWN  # auto() mixed with explicit values may collide
        return Token("%s.%s" % (owner.qn, name), identity_eq=ident, is_object=True)

    # -- expressions inside a function
    def resolver(self, fi):
        """expr -> Token | UNKNOWN for expressions of function fi that are not its locals"""
        prog = self.prog
        m = fi.module
        local = set(params(fi, skip_self=False))
        for n in walk_no_nested(fi.node):
            if isinstance(n, ast.Name) and isinstance(n.ctx, (ast.Store, ast.Del)):
                local.add(n.id)
            elif isinstance(n, (ast.FunctionDef, ast.AsyncFunctionDef, ast.ClassDef)) and n is not fi.node:
                local.add(n.name)
            elif isinstance(n, (ast.Import, ast.ImportFrom)):
                local.update((al.asname or al.name).split(".")[0] for al in n.names)
            elif isinstance(n, ast.ExceptHandler) and n.name:
                local.add(n.name)
            elif isinstance(n, ast.Global):
                local.update(n.names)  # (a global the function itself rebinds: not a constant)
        closure = fi.parent is not None  # free names may be the enclosing function's locals
        prm = params(fi, skip_self=False)
        decos = {chain(d) for d in getattr(fi.node, "decorator_list", [])}
        recv0 = prm[0] if (fi.cls is not None and prm and "staticmethod" not in decos and writes_to_name(fi.node, prm[0]) == []) else None

        def is_self_class(r):
            """r evaluates to the class of the receiver (or the receiver of a classmethod)"""
            if recv0 is None:
                return False
            if isinstance(r, ast.Name) and r.id == recv0:
                return True
            if isinstance(r, ast.Attribute) and r.attr == "__class__" and isinstance(r.value, ast.Name) and r.value.id == recv0:
                return True
            return isinstance(r, ast.Call) and isinstance(r.func, ast.Name) and r.func.id == "type" and "type" not in local and len(r.args) == 1 \
                and not r.keywords and isinstance(r.args[0], ast.Name) and r.args[0].id == recv0

        def resolve(e):
            if isinstance(e, ast.Name):
                if e.id in local or closure:
                    return UNKNOWN
                return self.module_name(m, e.id)
            if isinstance(e, ast.Attribute):
                if is_self_class(e.value):
                    return self.class_attr(fi.cls.qn, e.attr, exact=False)
                c = chain(e.value)
                if c is None or c.split(".")[0] in local or closure:
                    return UNKNOWN
                q = prog.resolve_in_module(m, c)
                if q in prog.classes:
                    return self.class_attr(q, e.attr, exact=True)
                if q in prog.modules:
                    return self.module_name(prog.modules[q], e.attr)
                return UNKNOWN
            if isinstance(e, ast.Call):
                if closure:
                    return UNKNOWN
                return self.fresh_object(m, e, local)
            return UNKNOWN

        return resolve


def _walk_module_scope(tree):
    """nodes of the module's own scope: not inside functions / classes (their definition nodes are yielded)"""
    stack = list(tree.body)
    while stack:
        n = stack.pop()
        yield n
        if isinstance(n, (ast.FunctionDef, ast.AsyncFunctionDef, ast.ClassDef, ast.Lambda)):
            continue
        stack.extend(ast.iter_child_nodes(n))


def _declared_global(m, name):
    return any(isinstance(n, ast.Global) and name in n.names for n in ast.walk(m.tree))


def sentinels(prog):
    s = prog.__dict__.get("_c13_sentinels")
    if s is None:
        s = prog.__dict__["_c13_sentinels"] = Sentinels(prog)
    return s


def _stored_names(root):
    """names (re)bound by the expression / simple statement `root` itself (targets, walrus, del)"""
    out = set()
    for n in walk_no_nested(root):
        if isinstance(n, ast.Name) and isinstance(n.ctx, (ast.Store, ast.Del)):
            out.add(n.id)
        elif isinstance(n, ast.NamedExpr) and isinstance(n.target, ast.Name):
            out.add(n.target.id)
    return out


_NO_RAISE_VALUE = (ast.Name, ast.Constant, ast.Tuple, ast.List, ast.Load, ast.Store)


def cannot_raise(node):
    """a CFG node whose execution cannot raise: binding locals to constants / other locals, pass, pseudo nodes"""
    a = node.ast
    if node.kind in ("T", "F", "join", "handler", "entry", "exit", "rexit"):
        return True
    if node.kind != "stmt" or a is None:
        return False
    if isinstance(a, ast.Pass):
        return True
    if isinstance(a, ast.Assign):
        return all(isinstance(t, ast.Name) or (isinstance(t, (ast.Tuple, ast.List)) and all(isinstance(x, ast.Name) for x in t.elts)) for t in a.targets) \
            and all(isinstance(x, _NO_RAISE_VALUE) for x in ast.walk(a.value)) \
            and not any(isinstance(t, (ast.Tuple, ast.List)) for t in a.targets if not isinstance(a.value, (ast.Tuple, ast.List)))
    if isinstance(a, ast.AnnAssign):
        return isinstance(a.target, ast.Name) and (a.value is None or all(isinstance(x, _NO_RAISE_VALUE) for x in ast.walk(a.value)))
    return False


class RPath:
    """one feasible path of a region: node ids, the edge labels taken (labels[i] leads from nodes[i] to nodes[i+1]),
    the environment *before* each node, the decisions on undecided atoms, and how it ends"""

    __slots__ = ("nodes", "labels", "envs", "decisions", "end")

    def __init__(self, nodes, labels, envs, decisions, end):
        self.nodes, self.labels, self.envs, self.decisions, self.end = nodes, labels, envs, decisions, end

    def positions(self, nids):
        return [i for i, n in enumerate(self.nodes) if n in nids]

    def completed(self, i):
        """the node at position i was left along a non-exceptional edge"""
        return i < len(self.labels) and self.labels[i] != "exc"

    def took(self, src, dst, label=None, before=None):
        for i in range(len(self.labels) if before is None else min(before, len(self.labels))):
            if self.nodes[i] == src and self.nodes[i + 1] == dst and (label is None or self.labels[i] == label):
                return True
        return False


class RegionPaths:
    """Feasible paths from CFG node `start` to the ends of the function, exceptional edges included, under
    propagation of the constants (True/False/None/numbers/strings) and tokens bound to locals along each path.

    A branch whose test is decided by those bindings is followed on the decided side only -- this is what makes
    `flag = True ... except E: flag = False ... if not flag:` the same as code placed in the handler itself.  Tests that
    are not decided get one decision per normalised atom (paths.PathModel.key_of), kept consistent along the path.
    Every pruned edge is one that cannot be taken at run time (the test's value follows from assignments on the very
    path), so a fact that holds on every enumerated path holds on every run.

    exc_feasible(src_node, dst_node) may rule out exceptional edges (an exception class the source cannot raise).
    special(value expr, env, node) -> Token | None gives selected right-hand sides an identity.
    resolve(expr) -> Token | UNKNOWN gives an identity to expressions that are not locals (class- and module-level
    sentinels, constructor calls; see Sentinels): `x = self._MISSING ... if x is self._MISSING` is decided like
    `x = None ... if x is None`."""

    def __init__(self, fi, start, env0=None, special=None, exc_feasible=None, max_paths=4000, max_visits=2, resolve=None):
        self.fi = fi
        self.pm = PathModel(fi)
        self.cfg = self.pm.cfg
        self.start = start
        self.env0 = dict(env0 or {})
        if resolve is not None:
            self.env0[RESOLVE] = resolve
        self.special = special
        self.exc_feasible = exc_feasible
        self.max_paths = max_paths
        self.max_visits = max_visits
        self.cut = False
        self._paths = None

    # -- transfer function
    def _bind(self, env, target, value_expr, node, cur):
        if isinstance(target, ast.Name):
            v = UNKNOWN
            if value_expr is not None:
                if self.special is not None:
                    tok = self.special(value_expr, cur, node)
                    if tok is not None:
                        v = tok
                if v is UNKNOWN:
                    v = const_eval(value_expr, cur)
            if v is UNKNOWN:
                env.pop(target.id, None)
            else:
                env[target.id] = v
        elif isinstance(target, (ast.Tuple, ast.List)):
            if isinstance(value_expr, (ast.Tuple, ast.List)) and len(value_expr.elts) == len(target.elts) \
                    and not any(isinstance(x, ast.Starred) for x in list(target.elts) + list(value_expr.elts)):
                for t, v in zip(target.elts, value_expr.elts):
                    self._bind(env, t, v, node, cur)
            else:
                for n in _stored_names(target):
                    env.pop(n, None)

    def step(self, env, node):
        """environment after the node completed normally"""
        a = node.ast
        k = node.kind
        if a is None or k in ("T", "F", "join", "return", "raise"):
            return env
        new = dict(env)
        if k == "with":
            for it in a.items:
                for n in _stored_names(it.context_expr):
                    new.pop(n, None)
                if it.optional_vars is not None:
                    for n in _stored_names(it.optional_vars):
                        new.pop(n, None)
            return new
        if k == "for":
            for n in _stored_names(a.target) | _stored_names(a.iter):
                new.pop(n, None)
            return new
        if k == "handler":
            if a.name:
                new.pop(a.name, None)
            return new
        if k == "test":
            for n in _stored_names(a):
                new.pop(n, None)
            return new
        if isinstance(a, ast.Assign):
            for n in _stored_names(a.value):
                new.pop(n, None)
            cur = dict(new)
            for t in a.targets:
                self._bind(new, t, a.value, node, cur)
            return new
        if isinstance(a, ast.AnnAssign) and a.value is not None:
            cur = dict(new)
            self._bind(new, a.target, a.value, node, cur)
            return new
        if isinstance(a, (ast.FunctionDef, ast.AsyncFunctionDef, ast.ClassDef)):
            new.pop(a.name, None)
            return new
        if isinstance(a, (ast.Import, ast.ImportFrom)):
            for al in a.names:
                new.pop((al.asname or al.name).split(".")[0], None)
            return new
        for n in _stored_names(a):
            new.pop(n, None)
        return new

    # -- enumeration
    def paths(self):
        if self._paths is not None:
            return self._paths
        c = self.cfg
        out = []
        stack = [(self.start, (), (), (), dict(self.env0), {})]
        while stack:
            nid, nodes, labels, envs, env, dec = stack.pop()
            nodes = nodes + (nid,)
            envs = envs + (env,)
            node = c.nodes[nid]
            if nid == c.exit or nid == c.rexit:
                out.append(RPath(list(nodes), list(labels), list(envs), dec, "return" if nid == c.exit else "raise"))
                if len(out) > self.max_paths:
                    raise AnalysisError("%s: more than %d feasible paths after node %d" % (self.fi.short, self.max_paths, self.start))
                continue
            if nodes.count(nid) > self.max_visits:
                self.cut = True
                out.append(RPath(list(nodes), list(labels), list(envs), dec, "cut"))
                continue
            succ = c.succ[nid]
            if not succ:
                out.append(RPath(list(nodes), list(labels), list(envs), dec, "raise" if node.kind == "raise" else "fall"))
                continue
            after = self.step(env, node)
            want = None
            key = None
            if node.kind == "test":
                v = const_eval(node.ast, env)
                if v is not UNKNOWN and not isinstance(v, Token):
                    want = "T" if v else "F"
                else:
                    key, pol = self.pm.key_of(node)
                    if key in dec:
                        want = "T" if dec[key] == pol else "F"
            for d, lab in succ:
                if lab == "exc":
                    if node.kind != "raise" and cannot_raise(node):
                        continue
                    if self.exc_feasible is not None and not self.exc_feasible(node, c.nodes[d]):
                        continue
                    # the statement did not complete: its bindings did not happen
                    stack.append((d, nodes, labels + (lab,), envs, env, dec))
                    continue
                if lab in ("T", "F") and node.kind == "test":
                    if want is not None and lab != want:
                        continue
                    nd = dec
                    if want is None and key is not None:
                        nd = dict(dec)
                        nd[key] = (lab == "T") == pol
                    stack.append((d, nodes, labels + (lab,), envs, after, nd))
                    continue
                stack.append((d, nodes, labels + (lab,), envs, after, dec))
        self._paths = out
        return out

    def through(self, nids):
        nids = set(nids)
        return [p for p in self.paths() if nids & set(p.nodes)]

    def describe(self, p):
        d = ["%s%s" % ("" if v else "not ", k) for k, v in sorted(p.decisions.items())]
        ex = [stmt_text(self.cfg.nodes[p.nodes[i]].ast, 40) for i, l in enumerate(p.labels) if l == "exc" and self.cfg.nodes[p.nodes[i]].ast is not None]
        return ", ".join(d + ["%s raises" % x for x in ex]) or "<unconditional>"


def entry_constants(fi, cfg, at, resolve=None):
    """{local: constant / token} known on arrival at CFG node `at` without looking at paths: the name's only write that
    can reach `at` is `name = <value>` (possibly one of several writes, the others all before it) and it dominates `at`.
    <value> is evaluated by const_eval: a constant, what `resolve` (see Sentinels.resolver) knows about it, or an
    expression over other such locals whose defining write dominates this one (`missing = object(); content = missing`:
    nothing can rebind `missing` between the two on a path that reaches `at`)."""
    names = {}
    for n in walk_no_nested(fi.node):
        if isinstance(n, ast.Name) and isinstance(n.ctx, (ast.Store, ast.Del)):
            names.setdefault(n.id, None)
    prm = set(params(fi, skip_self=False))
    defs = {}
    for name in names:
        if name in prm:
            continue
        ws = [(nid, w) for w in writes_to_name(fi.node, name) for nid in cfg.locate(w)]
        live = [(nid, w) for nid, w in ws if nid != at and at in cfg.reach({nid})]
        if not live or len(ws) != len(writes_to_name(fi.node, name)):
            continue
        last = [(nid, w) for nid, w in live if cfg.dominates(nid, at) and not any(o != nid and o in cfg.reach({nid}) for o, _ in live)
                and nid not in cfg.reach({nid})]
        if len(last) != 1:
            continue
        nid, w = last[0]
        if isinstance(w, ast.Assign) and len(w.targets) == 1 and isinstance(w.targets[0], ast.Name):
            defs[name] = (nid, w.value)
    out = {}
    for _round in range(4):
        changed = False
        for name, (nid, value) in defs.items():
            if name in out:
                continue
            env = {d: out[d] for d in out if d in defs and defs[d][0] != nid and cfg.dominates(defs[d][0], nid)}
            if resolve is not None:
                env[RESOLVE] = resolve
            v = const_eval(value, env)
            if v is not UNKNOWN:
                out[name] = v
                changed = True
        if not changed:
            break
    return out
